"""C09 Declared parameter frequencies cover the true spectrum."""
from vlib import *

PID = "C09"
META = {
    "level": "proof",
    "engine": "qsym-translator",
    "technique": "Coq theorem (frequencies of conj(p)*q are exponent differences; soundness of freq_cover) + vm_compute of freq_cover on the exact symbolic gate matrices and the declared frequencies regenerated from /repo",
    "design_ref": "DESIGN.md §3 C09",
    "text": "For every parametrized gate class with declared frequencies (qp.gradients.parameter_frequencies) and each of its parameters, the exact Laurent-polynomial matrix M(theta) is extracted by running compute_matrix on formal parameters; Coq evaluates freq_cover (every difference of exponents of z_j occurring anywhere in M is 0 or +-f*D for a declared f). Theorem declared_frequencies_cover_spectrum (all matrices, all declarations) states that then every product conj(M[r][c])*M[r'][c'] -- the building blocks of any expectation value, for any state, observable and surrounding circuit -- only carries declared frequencies; the companion theorems extend this to sums and constant multiples. A numeric DFT of a random expectation value is run on the implementation for each parameter as the direct search. The consequence for shift rules is C35's exact_iff_moments.",
    "note": "Trusted: Coq kernel (theorems closed under the global context); translator qsym/qx (spot-checked); the step from 'products of entries' to 'expectation value of an arbitrary circuit' is linear algebra stated in the theorem comments, not mechanised end-to-end; gates whose frequencies depend on numeric eigenvalues of user matrices are not covered.",
    "assumptions": ["theta_j enters the circuit only through the gate under test"], "trusted": ["translator harness/qsym.py, qx.py, impl/c09_impl.py"],
}
HEADER = """From Coq Require Import List ZArith QArith Bool.
From PLV Require Import Alg.Poly Alg.Freq.
Import ListNotations.
Open Scope Q_scope.
"""


def run(ctx):
    ctx.coq_props()
    out = ctx.run_impl("c09_impl.py", {"tier": ctx.tier, "seed": ctx.seed, "outdir": str(ctx.gen_dir)}, timeout=1800)
    items = out["items"]
    obl = json.loads((ctx.gen_dir / "obligations.json").read_text())
    failed = ctx.coq_obligations("freq", HEADER, [(o["name"], o["stmt"], "vm_compute. reflexivity.") for o in obl], chunk=30)
    by = {o["name"]: o for o in obl}
    st = {i["name"]: i for i in items}
    for name, detail in failed:
        o = by.get(name)
        if o is None:
            ctx.broken_obligation("coq", name, detail); continue
        wit = st[o["gate"]].get("numeric_fail")
        ctx.violation(f"freq:{o['gate']}:{o['param']}", {"gate": o["gate"], "parameter": o["param"], "declared": st[o["gate"]]["declared"],
                      "numeric_witness": wit, "obligation": name}, found_input=bool(wit),
                      what=f"matrix of {o['gate']} carries a frequency of parameter {o['param']} that is not declared")
    for i in items:
        if i.get("numeric_fail"):
            ctx.violation(f"freq:{i['name']}:{i['numeric_fail']['parameter']}", {"gate": i["name"], "numeric_witness": i["numeric_fail"]},
                          what=f"expectation value of {i['name']} contains an undeclared frequency (DFT)")
    base_p = VERIF / "harness" / "expected_c09.json"
    okset = sorted(i["name"] for i in items if i["status"] == "ok")
    if os.environ.get("VERIF_WRITE_BASELINE") and not failed:
        old = set(json.loads(base_p.read_text())) if base_p.exists() else set()
        base_p.write_text(json.dumps(sorted(old | set(okset)), indent=0))
    if base_p.exists():
        for nm in json.loads(base_p.read_text()):
            i = st.get(nm)
            if i is not None and i["status"] != "ok":
                ctx.violation(f"tie:{nm}", {"gate": nm, "status": i["status"], "detail": i["detail"], "no_longer_checks": "extraction of this gate"},
                              found_input=False, what=f"frequencies of {nm} can no longer be checked ({i['status']})")
    ctx.coverage.update({"evaluations": len(items), "distinct_nontrivial": len(obl),
                         "rule": "every parametrized gate class with scalar parameters and declared frequencies; one kernel-checked obligation per (gate, parameter)",
                         "no_declaration": [i["name"] for i in items if i["status"] == "no-declaration"],
                         "not_extractable": [(i["name"], i["detail"][:80]) for i in items if i["status"] in ("notex", "error")]})
    for i in items[:40:13]:
        ctx.sample({"gate": i["name"], "declared": i["declared"], "status": i["status"]})
