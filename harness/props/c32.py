"""C32 Result structure depends only on the request."""
from vlib import *

PID = "C32"
META = {
    "level": "proof",
    "technique": "Coq proofs over a Gallina transcription of <MP>.shape / _result_shape_dtype_struct / the Jacobian nesting convention + vm_compute correspondence against real executions on 4 devices x 4 interfaces x 5 diff methods",
    "design_ref": "DESIGN.md §3 C32",
    "text": "Kernel-checked theorems (Props/C32.v) state, for ALL shot lists, measurement lists, wire counts, batch sizes and parameter-shape lists: a single measurement is returned unwrapped, several measurements give a tuple with one entry per measurement, a shot vector adds an outer tuple with one entry per shot copy and each copy has exactly the structure of a plain execution with that shot count, broadcasting adds one leading axis of the batch size to every array leaf (a counts dictionary becomes a tuple of B dictionaries), a batch of circuits gives one entry per circuit, and a Jacobian has the nesting of the result with, at every leaf, the parameter axes appended (tuple over parameters unless there is exactly one). The expected structure is a function of the request only (theorem shape_depends_only_on_request is true by construction of the model); that the real stack never lets the device, interface or differentiation method influence the structure is decided by the tie: on every run the model is evaluated inside Coq on generated requests and compared with the shape tree of what QNodes, qp.execute, qp.jacobian / jax.jacobian / torch.autograd.functional.jacobian, the JacobianProductCalculator classes and jax_jit._result_shape_dtype_struct / _jac_shape_dtype_struct actually return on default.qubit, default.mixed, reference.qubit and null.qubit; a direct oracle additionally requires all configurations of one request to agree with each other.",
    "note": "QuantumScript.shape does not exist at the pinned commit; jax_jit._result_shape_dtype_struct (the in-repo statement of a tape's result structure) is transcribed instead and is itself compared with the model (mode struct), as is _jac_shape_dtype_struct (mode jacstruct). The device/interface/diff-method independence is NOT a theorem about PennyLane code: it is established only for the generated configurations of each run (tie K). Documented device behaviour modelled by substitution, not alarmed: qp.state() on default.mixed is answered with density_matrix over all device wires (devices/qubit_mixed/measure.py), so for that device the harness hands the model KDM(all wires) and keeps those cases out of the cross-device comparison. KNOWN findings (fixed keys, raised only for exactly that cause): a broadcast axis of size 1 is squeezed away (a) with finite shots for expval/var/probs (math.squeeze in process_samples) and (b) analytically for the expectation of a Hamiltonian/LinearCombination (math.squeeze in the sum-of-terms measurement) on default.qubit/default.mixed/reference.qubit, while null.qubit, other observables and the in-repo structure function keep it; broadcast-parameter Jacobians are therefore generated with batch size >= 2 only. Shot specifications are expanded in Python (expansion semantics are C44's subject). Counts dictionaries are opaque leaves (key sets not compared; null.qubit's all_outcomes key set differs). Python lists and tuples are both read as tuples. Not covered: lightning devices (not installed), tensorflow, jax.jit tracing, mid-circuit-measurement statistics, classical shadows, entropy/purity/mutual-info measurements, Jacobians of state/density-matrix/sample outputs, second derivatives, Jacobians of broadcast tapes under parameter-shift/finite-diff (NotImplementedError in PennyLane), autograd/torch Jacobians of nested outputs (those frameworks cannot differentiate nested tuples), empty measurement lists. _jac_shape_dtype_struct is transcribed with its quirk (parameters outside the shot-copy tuple, theorem jac_struct_quirk_refuted); that input is unreachable because device derivatives require analytic execution. In the quick tier jax executions are budgeted (jax traces/compiles per call; default.mixed under jax takes seconds each).",
    "assumptions": ["num_device_wires is part of the request (wire-less probs/sample/state use the device's wire count)",
                    "parameter arguments are dense arrays of fixed shape; exactly-one-parameter requests are passed unwrapped (argnums=0 / a single tensor)",
                    "only configurations inside PennyLane's support matrix are generated (harness table valid_cfg, e.g. no backprop/adjoint with finite shots, adjoint on default.qubit only for expectation values); for those an exception counts as a mismatch with the model"],
    "trusted": ["hand-written model coq/Disc/ShapesModel.v tied to /repo by correspondence only",
                "harness conversion of returned Python objects to shape trees (tuple/list -> Tup, dict -> Opaque, else numpy/torch shape)"],
}

DEVS = ["default.qubit", "default.mixed", "reference.qubit", "null.qubit"]
IFACES = ["numpy", "autograd", "jax", "torch"]
DIFFS = [None, "backprop", "parameter-shift", "adjoint", "finite-diff"]
F_BATCH1 = "finding:batch1_finite_shots_drops_batch_axis"
F_BATCH1_SUM = "finding:batch1_analytic_sum_observable_drops_batch_axis"


# ------------------------------------------------------------------ requests
def expand_shots(s):
    if s is None:
        return None
    if isinstance(s, int):
        return [s]
    out = []
    for it in s:
        out += [it[0]] * it[1] if isinstance(it, list) else [it]
    return out


def gen_shots(rng, finite=None):
    r = rng.random()
    if finite is False or (finite is None and r < 0.35):
        return None
    r = rng.random()
    a, b = rng.choice([1, 2, 3, 5, 7, 10]), rng.choice([1, 2, 4, 6])
    if r < 0.35:
        return a
    return rng.choice([[a, a, b], [a, b], [[a, 2], b], [a], [[a, 1]], [[a, 3]], [b, [a, 2], a], [a, a], [a, b, a, b]])


def gen_mps(rng, nw, finite, kinds=None, nmax=4):
    n = rng.choice([1, 1, 1, 2, 2, 3, nmax])
    if kinds is None:
        kinds = (["expval", "var", "probs", "sample", "sampleobs", "counts", "probs", "sample"] if finite
                 else ["expval", "var", "probs", "probs", "state", "dm"])
    out = []
    for _ in range(n):
        k = rng.choice(kinds)
        m = {"k": k, "o": rng.randint(0, 3)}
        if k in ("probs", "sample", "counts"):
            m["w"] = rng.randint(0, nw)
        elif k == "dm":
            m["w"] = rng.randint(1, nw)
        if k == "state" and any(x["k"] == "state" for x in out):
            m = {"k": "expval", "o": 0}
        out.append(m)
    return out


def gen_req(rng, finite=None, kinds=None, batch=True, nw=None):
    shots = gen_shots(rng, finite)
    nw = nw or rng.choice([2, 3])
    B = rng.choice([None, None, None, None, 1, 2, 3]) if batch else None
    return {"shots": shots, "nw": nw, "B": B, "mps": gen_mps(rng, nw, shots is not None, kinds)}


def kinds_of(req):
    return {m["k"] for m in req["mps"]}


# ------------------------------------------------------------------ which configurations PennyLane accepts
def valid_cfg(dev, iface, diff, req, jac=False):
    ks = kinds_of(req)
    finite = req["shots"] is not None
    if diff is None:
        return not jac
    if iface == "numpy" and jac:
        return False
    if diff == "backprop":
        return (not finite) and dev != "reference.qubit" and iface != "numpy"
    if diff == "adjoint":
        if finite or dev in ("default.mixed", "reference.qubit"):
            return False
        if dev == "default.qubit":
            return ks <= {"expval"}
        return True
    # gradient transforms
    return not (jac and not ks <= {"expval", "var", "probs"})


def valid_jac_iface(iface, req):
    part = req["shots"] is not None and len(expand_shots(req["shots"])) > 1
    nm = len(req["mps"])
    if iface == "autograd":
        return nm == 1 and not part
    if iface == "torch":
        return not (part and nm > 1)
    return iface == "jax"


SLOW = {}      # budgets for slow executions (jax traces/compiles per call; default.mixed under jax takes seconds)


def pick_cfgs(rng, req, k, jac=False, must_backprop=False):
    allc = [(d, i, m) for d in DEVS for i in IFACES for m in DIFFS
            if valid_cfg(d, i, m, req, jac) and (not jac or valid_jac_iface(i, req))
            and (not must_backprop or m == "backprop")]
    rng.shuffle(allc)
    key = "jax_jac" if jac else "jax_res"
    only_jax = all(c[1] == "jax" for c in allc)
    out, seen_dev = [], set()

    def take(c):
        keys = []
        if c[1] == "jax":
            keys.append(key)
            keys += ["mixedjax"] if c[0] == "default.mixed" else []
            keys += ["jax_backprop"] if (jac and c[2] == "backprop") else []
        if jac and c[0] == "default.mixed":
            keys.append("mixed_jac")
        if any(SLOW[x] <= 0 for x in keys) or (c[1] == "jax" and not only_jax and rng.random() < 0.4):
            return False
        for x in keys:
            SLOW[x] -= 1
        out.append(c)
        return True

    for c in allc:                       # spread over devices first
        if len(out) < k and c[0] not in seen_dev and take(c):
            seen_dev.add(c[0])
    for c in allc:
        if len(out) >= k:
            break
        if c not in out:
            take(c)
    return out


# ------------------------------------------------------------------ python mirror (only to recognise the KNOWN batch-size-1 deviations)
def py_leaf(m, s, nw, B, dev):
    k, w = m["k"], m.get("w", 0)
    if k == "counts":
        return "O" if not B else {"T": ["O"] * B}
    d = {"expval": [], "var": [], "probs": [2 ** (w or nw)], "sample": [s, w or nw], "sampleobs": [s],
         "state": [2 ** nw, 2 ** nw] if dev == "default.mixed" else [2 ** nw], "dm": [2 ** w, 2 ** w]}[k]
    if not B:
        return {"L": d}
    t = {"L": [B] + d}
    if B == 1 and dev != "null.qubit":
        # squeeze sites: process_samples of expval/var/probs (finite shots); sum-of-terms expval (analytic)
        if (s is not None and k in ("expval", "var", "probs")) or (s is None and k == "expval" and m.get("o", 0) == 3):
            t["alt"] = (F_BATCH1 if s is not None else F_BATCH1_SUM, d)
    return t


def py_model(req, dev=None):
    ss = expand_shots(req["shots"])
    copies = []
    for s in (ss if ss is not None else [None]):
        ts = [py_leaf(m, s, req["nw"], req["B"], dev) for m in req["mps"]]
        copies.append(ts[0] if len(ts) == 1 else {"T": ts})
    return {"T": copies} if ss is not None and len(ss) > 1 else copies[0]


def match_alt(o, m, used):
    """o == m where marked leaves may also appear without their batch axis (recorded in `used`)"""
    if m == "O" or o == "O":
        return o == m
    if "T" in m:
        return "T" in o and len(o["T"]) == len(m["T"]) and all(match_alt(a, b, used) for a, b in zip(o["T"], m["T"]))
    if "L" not in o:
        return False
    if o["L"] == m["L"]:
        return True
    if "alt" in m and o["L"] == m["alt"][1]:
        used.add(m["alt"][0])
        return True
    return False


def known_deviation(case, o):
    """the fixed finding key if `o` is the model up to the KNOWN loss of a size-1 batch axis, else None"""
    if case["mode"] not in ("res", "batch"):
        return None
    used = set()
    if case["mode"] == "batch":
        m = {"T": [py_model(r, case["dev"]) for r in case["reqs"]]}
    else:
        m = py_model(case["req"], case["dev"])
    if match_alt(o, m, used) and used:
        return sorted(used)[0]
    return None


# ------------------------------------------------------------------ Gallina printers
def g_mp(m):
    k = m["k"]
    return {"expval": "KExpval", "var": "KVar", "sampleobs": "KSampleObs", "counts": "KCounts", "state": "KState"}.get(k) \
        or {"probs": "KProbs", "sample": "KSample", "dm": "KDM"}[k] + " " + gz(m.get("w", 0))


def g_req(r, dev=None):
    if dev == "default.mixed":   # documented device behaviour: qp.state() is answered with density_matrix(all device wires)
        r = dict(r, mps=[{"k": "dm", "w": r["nw"]} if m["k"] == "state" else m for m in r["mps"]])
    ss = expand_shots(r["shots"])
    sp = "NoShots" if ss is None else f"(ShotList {glist(ss, gz)})"
    return f"(mkReq {sp} {gz(r['nw'])} {gopt(r['B'], gz)} {glist(['(' + g_mp(m) + ')' if ' ' in g_mp(m) else g_mp(m) for m in r['mps']])})"


G_DEV = {"default.qubit": "DefaultQubit", "default.mixed": "DefaultMixed", "reference.qubit": "ReferenceQubit", "null.qubit": "NullQubit"}
G_IF = {"numpy": "INumpy", "autograd": "IAutograd", "jax": "IJax", "torch": "ITorch"}
G_DIFF = {None: "DNone", "backprop": "DBackprop", "parameter-shift": "DParamShift", "adjoint": "DAdjoint", "finite-diff": "DFiniteDiff"}


def g_cfg(c):
    return f"({G_DEV[c['dev']]}, {G_IF[c.get('iface', 'numpy')]}, {G_DIFF[c.get('diff')]})"


def g_tree(t):
    if t == "O":
        return "Opaque"
    if "L" in t:
        return f"(Leaf {glist(t['L'], gz)})"
    return f"(Tup {glist(t['T'], g_tree)})"


def g_case(c):
    m = c["mode"]
    if m == "res":
        return f"CRes {g_cfg(c)} {g_req(c['req'], c['dev'])}"
    if m == "batch":
        return f"CBatch {g_cfg(c)} {glist(c['reqs'], lambda r: g_req(r, c['dev']))}"
    if m == "jac":
        return f"CJac {g_cfg(c)} {g_req(c['req'])} {glist(c['params'], lambda p: glist(p, gz))}"
    if m == "tapejac":
        return f"CJac {g_cfg(c)} {g_req(c['req'])} {glist([[]] * c['P'], lambda p: glist(p, gz))}"
    if m == "struct":
        return f"CStruct {g_req(c['req'])}"
    return f"CJacStruct {g_req(c['req'])} {gnat(c['P'])}"


def is_err(o):
    return isinstance(o, str) and o.startswith("ERR")


def depth(t):
    return 0 if t == "O" or "L" in t else 1 + max([depth(x) for x in t["T"]] or [0])


# ------------------------------------------------------------------ case generation
def mk(mode, cfg, **kw):
    c = {"mode": mode, "dev": cfg[0], "iface": cfg[1], "diff": cfg[2]}
    c.update(kw)
    return c


CORPUS_REQS = [
    {"shots": None, "nw": 2, "B": None, "mps": [{"k": "expval", "o": 0}]},
    {"shots": None, "nw": 2, "B": None, "mps": [{"k": "expval", "o": 0}, {"k": "probs", "w": 2}]},
    {"shots": [5, 5, 3], "nw": 2, "B": None, "mps": [{"k": "expval", "o": 0}]},
    {"shots": [[4, 2], 3], "nw": 3, "B": 2, "mps": [{"k": "sample", "w": 0}, {"k": "counts", "w": 1, "o": 2}, {"k": "var", "o": 1}]},
    {"shots": 7, "nw": 3, "B": 3, "mps": [{"k": "counts", "w": 2, "o": 0}]},
    {"shots": None, "nw": 3, "B": 2, "mps": [{"k": "state"}, {"k": "dm", "w": 2}]},
    {"shots": [3], "nw": 2, "B": None, "mps": [{"k": "sampleobs", "o": 2}, {"k": "sample", "w": 1}]},
    {"shots": 4, "nw": 2, "B": 1, "mps": [{"k": "sample", "w": 1}, {"k": "counts", "w": 0}]},
]


def gen_cases(ctx):
    rng = ctx.rng
    q = ctx.tier == "quick"
    SLOW.update({"jax_res": 10, "jax_jac": 12, "mixedjax": 2, "jax_backprop": 2, "mixed_jac": 6} if q else
                {"jax_res": 10 ** 6, "jax_jac": 10 ** 6, "mixedjax": 24, "jax_backprop": 24, "mixed_jac": 10 ** 6})
    n_res, k_res = (24, 4) if q else (220, 7)
    n_jac, k_jac = (11, 4) if q else (90, 7)
    n_tj = 1 if q else 5
    n_batch = 6 if q else 40
    cases = []
    reqs = list(CORPUS_REQS)
    while len(reqs) < n_res:
        reqs.append(gen_req(rng))
    for r in reqs:
        cases.append(mk("struct", (rng.choice(DEVS), "numpy", None), req=r))
        for cfg in pick_cfgs(rng, r, k_res):
            cases.append(mk("res", cfg, req=r))
    # malformed stream: sampling without shots must be rejected by every device
    for d in DEVS:
        r = {"shots": None, "nw": 2, "B": rng.choice([None, 2]),
             "mps": [{"k": rng.choice(["sample", "sampleobs"]), "w": rng.randint(0, 2), "o": 0}] + ([{"k": "expval", "o": 0}] if rng.random() < 0.5 else [])}
        cases.append(mk("res", (d, rng.choice(IFACES), None), req=r))
    # batches of circuits
    for _ in range(n_batch):
        nw = rng.choice([2, 3])          # one device: wire-less measurements use its wire count
        rs = [gen_req(rng, nw=nw) for _ in range(rng.choice([1, 2, 3]))]
        d = rng.choice(DEVS)
        cases.append(mk("batch", (d, rng.choice(IFACES), None), reqs=rs))
    # Jacobians through the interfaces
    jk = ["expval", "var", "probs", "expval", "probs"]
    corpus_j = [({"shots": None, "nw": 2, "B": None, "mps": [{"k": "expval", "o": 0}, {"k": "probs", "w": 2}]}, [[], [2]], False),
                ({"shots": [5, 5, 3], "nw": 2, "B": None, "mps": [{"k": "expval", "o": 0}, {"k": "probs", "w": 1}]}, [[], []], False),
                ({"shots": None, "nw": 2, "B": 3, "mps": [{"k": "probs", "w": 2}]}, [[3]], True)]
    jreqs = list(corpus_j)
    while len(jreqs) < n_jac:
        bparam = rng.random() < 0.2
        r = gen_req(rng, finite=False if bparam else None, kinds=jk, batch=False)
        npar = rng.choice([1, 1, 2, 2, 3])
        ps = [rng.choice([[], [], [2], [3], [2, 2]]) for _ in range(npar)]
        if bparam:
            b = rng.choice([2, 3])      # size-1 batches: see the KNOWN findings
            r["B"] = b
            ps[0] = [b]
        jreqs.append((r, ps, bparam))
    for r, ps, bparam in jreqs:
        for cfg in pick_cfgs(rng, r, k_jac, jac=True, must_backprop=bparam):
            cases.append(mk("jac", cfg, req=r, params=ps, bparam=bparam))
    # Jacobians at tape level: JacobianProductCalculator classes and the in-repo structure function
    # grid: every (number of parameters, number of measurements, shots class) combination occurs
    grid = [(P, nm, sc) for P in (1, 2, 3) for nm in (1, 2, 3) for sc in ("none", "int", "vec")] * n_tj
    for P, nm, sc in grid:
        nw = rng.choice([2, 3])
        shots = None if sc == "none" else (rng.choice([1, 3, 10]) if sc == "int" else rng.choice([[4, 4, 2], [[3, 2]], [2, 5], [1, [6, 2]]]))
        mps = []
        for _ in range(nm):
            k = rng.choice(jk)
            mps.append({"k": k, "o": rng.randint(0, 3), "w": rng.randint(0, nw)} if k == "probs" else {"k": k, "o": rng.randint(0, 3)})
        r = {"shots": shots, "nw": nw, "B": None, "mps": mps}
        for d in rng.sample(DEVS, 2):
            for m in ("parameter-shift", "finite-diff", "adjoint"):
                if valid_cfg(d, "jax", m, r, jac=True):
                    cases.append(mk("tapejac", (d, "numpy", m), req=r, P=P))
        if sc != "vec":    # _jac_shape_dtype_struct is only reached for analytic / single-copy tapes
            cases.append(mk("jacstruct", (rng.choice(DEVS), "numpy", None), req=r, P=P))
    return cases


def req_key(c):
    rs = c["reqs"] if "reqs" in c else [c["req"]]
    sub = c["mode"] in ("res", "batch") and c["dev"] == "default.mixed" and any("state" in kinds_of(r) for r in rs)
    return ("mixed-state-substitution:" if sub else "") + json.dumps({k: c.get(k) for k in ("req", "reqs", "params", "P") if k in c} |
                      {"m": {"res": "res", "struct": "res", "batch": "batch", "jac": "jac", "tapejac": "jac1",
                             "jacstruct": "jac1"}[c["mode"]]}, sort_keys=True)


def run(ctx):
    ctx.coq_props()
    cases = gen_cases(ctx)
    obs = ctx.run_impl("c32_impl.py", {"cases": cases}, timeout=3000)
    hist = {"modes": {}, "devices": {}, "interfaces": {}, "diff_methods": {}, "errors_by_type": {},
            "expected_rejections": 0, "unexpected_errors": 0, "shot_vector": 0, "broadcast": 0, "multi_measurement": 0,
            "max_depth": 0}
    terms, idx = [], []
    groups = {}
    nontrivial = set()
    for i, (c, o) in enumerate(zip(cases, obs)):
        hist["modes"][c["mode"]] = hist["modes"].get(c["mode"], 0) + 1
        malformed = c["mode"] == "res" and c["req"]["shots"] is None and kinds_of(c["req"]) & {"sample", "sampleobs"}
        if is_err(o):
            hist["errors_by_type"][o] = hist["errors_by_type"].get(o, 0) + 1
            # a raised exception is compared with the model as "no structure": the model rejects exactly the
            # malformed stream; configurations outside PennyLane's support matrix are never generated (valid_cfg)
            hist["expected_rejections" if malformed else "unexpected_errors"] += 1
            terms.append(f"({g_case(c)}, None)"); idx.append(i)
            continue
        for k, f in (("devices", "dev"), ("interfaces", "iface"), ("diff_methods", "diff")):
            if c["mode"] in ("res", "jac", "batch", "tapejac"):
                hist[k][str(c[f])] = hist[k].get(str(c[f]), 0) + 1
        r0 = c["req"] if "req" in c else c["reqs"][0]
        ss = expand_shots(r0["shots"])
        hist["shot_vector"] += bool(ss and len(ss) > 1)
        hist["broadcast"] += r0["B"] is not None
        hist["multi_measurement"] += len(r0["mps"]) > 1
        hist["max_depth"] = max(hist["max_depth"], depth(o))
        if depth(o) >= 1:
            nontrivial.add(req_key(c) + c["dev"] + str(c["iface"]) + str(c["diff"]))
        kd = known_deviation(c, o)
        if kd:
            ctx.violation(kd, {"case": c, "observed": o},
                          what={F_BATCH1: "broadcast size 1 with finite shots: expval/var/probs lose the leading batch axis (math.squeeze in process_samples) on default.qubit/default.mixed/reference.qubit",
                                F_BATCH1_SUM: "broadcast size 1, analytic: expval of a Hamiltonian/LinearCombination loses the leading batch axis (math.squeeze in the sum-of-terms measurement, devices/qubit/measure.py:118, qubit_mixed/measure.py:148, reference.qubit) while other observables and null.qubit keep it"}[kd])
            continue
        terms.append(f"({g_case(c)}, Some {g_tree(o)})"); idx.append(i)
        groups.setdefault(req_key(c), []).append(i)
    bad = ctx.coq_eval_cases("cases", "From PLV Require Import Disc.ShapesModel.", terms, "check_case") if terms else []
    # direct oracle: every configuration of one request returns the same structure
    for key, members in groups.items():
        first = members[0]
        for j in members[1:]:
            if obs[j] != obs[first]:
                ctx.violation("direct:" + json.dumps([cases[first], cases[j]], sort_keys=True),
                              {"case_a": cases[first], "observed_a": obs[first], "case_b": cases[j], "observed_b": obs[j]},
                              what="two configurations (device/interface/diff method) return different structures for the same request")
                break
    for b in bad:
        i = idx[b]
        ctx.violation("corr:" + json.dumps(cases[i], sort_keys=True),
                      {"case": cases[i], "implementation": obs[i], "model_input": terms[b]},
                      what="returned structure differs from the proved model of the result-structure convention")
    compared = len(terms)
    if compared < 0.8 * len(cases):
        ctx.broken_obligation("tie", "c32-correspondence",
                              f"only {compared} of {len(cases)} generated executions returned a value: {hist['errors_by_type']}")
    ctx.coverage.update({"evaluations": len(cases), "distinct_nontrivial": len(nontrivial),
                         "rule": "seeded requests (shots None/int/vectors with repeats and (s,c) pairs; 1-4 measurements of expval/var/probs/sample/sample(obs)/counts/state/density_matrix incl. wire-less; broadcast None/1/2/3; 2-3 device wires) x configurations spread over the 4 devices, 4 interfaces, 5 diff methods that PennyLane accepts; modes: QNode result, in-repo structure function, batch execute, interface Jacobians (1-3 parameters of shape (), (2,), (3,), (2,2), optional broadcast parameter), tape-level Jacobians; non-trivial = returned structure has nesting depth >= 1",
                         "input_distribution": hist, "compared_with_model": compared})
    shown = 0
    for c, o in zip(cases, obs):
        if not is_err(o) and depth(o) >= 2 and shown < 4:
            ctx.sample({"case": c, "observed": o}); shown += 1
