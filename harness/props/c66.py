"""C66 Local decomposition-rule contexts are isolated (ContextVar registries, local_decomps)."""
from vlib import *

PID = "C66"
META = {
    "level": "proof",
    "technique": "Coq: heap-and-ContextVar model of the decomposition registries, refinement invariant proved by induction over ALL thread interleavings; vm_compute correspondence against real threads forced through generated interleavings",
    "design_ref": "DESIGN.md §3 C66",
    "text": "Kernel-checked theorems (Props/C66.v) over every schedule (list of (thread, action), any interleaving, any number of threads, any nesting): "
            "the heap model, in which registries are shared mutable objects reached through per-thread ContextVar values and reset tokens, refines a value semantics with a private stack of registries per thread (refines_private_stacks); hence "
            "view_is_own_history (a thread inside a context sees the snapshot taken at its innermost entry plus its own later add/fix calls at that level), "
            "no_leak_global (object 0 = initial registry + exactly the add/fix calls made by threads outside every context; a thread with no open context sees that), "
            "exit_restores (after exit, normal or by exception, a whole enter..exit episode of a thread is invisible to every thread; nested: the thread sees exactly what it saw before the enter), "
            "other_threads_unaffected (an action of t inside a context, and any enter/exit/list, never changes what u != t sees), list_copy_isolated. "
            "Tie: generated schedules are executed by real threading.Thread workers (one per thread id, real `with local_decomps()` blocks, exceptions raised out of the block) forced through exactly the generated global order; after every step every thread's list_decomps of every operator is recorded and compared with the model evaluated inside Coq; property oracles are also evaluated directly on the observations.",
    "note": "Trusted / modelled, not verified: CPython's contextvars (a new thread starts with an empty context, ContextVar.get default, set returns a token, reset(token) restores the previous value) and contextlib.contextmanager (finally runs on normal and exceptional exit) are taken with their documented semantics and appear as the model's AEnter/AExit transitions; asyncio tasks (which copy the context) are not modelled. "
            "One heap cell stands for a registry dict TOGETHER with its DecompCollection values (the model copies the cell on entry, as local_decomps copies every collection); a change to a shallow copy is caught by the correspondence run, not by the theorems. "
            "list_copy_isolated is definitional in the model (the returned copy is not a heap object); its content is the tie (AListMut steps mutate the real returned collection and all subsequent observations must agree). "
            "Rule identity = rule name = integer tag (two distinct rule objects with the same name are outside the model). "
            "Exit without an open block is not expressible with Python's `with` and is a no-op in the model; never generated. Operator names of generated cases are fresh strings (plus real operator classes in cases that add/fix only inside contexts); the driver process is discarded after the run so nothing persists.",
    "assumptions": ["documented ContextVar / threading semantics of CPython 3.12 (threads start with an empty context)",
                    "rule name identifies the rule (tags)",
                    "asyncio tasks out of scope"],
    "trusted": ["hand-written model coq/Disc/CtxRegistryModel.v tied to /repo by correspondence only",
                "CPython contextvars, threading, queue, contextlib"],
}

NP = 10  # rule tags used by generated schedules
REAL_OPS = ["@CRX", "@Hadamard", "@CNOT", "@Toffoli"]


def gen_case(rng, big=False):
    T = rng.choice([1, 2, 2, 2, 3, 3, 4])
    K = rng.choice([1, 2, 2, 3])
    ops = [f"op{k}" for k in range(K)]
    local_only = rng.random() < 0.15
    if local_only:
        ops[0] = rng.choice(REAL_OPS)
    init, initfix = [], []
    for k in range(K):
        if ops[k].startswith("@"):
            init.append([]); initfix.append(None)
            continue
        init.append(rng.sample(range(NP), rng.choice([0, 0, 1, 2, 3])))
        initfix.append(rng.randrange(NP) if rng.random() < 0.08 else None)
    N = rng.randint(3, 60 if big else 34)
    depth = [0] * T
    sched = []
    t = rng.randrange(T)
    for _ in range(N):
        if rng.random() < 0.6:
            t = rng.randrange(T)
        d = depth[t]
        r = rng.random()
        op = rng.randrange(K)
        if r < 0.18 and d < 3:
            act = ["enter"]; depth[t] += 1
        elif r < 0.38 and d > 0:
            act = ["exit" if rng.random() < 0.6 else "exitexn"]; depth[t] -= 1
        elif r < 0.70:
            if local_only and d == 0:
                act = ["list", op]
            else:
                q = rng.random()
                if q < 0.7:
                    rs = [rng.randrange(NP)]
                elif q < 0.93:
                    rs = rng.sample(range(NP), 2)
                else:
                    x = rng.randrange(NP); rs = [x, x] if rng.random() < 0.5 else [x, rng.randrange(NP), x]
                act = ["add", op, rs]
        elif r < 0.82:
            if local_only and d == 0:
                act = ["list", op]
            else:
                act = ["fix", op, rng.randrange(NP)]
        elif r < 0.88:
            act = ["list", op]
        else:
            act = ["listmut", op, rng.randrange(NP)]
        sched.append([t, act])
    return {"T": T, "ops": ops, "init": init, "initfix": initfix, "sched": sched}


CORPUS = [
    # the docstring scenario: add inside a context, exit, gone
    {"T": 1, "ops": ["a"], "init": [[0]], "initfix": [None],
     "sched": [[0, ["enter"]], [0, ["add", 0, [1]]], [0, ["fix", 0, 2]], [0, ["exit"]]]},
    # two threads inside contexts at the same time, adding the same rule to the same operator
    {"T": 2, "ops": ["a"], "init": [[0]], "initfix": [None],
     "sched": [[0, ["enter"]], [1, ["enter"]], [0, ["add", 0, [1]]], [1, ["add", 0, [1]]], [1, ["add", 0, [2]]],
               [0, ["exitexn"]], [1, ["fix", 0, 3]], [0, ["add", 0, [4]]], [1, ["exit"]]]},
    # nesting, exception from the inner block, global addition by another thread in between
    {"T": 2, "ops": ["a", "b"], "init": [[0], []], "initfix": [None, None],
     "sched": [[0, ["enter"]], [0, ["add", 0, [1]]], [0, ["enter"]], [1, ["add", 0, [5]]], [0, ["add", 0, [2]]],
               [0, ["fix", 1, 3]], [0, ["exitexn"]], [0, ["listmut", 0, 7]], [0, ["exit"]], [1, ["enter"]],
               [0, ["add", 1, [6]]], [1, ["exit"]]]},
    # global fix present, duplicates, a real operator class touched only inside contexts
    {"T": 3, "ops": ["@CRX", "b"], "init": [[], [1, 2]], "initfix": [None, 4],
     "sched": [[2, ["enter"]], [2, ["add", 0, [0, 1]]], [1, ["enter"]], [1, ["fix", 0, 2]], [2, ["add", 0, [1]]],
               [0, ["add", 1, [3, 3]]], [0, ["add", 1, [3]]], [1, ["add", 1, [3]]], [2, ["exit"]], [1, ["exitexn"]]]},
]


def g_act(a):
    k = a[0]
    if k == "enter":
        return "AEnter"
    if k == "exit":
        return "AExit"
    if k == "exitexn":
        return "AExitExn"
    if k == "add":
        return f"AAdd {gz(a[1])} {glist(a[2], gz)}"
    if k == "fix":
        return f"AFix {gz(a[1])} {gz(a[2])}"
    if k == "list":
        return f"AList {gz(a[1])}"
    return f"AListMut {gz(a[1])} {gz(a[2])}"


def g_views(v):
    return glist(v, lambda th: glist(th, lambda l: glist(l, gz)))


def g_in(c, o):
    K = len(c["ops"])
    d0 = glist(range(K), lambda k: f"({gz(k)}, {glist(o['d0'][k], gz)})")
    f0 = glist([k for k in range(K) if c["initfix"][k] is not None], lambda k: f"({gz(k)}, {gz(c['initfix'][k])})")
    s = glist(c["sched"], lambda x: f"({gnat(x[0])}, {g_act(x[1])})")
    return f"({gnat(c['T'])}, {glist(range(K), gz)}, {d0}, {f0}, {s})"


def g_out(o):
    rows = glist(o["rows"], lambda r: f"({gbool(r[0])}, {g_views(r[1])})")
    return f"({g_views(o['init_obs'])}, {rows}, {glist(o['final'], lambda l: glist(l, gz))})"


# ---------------------------------------------------------------- direct oracles (the property itself)
def py_add(coll, rs):
    if any(r in coll for r in rs) or len(set(rs)) != len(rs):
        return coll
    return coll + rs


def direct_oracle(c, o):
    """Evaluates the clauses of the property on the observations of the real run; returns a list of
    (step index, clause, detail) for every clause that fails."""
    T, K = c["T"], len(c["ops"])
    fails = []
    gd = [list(x) for x in o["d0"]]
    gf = list(c["initfix"])
    gview = lambda: [[gf[k]] if gf[k] is not None else gd[k] for k in range(K)]
    prev = o["init_obs"]
    for t in range(T):
        if prev[t] != gview():
            fails.append((-1, "new thread sees the global registry", t))
    depth = [0] * T
    saved = [[] for _ in range(T)]        # per thread: view just before each open enter
    for i, ((t, a), (ok, cur)) in enumerate(zip(c["sched"], o["rows"])):
        k = a[0]
        inside = depth[t] > 0
        if k == "enter":
            saved[t].append(prev[t]); depth[t] += 1
            if cur[t] != prev[t]:
                fails.append((i, "view_is_own_history: entry snapshot differs from the enclosing view", t))
        elif k in ("exit", "exitexn"):
            before = saved[t].pop(); depth[t] -= 1
            if depth[t] > 0 and cur[t] != before:
                fails.append((i, "exit_restores: nested exit does not restore the view before the enter", t))
        elif not inside:
            if k == "add":
                gd[a[1]] = py_add(gd[a[1]], a[2])
            elif k == "fix":
                gf[a[1]] = a[2]
        if k in ("list", "listmut") and cur[t] != prev[t]:
            fails.append((i, "list_copy_isolated: listing/mutating the returned copy changed the registry", t))
        if inside or k in ("enter", "exit", "exitexn", "list", "listmut"):
            for u in range(T):
                if u != t and cur[u] != prev[u]:
                    fails.append((i, "other_threads_unaffected: thread %d changed what thread %d sees" % (t, u), u))
        for u in range(T):
            if depth[u] == 0 and cur[u] != gview():
                fails.append((i, "no_leak_global / exit_restores: thread outside every context does not see initial + global additions", u))
        prev = cur
    if o["final"] != gview():
        fails.append((len(c["sched"]), "no_leak_global: registry after all threads ended differs from initial + global additions", -1))
    return fails


def stats(c, h):
    T = c["T"]
    depth = [0] * T
    maxd = 0; conc = False; exn = 0; loc_add = 0; loc_fix = 0; glob_while = 0
    for t, a in c["sched"]:
        k = a[0]
        if k == "enter":
            depth[t] += 1
        elif k in ("exit", "exitexn"):
            depth[t] -= 1
            exn += k == "exitexn"
        elif k == "add":
            if depth[t] > 0:
                loc_add += 1
            elif any(d > 0 for d in depth):
                glob_while += 1
        elif k == "fix" and depth[t] > 0:
            loc_fix += 1
        maxd = max(maxd, max(depth))
        conc |= sum(1 for d in depth if d > 0) >= 2
    h["steps"] += len(c["sched"])
    h["threads_%d" % T] = h.get("threads_%d" % T, 0) + 1
    h["nesting_ge2"] += maxd >= 2
    h["two_threads_in_context_at_once"] += conc
    h["exit_by_exception"] += exn
    h["local_add"] += loc_add
    h["local_fix"] += loc_fix
    h["global_add_while_other_in_context"] += glob_while
    h["open_context_at_end"] += any(d > 0 for d in depth)
    h["real_operator_class"] += any(n.startswith("@") for n in c["ops"])
    return conc and loc_add + loc_fix > 0


def run(ctx):
    ctx.coq_props()
    rng = ctx.rng
    if getattr(ctx, "replay", None) and isinstance(ctx.replay.get("replay"), dict) and "case" in ctx.replay["replay"]:
        cases = [ctx.replay["replay"]["case"]]
    else:
        n = 300 if ctx.tier == "quick" else 1600
        cases = [json.loads(json.dumps(c)) for c in CORPUS]
        while len(cases) < n:
            cases.append(gen_case(rng, big=(ctx.tier != "quick" and rng.random() < 0.3)))
    t0 = time.time()
    obs = ctx.run_impl("c66_impl.py", {"cases": cases})
    t_impl = time.time() - t0
    hist = {"steps": 0, "nesting_ge2": 0, "two_threads_in_context_at_once": 0, "exit_by_exception": 0,
            "local_add": 0, "local_fix": 0, "global_add_while_other_in_context": 0, "open_context_at_end": 0,
            "real_operator_class": 0, "add_raised": 0, "listmut_raised": 0}
    nontrivial = 0
    idx, terms = [], []
    for i, (c, o) in enumerate(zip(cases, obs)):
        key = json.dumps(c, sort_keys=True)
        if "crash" in o:
            ctx.violation("crash:" + key, {"case": c, "observed": o},
                          what="a thread crashed / dead-locked while executing the schedule: " + o["crash"][:200])
            continue
        nontrivial += bool(stats(c, hist))
        for (t, a), (ok, _) in zip(c["sched"], o["rows"]):
            if not ok:
                hist["add_raised" if a[0] == "add" else "listmut_raised"] += 1
        fails = direct_oracle(c, o)
        if fails:
            i0, clause, who = fails[0]
            ctx.violation("direct:" + key, {"case": c, "observed": o, "failed_clauses": fails[:10]},
                          what=f"step {i0}: {clause}")
        idx.append(i)
        terms.append(f"({g_in(c, o)} : case_in, {g_out(o)} : case_out)")
    bad = ctx.coq_eval_cases("cases", "From PLV Require Import Disc.CtxRegistryModel.", terms, "check_case",
                             chunk=40)
    for j in bad:
        c, o = cases[idx[j]], obs[idx[j]]
        ctx.violation("corr:" + json.dumps(c, sort_keys=True),
                      {"case": c, "implementation": o, "model": "coq/Gen/C66 (model trace differs; Eval run_case on the case term)"},
                      found_input=True, what="what the threads list differs from the proved model of the ContextVar registries")
    ctx.coverage.update({
        "evaluations": len(cases), "distinct_nontrivial": nontrivial,
        "rule": "corpus of 4 hand-written schedules, then seeded random schedules: 1-4 threads, 1-3 operators (fresh names; 15% of cases use a real operator class and then add/fix only inside contexts), "
                "3-34 steps (thorough: up to 60), nesting up to 3, actions enter/exit/exit-by-exception/add (1-3 rules, duplicates forced 7%)/fix/list/list+mutate-copy; "
                "non-trivial = two threads inside local contexts at the same time with at least one local add/fix; every step is followed by an observation of every thread",
        "input_distribution": hist, "impl_seconds": round(t_impl, 1),
        "observations": sum(len(o.get("rows", [])) * c["T"] for c, o in zip(cases, obs))})
    for c, o in list(zip(cases, obs))[1:3]:
        ctx.sample({"case": c, "final_global": o.get("final"), "last_row": (o.get("rows") or [None])[-1]})
