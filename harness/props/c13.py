"""C13 Measurement-based decompositions act deterministically."""
from vlib import *

PID = "C13"
META = {
    "level": "proof",
    "engine": "qsym-translator",
    "technique": "Coq reflection proof per outcome branch (exact projector semantics, vm_compute + soundness theorem) of obligations regenerated from /repo by symbolic execution of every measurement-based rule",
    "design_ref": "DESIGN.md §3 C13",
    "text": "Every registered rule (found by scanning the whole catalogue of C10) whose queue contains PauliMeasure / MidMeasure operations is expanded into its 2^k outcome branches: measurement j becomes the exact projector on outcome b_j (plus the reset flip), each classically controlled correction is included iff PennyLane's own MeasurementValue predicate evaluates to true on b. For every branch Coq proves (kernel-checked) that the branch circuit equals U (x) |phi_b> on all checked inputs (auxiliary wires in |0>, documented domain for the uncomputation rules), with the SAME target unitary U = the operator's matrix on every branch and ONE auxiliary state a shared by all branches (phi_b = c_b * a, a = auxiliary ray of the first branch of non-zero weight, only the scalar c_b depends on b), so a work wire handed back in a branch-dependent state (e.g. |+> vs |->) fails the branch obligation; a second obligation proves sum_b |phi_b|^2 = 1.",
    "note": "Trusted: Coq kernel + stdlib real axioms (through Reals/Coquelicot in the soundness theorem); translator (symbolic matrices of the emitted gates, spot-checked numerically; projectors of Pauli words built in the harness from the recorded pauli_word); the set of rules covered is what the catalogue of C10 reaches (listed in the evidence); postselecting rules are not supported (none today).",
    "assumptions": ["projective measurement semantics: outcome b of a Pauli word W applies (I + (-1)^b W)/2"],
    "trusted": ["translator harness/qsym.py, qx.py, qrules.py, impl/c13_impl.py"],
}

HEADER = """From Coq Require Import List ZArith QArith Bool.
From PLV Require Import Alg.Poly Lin.Vec Lin.PVec.
Import ListNotations.
Open Scope Q_scope.
"""


def run(ctx):
    ctx.coq_props()
    out = ctx.run_impl("c13_impl.py", {"tier": ctx.tier, "seed": ctx.seed, "outdir": str(ctx.gen_dir)}, timeout=1800)
    items = out["items"]
    obl = json.loads((ctx.gen_dir / "obligations.json").read_text())
    failed = ctx.coq_obligations("branches", HEADER, [(o["name"], o["stmt"], "vm_compute. reflexivity.") for o in obl], chunk=12)
    by = {o["name"]: o for o in obl}
    for name, detail in failed:
        o = by.get(name)
        if o is None:
            ctx.broken_obligation("coq", name, detail)
            continue
        if o["outcome"] is None:
            ctx.violation(f"prob:{o['label']}:{o['rule']}", {"operator": o["label"], "rule": o["rule"],
                          "weights": next((i.get("weights") for i in items if i["label"] == o["label"] and i["rule"] == o["rule"]), None)},
                          what=f"branch weights of rule {o['rule']} for {o['label']} do not sum to one")
        else:
            it = next((i for i in items if i["label"] == o["label"] and i["rule"] == o["rule"]), {})
            aux_note = ("" if o.get("aux_same", True) else
                        "; the auxiliary-wire state extracted on this branch is NOT the state of the reference branch "
                        "(auxiliary wires must end in one known state, the same on every outcome branch)")
            ctx.violation(f"branch:{o['label']}:{o['rule']}:{''.join(map(str, o['outcome']))}",
                          {"operator": o["label"], "rule": o["rule"], "measurement_outcomes": o["outcome"],
                           "aux_states_per_branch": it.get("aux_states"),
                           "meaning": "on this outcome branch the circuit does not act as c_b * (operator matrix) (x) (ONE auxiliary state a, "
                                      "the same ray on every branch)" + aux_note},
                          what=f"rule {o['rule']} for {o['label']} fails on measurement outcomes {o['outcome']}"
                               + (" (auxiliary wire left in a branch-dependent state)" if aux_note else ""))
    base_p = VERIF / "harness" / "expected_c13.json"
    okset = sorted({(i["label"], i["rule"]) for i in items if i["status"] == "ok"})
    if os.environ.get("VERIF_WRITE_BASELINE") and not failed:
        old = set(tuple(x) for x in json.loads(base_p.read_text())) if base_p.exists() else set()
        base_p.write_text(json.dumps(sorted(old | set(okset)), indent=0))
    if base_p.exists():
        st = {(i["label"], i["rule"]): i for i in items}
        for lab, rule in (tuple(x) for x in json.loads(base_p.read_text())):
            i = st.get((lab, rule))
            if i is not None and i["status"] != "ok":
                ctx.violation(f"tie:{lab}:{rule}", {"operator": lab, "rule": rule, "detail": i["detail"],
                              "no_longer_checks": "branch extraction of this rule"}, found_input=False,
                              what=f"measurement-based rule {rule} for {lab} can no longer be extracted ({i['status']})")
    nb = sum(i.get("branches", 0) for i in items)
    ctx.coverage.update({"evaluations": nb, "distinct_nontrivial": len({(o["label"], o["rule"], tuple(o["outcome"])) for o in obl if o["outcome"]}),
                         "rule": "all outcome branches of every measurement-containing rule reachable from the catalogue; each branch is one kernel-checked obligation",
                         "rules": [(i["label"], i["rule"], i["status"], i.get("branches")) for i in items], "exhaustive": True})
    for i in items[:3]:
        ctx.sample(i)
