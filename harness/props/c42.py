"""C42 Program capture round-trips quantum functions.

FINDING reported by this check on the pinned tree (key exec:adjoint-of-adjoint-of-CollectedSubroutine):
qp.adjoint(qp.adjoint(sub)) of a qp.capture.subroutine, captured and converted with plxpr_to_tape, gives
Adjoint(Adjoint(CollectedSubroutine)); Adjoint.adjoint() returns base.queue() and CollectedSubroutine.queue()
(templates/core.py) returns None, so the decomposition is [None] and default.qubit raises AttributeError, while the
directly built tape executes."""
from vlib import *

PID = "C42"
META = {
    "level": "proof",
    "technique": "Coq proof by mutual structural induction over a structured program language (direct tape semantics vs interpreter rules of plxpr_to_tape on the captured program) + vm_compute correspondence of both op lists against make_qscript and make_jaxpr/plxpr_to_tape + default.qubit differential",
    "design_ref": "DESIGN.md §3 C42",
    "text": "Kernel-checked theorems (Props/C42.v) for ALL programs built from operators, for/while loops with a carried value, cond/elif/else, adjoint and ctrl of sub-functions and (captured) subroutines: interpreting the captured program with the CollectOpsandMeas rules yields exactly the tidy direct tape (subroutine nodes expanded); the real tape-mode qp.ctrl quirk (X flips around an all-true controlled body) has the same denotation in every group-like semantics obeying the control-value law; the adjoint rule reverses and adjoints (nested adjoints restore the order), the ctrl rule wraps every op keeping order, the for_loop rule unrolls like Python range. Tie: every run generates random structured quantum functions (dyadic parameters depending on loop indices, carried values and dynamic arguments), builds them (1) with capture disabled via make_qscript and (2) with capture enabled via jax.make_jaxpr + qp.tape.plxpr_to_tape, and compares BOTH canonical op lists with the model evaluated inside Coq, the measurement lists, and the default.qubit results (1e-9). Second clause: `decompose` (the only transform with a plxpr implementation in this checkout, DecomposeInterpreter / decompose_plxpr_to_plxpr) applied through plxpr vs on the tape: same default.qubit results (1e-9).",
    "note": "Trusted: Coq kernel; JAX tracing itself (the translation `capture` models only the SHAPE of the traced program and is tied through the end-to-end correspondence), classical jaxpr equations are abstracted as expression evaluation; the hand transcription of the interpreter rules is tied by correspondence only. Canonical op form: Adjoint -> OAdj, every controlled class (CNOT, Toffoli, MultiControlledX, CRY, ControlledOp2, Controlled ...) -> one OCtrl node (control wires/values, base), CollectedSubroutine -> OSub; the op-level functions ops.ctrl / ops.adjoint are shared by both paths and modelled structurally (op_ctrl merges nested controls, outer first). Captured tapes are executed after convert_to_numpy_parameters (jax arrays -> numpy, same operators). Not covered: dynamic shapes, autograph, mid-circuit measurements / Conditional ops, eager (lazy=False) adjoint, work wires, allocation, qnode/grad primitives, operators returned from branches, errors raised in code that never runs (tracing visits dead code and unrolls statically empty ranges: zero-step loops are generated only in top-level statements). Transforms other than decompose have NO plxpr implementation in this checkout (a `transform` primitive is not interpreted by plxpr_to_tape: it silently yields an empty tape) and are outside the second clause; for decompose only results are compared (op lists legitimately differ: adjoint_transform / subroutine bodies are decomposed inside the primitive and come back as Adjoint(gate) / CollectedSubroutine). Genuine finding reported under the stable key exec:adjoint-of-adjoint-of-CollectedSubroutine (see module docstring).",
    "assumptions": ["static loop bounds / concrete predicates at interpretation time (values are known when plxpr_to_tape runs)",
                    "semantic equivalence of the tape-mode ctrl X-flip quirk is proved relative to the control-value law den(ctrl_v U) = F den(ctrl U) F stated as a Section hypothesis",
                    "JAX tracing, dynamic shapes and autograph are oracles / out of scope"],
    "trusted": ["hand-written model coq/Disc/CaptureModel.v tied to /repo by correspondence only",
                "jax.make_jaxpr (tracing) as an oracle", "default.qubit as differential executor"],
}

NT = 3                       # target wires 0..2
CTRL_POOLS = [[3, 4], [5, 6]]
ONE_W = [0, 1, 2, 3, 4, 5, 6, 7, 8, 9, 14]
TWO_W = [10, 11, 12, 13, 15]
NPAR = {0: 1, 1: 1, 2: 1, 3: 1, 13: 1, 14: 3, 15: 1}


# ------------------------------------------------------------------ generator
def g_expr(rng, depth, small=False, lo_var=0):
    """integer expression over env variables with index in [lo_var, depth)"""
    r = rng.random()
    if r < 0.3 or depth <= lo_var:
        return ["c", rng.choice([0, 1, 1, 2, 3, -1])]
    if r < 0.65 or small:
        return ["v", rng.randrange(lo_var, depth)]
    if r < 0.8:
        return ["+", g_expr(rng, depth, True, lo_var), g_expr(rng, depth, True, lo_var)]
    if r < 0.88:
        return ["-", g_expr(rng, depth, True, lo_var), g_expr(rng, depth, True, lo_var)]
    if r < 0.94:
        return ["*", ["c", rng.choice([2, 3, -1])], g_expr(rng, depth, True, lo_var)]
    return ["%", g_expr(rng, depth, True, lo_var), rng.choice([2, 3, 5])]


def g_pred(rng, depth, d=0):
    r = rng.random()
    if r < 0.1:
        return ["pc", rng.random() < 0.6]
    if r < 0.45:
        return ["<", g_expr(rng, depth), g_expr(rng, depth)]
    if r < 0.65:
        return ["==", ["%", g_expr(rng, depth), 2], ["c", rng.choice([0, 1])]]
    if d >= 1:
        return ["<", g_expr(rng, depth, True), ["c", rng.choice([1, 2, 3])]]
    if r < 0.77:
        return ["not", g_pred(rng, depth, d + 1)]
    if r < 0.89:
        return ["and", g_pred(rng, depth, d + 1), g_pred(rng, depth, d + 1)]
    return ["or", g_pred(rng, depth, d + 1), g_pred(rng, depth, d + 1)]


def g_param(rng, depth, nx):
    m = rng.choice([0, 0, 1, 1, 2, -1])
    return [m, rng.randrange(nx), g_expr(rng, depth)]


def g_op(rng, depth, nx):
    if rng.random() < 0.65:
        code = rng.choice(ONE_W)
        wires = [["%", g_expr(rng, depth), NT]]
    else:
        code = rng.choice(TWO_W)
        w0 = ["%", g_expr(rng, depth), NT]
        wires = [w0, ["%", ["+", w0, ["c", rng.choice([1, 2])]], NT]]
    return ["op", code, wires, [g_param(rng, depth, nx) for _ in range(NPAR.get(code, 0))]]


def g_block(rng, depth, nest, cl, nx, size):
    return [g_stmt(rng, depth, nest, cl, nx) for _ in range(size)] if False else _g_block(rng, depth, nest, cl, nx, size)


def _g_block(rng, depth, nest, cl, nx, size):
    out = []
    for _ in range(size):
        s = g_stmt(rng, depth, nest, cl, nx)
        out.append(s)
        if s[0] in ("for", "while"):
            depth += 1                      # the loop result is bound afterwards
    return out


def g_stmt(rng, depth, nest, cl, nx):
    """nest = structured nesting depth so far (<= 3), cl = ctrl nesting level (<= 2)"""
    r = rng.random()
    sz = lambda: rng.choice([1, 1, 2, 2, 3]) if nest < 2 else rng.choice([1, 1, 2])
    if nest >= 3 or r < 0.34:
        return g_op(rng, depth, nx)
    if r < 0.46:
        # a zero step only in top-level statements: tracing also visits code that never runs (and a statically
        # empty range is unrolled at trace time), so a zero step in dead code raises only under capture
        step = rng.choice([1, 1, 1, 1, 2, -1, -1, -2]) if (rng.random() > 0.03 or nest > 0) else 0
        span = ["%", g_expr(rng, depth), rng.choice([3, 4]) if nest == 0 else 3]
        lo = ["%", g_expr(rng, depth), 3] if rng.random() < 0.6 else ["c", rng.choice([0, 1, 2])]
        if step > 0 or step == 0:
            lo_e, hi_e = lo, ["+", lo, span]
        else:
            lo_e, hi_e = ["+", lo, span], lo
        if rng.random() < 0.12:
            lo_e, hi_e = hi_e, lo_e            # empty ranges
        init = g_expr(rng, depth, True)
        d2 = depth + 2
        upd = rng.choice([["+", ["v", 1], ["v", 0]], ["+", ["v", 1], ["c", 1]], ["v", 1],
                          ["%", ["+", ["*", ["c", 2], ["v", 1]], ["v", 0]], 7], ["-", ["v", 1], g_expr(rng, d2, True)]])
        return ["for", lo_e, hi_e, ["c", step], init, upd, _g_block(rng, d2, nest + 1, cl, nx, sz())]
    if r < 0.55:
        d2 = depth + 1
        up = rng.random() < 0.7
        c = rng.choice([1, 1, 2])
        bound = ["%", g_expr(rng, d2, False, 1), rng.choice([3, 4])]
        init = ["%", g_expr(rng, depth), 3] if rng.random() < 0.5 else ["c", rng.choice([0, 1])]
        if up:
            core, upd = ["<", ["v", 0], bound], ["+", ["v", 0], ["c", c]]
        else:
            core, upd = ["<", ["-", ["c", 0], bound], ["v", 0]], ["-", ["v", 0], ["c", c]]
        pred = core if rng.random() < 0.7 else ["and", core, g_pred(rng, d2, 1)]
        return ["while", pred, init, upd, _g_block(rng, d2, nest + 1, cl, nx, sz())]
    if r < 0.68:
        nb = rng.choice([1, 1, 2, 3])
        brs = [[g_pred(rng, depth), _g_block(rng, depth, nest + 1, cl, nx, sz())] for _ in range(nb)]
        els = _g_block(rng, depth, nest + 1, cl, nx, sz()) if rng.random() < 0.55 else None
        return ["cond", brs, els]
    nargs = rng.randint(0, min(depth, 3))
    px = rng.random() < 0.4
    if r < 0.79:
        return ["adj", nargs, px, _g_block(rng, depth, nest + 1, cl, nx, sz())]
    if r < 0.91 and cl < len(CTRL_POOLS):
        pool = list(CTRL_POOLS[cl])
        rng.shuffle(pool)
        cw = pool[:rng.choice([1, 1, 2])]
        cv = None if rng.random() < 0.3 else [rng.random() < 0.45 for _ in cw]
        return ["ctrl", cw, cv, nargs, px, _g_block(rng, depth, nest + 1, cl + 1, nx, rng.choice([1, 2, 2, 3]))]
    if r < 0.91:
        return g_op(rng, depth, nx)
    return ["call", 1 if rng.random() < 0.6 else 0, rng.randrange(1, 40), nargs, px,
            _g_block(rng, depth, nest + 1, cl, nx, sz())]


def g_case(rng):
    nx = 2
    prog = _g_block(rng, 2, 0, 0, nx, rng.choice([2, 3, 3, 4]))
    meas = [["expval", rng.choice("XYZ"), rng.randrange(NT)]]
    if rng.random() < 0.7:
        w = list(range(NT))
        rng.shuffle(w)
        meas.append(["probs", w[:rng.choice([1, 2])]])
    return {"prog": prog, "meas": meas, "xs": [rng.randint(-12, 12) for _ in range(nx)],
            "ns": [rng.randint(0, 3), rng.randint(-1, 4)]}


CORPUS = [
    # adjoint of a two-op function (order), nested adjoint, ctrl with zero control values on one / many ops
    {"xs": [4, -3], "ns": [2, 1], "meas": [["expval", "Z", 0], ["probs", [1, 2]]], "prog": [
        ["adj", 1, True, [["op", 1, [["c", 0]], [[1, 0, ["v", 0]]]], ["op", 10, [["c", 0], ["c", 1]], []]]],
        ["adj", 0, False, [["adj", 0, False, [["op", 8, [["c", 0]], []], ["op", 9, [["c", 1]], []], ["op", 7, [["c", 2]], []]]]]],
        ["ctrl", [3, 4], [False, True], 0, False, [["op", 8, [["c", 0]], []], ["op", 10, [["c", 0], ["c", 1]], []]]],
        ["ctrl", [3], [False], 2, False, [["op", 8, [["c", 0]], []]]],
        ["ctrl", [3], None, 2, True, [["op", 4, [["c", 0]], []], ["ctrl", [5], [False], 0, False,
                                      [["op", 0, [["c", 1]], [[1, 1, ["c", 0]]]], ["op", 7, [["c", 2]], []]]]]]]},
    # for loop with carried value, cond with several true predicates (first must win), while loop
    {"xs": [5, 2], "ns": [2, 3], "meas": [["expval", "X", 1]], "prog": [
        ["for", ["c", 0], ["c", 3], ["c", 1], ["c", 1], ["+", ["v", 0], ["v", 1]], [
            ["op", 1, [["%", ["+", ["v", 0], ["v", 2]], 3]], [[2, 1, ["v", 1]]]],
            ["cond", [[["<", ["v", 0], ["v", 2]], [["op", 4, [["c", 0]], []], ["op", 8, [["c", 1]], []]]],
                      [["pc", True], [["op", 5, [["c", 0]], []]]], [["pc", True], [["op", 6, [["c", 0]], []]]]],
             [["op", 7, [["c", 0]], []]]]]],
        ["op", 2, [["c", 0]], [[0, 0, ["v", 0]]]],
        ["while", ["<", ["v", 0], ["v", 2]], ["c", 0], ["+", ["v", 0], ["c", 1]], [["op", 9, [["%", ["v", 0], 3]], []]]],
        ["for", ["c", 2], ["c", -1], ["c", -1], ["c", 0], ["v", 1], [["op", 0, [["v", 0]], [[0, 0, ["v", 0]]]]]]]},
    # captured subroutines plain / under adjoint / under ctrl / inside a loop; plain python call
    {"xs": [3, 7], "ns": [1, 2], "meas": [["expval", "Y", 0], ["probs", [2]]], "prog": [
        ["call", 1, 7, 1, False, [["op", 13, [["c", 0], ["c", 1]], [[1, 0, ["v", 0]]]], ["op", 7, [["c", 2]], []]]],
        ["adj", 0, False, [["call", 1, 3, 0, False, [["op", 9, [["c", 0]], []],
                                                      ["op", 14, [["c", 1]], [[0, 0, ["c", 1]], [0, 0, ["c", 2]], [1, 0, ["c", 0]]]]]]]],
        ["ctrl", [4], [False], 0, False, [["call", 1, 5, 0, True, [["op", 0, [["c", 0]], [[1, 0, ["c", 0]]]], ["op", 10, [["c", 1], ["c", 2]], []]]]]],
        ["for", ["c", 0], ["c", 2], ["c", 1], ["c", 0], ["v", 1], [["call", 1, 9, 1, False, [["op", 1, [["v", 0]], [[0, 0, ["v", 0]]]]]]]],
        ["call", 0, 0, 1, True, [["op", 15, [["c", 0], ["c", 1]], [[1, 0, ["v", 0]]]]]]]},
    # FINDING: adjoint(adjoint(captured subroutine)) -> Adjoint(Adjoint(CollectedSubroutine)) does not execute
    {"xs": [4, 0], "ns": [0, 0], "meas": [["expval", "Z", 0]], "prog": [
        ["op", 7, [["c", 0]], []],
        ["adj", 0, False, [["adj", 0, False, [["call", 1, 2, 0, False, [["op", 2, [["c", 0]], [[1, 0, ["c", 0]]]]]]]]]]]},
    # step 0 (both must raise), cond without else and no true predicate, empty range
    {"xs": [1, 1], "ns": [0, 0], "meas": [["expval", "Z", 0]], "prog": [
        ["op", 7, [["c", 0]], []],
        ["cond", [[["pc", False], [["op", 4, [["c", 0]], []]]]], None],
        ["for", ["c", 2], ["c", 2], ["c", 1], ["c", 0], ["v", 1], [["op", 4, [["c", 1]], []]]],
        ["for", ["c", 0], ["c", 2], ["c", 0], ["c", 0], ["v", 1], [["op", 4, [["c", 1]], []]]]]},
]


# ------------------------------------------------------------------ Gallina printers
def p_expr(e):
    k = e[0]
    if k == "c":
        return f"(EConst {gz(e[1])})"
    if k == "v":
        return f"(EVar {gnat(e[1])})"
    if k == "%":
        return f"(EMod {p_expr(e[1])} {gz(e[2])})"
    return f"({ {'+': 'EAdd', '-': 'ESub', '*': 'EMul'}[k]} {p_expr(e[1])} {p_expr(e[2])})"


def p_pred(p):
    k = p[0]
    if k == "pc":
        return f"(PConst {gbool(p[1])})"
    if k == "<":
        return f"(PLt {p_expr(p[1])} {p_expr(p[2])})"
    if k == "==":
        return f"(PEq {p_expr(p[1])} {p_expr(p[2])})"
    if k == "not":
        return f"(PNot {p_pred(p[1])})"
    return f"({'PAnd' if k == 'and' else 'POr'} {p_pred(p[1])} {p_pred(p[2])})"


def p_block(b):
    out = "QNil"
    for s in reversed(b):
        out = f"(QCons {p_stmt(s)} {out})"
    return out


def p_stmt(s):
    k = s[0]
    if k == "op":
        pars = glist(s[3], lambda p: f"({gz(p[0])}, {gnat(p[1])}, {p_expr(p[2])})")
        return f"(POp {gz(s[1])} {glist(s[2], p_expr)} {pars})"
    if k == "for":
        return "(PFor " + " ".join(p_expr(e) for e in s[1:6]) + " " + p_block(s[6]) + ")"
    if k == "while":
        return f"(PWhile {p_pred(s[1])} {p_expr(s[2])} {p_expr(s[3])} {p_block(s[4])})"
    if k == "cond":
        brs = "QBNil"
        for p, b in reversed(s[1]):
            brs = f"(QBCons {p_pred(p)} {p_block(b)} {brs})"
        return f"(PCond {brs} {gbool(s[2] is not None)} {p_block(s[2] or [])})"
    if k == "adj":
        return f"(PAdj {p_block(s[-1])})"
    if k == "ctrl":
        return f"(PCtrl {glist(s[1], gz)} {gopt(s[2], lambda v: glist(v, gbool))} {p_block(s[-1])})"
    return f"(PCall {gbool(s[1] == 1)} {gz(s[2])} {p_block(s[-1])})"


def p_op(o):
    k = o[0]
    if k == "G":
        return f"(Gate {gz(o[1])} {glist(o[2], gz)} {glist(o[3], gz)})"
    if k == "A":
        return f"(OAdj {p_op(o[1])})"
    if k == "C":
        return f"(OCtrl {glist(o[1], gz)} {glist(o[2], gbool)} {p_op(o[3])})"
    if k == "S":
        return f"(OSub {gz(o[1])} {glist(o[2], p_op)})"
    return "(Gate (-1)%Z [] [])"          # an operator outside the canonical vocabulary: can never match


def p_out(d):
    return f"({gz(min(d['st'], 1))}, {glist(d['ops'], p_op)})"


def p_case(c, o):
    return (f"(({p_block(c['prog'])}, {glist(c['xs'], gz)}, {glist(c['ns'], gz)}, 12%nat), "
            f"({p_out(o['d'])}, {p_out(o['c'])}))")


# ------------------------------------------------------------------ statistics
def stats(b, acc, nest=0):
    for s in b:
        k = s[0]
        acc[k] = acc.get(k, 0) + 1
        if k != "op":
            acc["maxnest"] = max(acc.get("maxnest", 0), nest + 1)
        if k == "cond":
            for _, bb in s[1]:
                stats(bb, acc, nest + 1)
            if s[2] is not None:
                acc["else"] = acc.get("else", 0) + 1
                stats(s[2], acc, nest + 1)
            if len(s[1]) > 1:
                acc["elif"] = acc.get("elif", 0) + 1
        elif k == "ctrl":
            if s[2] is not None and not all(s[2]):
                acc["ctrl_zero_values"] = acc.get("ctrl_zero_values", 0) + 1
            stats(s[-1], acc, nest + 1)
        elif k == "call":
            acc["captured_sub" if s[1] == 1 else "plain_call"] = acc.get("captured_sub" if s[1] == 1 else "plain_call", 0) + 1
            stats(s[-1], acc, nest + 1)
        elif k != "op":
            stats(s[-1], acc, nest + 1)
    return acc


def expected_meas(c):
    out = []
    for m in c["meas"]:
        if m[0] == "expval":
            out.append(["ExpectationMP", {"X": "PauliX", "Y": "PauliY", "Z": "PauliZ"}[m[1]], [m[2]]])
        else:
            out.append(["ProbabilityMP", "", list(m[1])])
    return out


def run(ctx):
    t0 = time.time()
    ctx.coq_props()
    t1 = time.time()
    rng = ctx.rng
    n = 48 if ctx.tier == "quick" else 600
    ntr = 6 if ctx.tier == "quick" else 80
    if getattr(ctx, "replay", None) and isinstance(ctx.replay.get("replay"), dict) and "case" in ctx.replay["replay"]:
        cases = [ctx.replay["replay"]["case"]]
    else:
        cases = [json.loads(json.dumps(c)) for c in CORPUS]
        while len(cases) < n:
            cases.append(g_case(rng))
        for c in cases[:ntr]:
            c["tr"] = True
    # the driver pays a long jax + pennylane import: run batches in parallel processes
    from concurrent.futures import ThreadPoolExecutor
    nb = 6 if ctx.tier == "quick" else 8
    idx = [list(range(k, len(cases), nb)) for k in range(nb)]
    idx = [ix for ix in idx if ix]
    with ThreadPoolExecutor(max_workers=nb) as ex:
        parts = list(ex.map(lambda ix: ctx.run_impl("c42_impl.py", {"cases": [cases[i] for i in ix]}, timeout=3000), idx))
    obs = [None] * len(cases)
    for ix, part in zip(idx, parts):
        for i, o in zip(ix, part):
            obs[i] = o
    t2 = time.time()
    terms = [p_case(c, o) for c, o in zip(cases, obs)]
    bad = ctx.coq_eval_cases("cases", "From PLV Require Import Disc.ControlFlowModel Disc.CaptureModel.", terms,
                             "check_case", chunk=12 if ctx.tier == "quick" else 60)
    ctx.notes.append(f"phases: coq_props {t1 - t0:.1f}s, implementation {t2 - t1:.1f}s (driver import of jax+pennylane dominates), model evaluation {time.time() - t2:.1f}s")
    hist = {"programs": len(cases), "errors_both": 0, "results_compared": 0, "ops_direct_total": 0,
            "direct_ne_capture_oplists": 0, "with_flip_quirk": 0, "with_subroutine_node": 0,
            "transform_cases": 0, "transform_compared": 0, "transform_same_ops": 0, "transform_skipped": 0}
    acc = {}
    nontrivial = set()
    for i, (c, o) in enumerate(zip(cases, obs)):
        key = json.dumps({k: c[k] for k in ("prog", "xs", "ns", "meas")}, sort_keys=True)
        stats(c["prog"], acc)
        d, cp = o["d"], o["c"]
        rep = {"case": c, "direct": d, "captured": cp, "maxdiff": o.get("maxdiff")}
        # ---- direct oracles on the implementation's own output
        if d["st"] == 3 or cp["st"] == 3:
            ctx.violation("inexact:" + key, rep, what="a dyadic parameter came back inexact: " + str(d.get("err") or cp.get("err")))
            continue
        if (d["st"] == 0) != (cp["st"] == 0):
            ctx.violation("status:" + key, rep, what="direct taping and capture+plxpr_to_tape disagree on success/failure: "
                          + str(d.get("err") or cp.get("err")))
            continue
        if d["st"] != 0:
            hist["errors_both"] += 1
            continue
        hist["ops_direct_total"] += len(d["ops"])
        if d["ops"] != cp["ops"]:
            hist["direct_ne_capture_oplists"] += 1
        if any(x[0] == "S" or (x[0] in "AC" and "\"S\"" in json.dumps(x)) for x in cp["ops"]):
            hist["with_subroutine_node"] += 1
        if json.dumps(d["ops"]).count('"G", 4, [3]') + json.dumps(d["ops"]).count('"G", 4, [4]') \
                + json.dumps(d["ops"]).count('"G", 4, [5]') + json.dumps(d["ops"]).count('"G", 4, [6]') > 0:
            hist["with_flip_quirk"] += 1                    # an X on a control wire can only come from the quirk
        if d["meas"] != expected_meas(c) or cp["meas"] != expected_meas(c):
            ctx.violation("meas:" + key, rep, what="measurements of the direct / captured tape differ from the program's")
        if "exec_err" in o:
            if '["A", ["A", ["S"' in json.dumps(cp["ops"]) and "NoneType" in o["exec_err"]:
                # one stable key for this failure mode (see FINDING in the module docstring)
                ctx.violation("exec:adjoint-of-adjoint-of-CollectedSubroutine", rep | {"exec_err": o["exec_err"]},
                              what="the tape returned by plxpr_to_tape for adjoint(adjoint(captured subroutine)) cannot be "
                                   "executed on default.qubit (Adjoint(Adjoint(CollectedSubroutine)).decomposition() == [None]); "
                                   "the directly built tape executes")
            else:
                ctx.violation("exec:" + key, rep | {"exec_err": o["exec_err"]}, what="executing the two tapes on default.qubit failed")
        elif o.get("maxdiff", 1e9) > 1e-9:
            ctx.violation("results:" + key, rep | {"res_d": o.get("res_d"), "res_c": o.get("res_c")},
                          what="capture -> plxpr_to_tape gives different default.qubit results than direct taping")
        else:
            hist["results_compared"] += 1
        if len(d["ops"]) > 2 and acc.get("maxnest", 0) >= 1:
            nontrivial.add(key)
        # ---- second clause: decompose through plxpr vs on the tape
        if c.get("tr"):
            hist["transform_cases"] += 1
            tr = o.get("tr")
            if not tr or not (tr.get("tape_ok") and tr.get("plxpr_ok")) or "exec_err" in tr:
                if tr and tr.get("tape_ok") and not tr.get("plxpr_ok"):
                    ctx.violation("trfail:" + key, rep | {"tr": tr}, what="decompose works on the tape but its plxpr implementation fails")
                else:
                    hist["transform_skipped"] += 1
            else:
                hist["transform_compared"] += 1
                hist["transform_same_ops"] += bool(tr.get("same_ops"))
                if tr["maxdiff"] > 1e-9 or tr["maxdiff_orig"] > 1e-9:
                    ctx.violation("transform:" + key, rep | {"tr": tr},
                                  what="decompose via plxpr and decompose on the tape give different default.qubit results")
    for i in bad:
        c, o = cases[i], obs[i]
        key = json.dumps({k: c[k] for k in ("prog", "xs", "ns", "meas")}, sort_keys=True)
        ctx.violation("corr:" + key, {"case": c, "direct": o["d"], "captured": o["c"]},
                      what="op list of the direct tape or of plxpr_to_tape(make_jaxpr(f)) differs from the proved model")
    hist["constructs"] = acc
    ctx.coverage.update({"evaluations": len(cases), "distinct_nontrivial": len(nontrivial),
                         "rule": "hand-picked corpus (adjoint order, nested adjoint, zero control values on 1/many ops, nested ctrl, first-true cond, carried for value, while, negative/empty/zero step, captured subroutines under adjoint/ctrl/loop) then seeded random structured functions: nesting <= 3, ctrl nesting <= 2, 2 dynamic float + 2 dynamic int arguments, wires and dyadic parameters depending on loop indices/carried values; non-trivial = executed program with > 2 ops and a structured construct",
                         "input_distribution": hist})
    for c, o in list(zip(cases, obs))[4:7]:
        ctx.sample({"prog": c["prog"], "xs": c["xs"], "ns": c["ns"], "direct_ops": o["d"]["ops"][:12],
                    "captured_ops": o["c"]["ops"][:12], "maxdiff": o.get("maxdiff")})
