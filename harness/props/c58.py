"""C58 Block-encoding, oracle and algorithm templates implement their operators."""
from vlib import *

PID = "C58"
META = {
    "level": "proof",
    "engine": "qsym-translator",
    "technique": "Coq theorems about Gallina transcriptions of the classical templates' control logic (tie K: vm_compute correspondence), "
                 "kernel-checked reflection obligations over exact Laurent-polynomial matrices regenerated from /repo by symbolic execution "
                 "of the templates' decompositions on formal parameters (tie X), and numeric differential validation of every template "
                 "against reference matrices constructed directly from the documented formulas",
    "design_ref": "DESIGN.md §3 C58",
    "text": "Per template (A = static forall-theorem on a model tied by correspondence, B = generated exact obligations universal in the formal "
            "parameters, C = numeric comparison at 1e-8 of qp.matrix(op), op.decomposition() and every registered measurement-free rule with a "
            "numpy reference built from the documented formula, random operators/data/angles/wire labels): "
            "Permute A+B+C (the emitted SWAP network realises the requested permutation for ALL wire lists and permutations); "
            "Select A+B+C (A: non-partial multi-control rule applies exactly ops[k] for big-endian control value k; C also partial and unary-iterator rules); "
            "QROM A+B+C (A: table layout over Select rows x swap slots and the controlled-swap network move data[k] into the target, for ALL tables/depths; "
            "C on the documented domain target=|0>, clean and non-clean, extra control wires); FlipSign A+B+C; ControlledSequence A+B+C (power 2^(n-1-i), B with formal RX angle); "
            "Reflection B+C (B: = U D(alpha) U^dagger for formal alpha, incl. reflection on a sub-register); GroverOperator B (n<=4) + C; "
            "QFT B (n<=3, DFT over Q(zeta_8)) + C (n<=6); AQFT B (n<=3) + C incl. distance-to-QFT bound; TrotterProduct / ApproxTimeEvolution / CommutingEvolution B "
            "(equal to the documented product formula built independently, for ALL times t, rational coefficients) + C (random coefficients, orders 1,2,4; commutator error bounds for orders 1,2); "
            "PrepSelPrep / Qubitization B (2-term Pythagorean sums: block <0|W|0> = H/lambda exactly) + C (block, unitarity, Q = PSP.(2|0><0|-I), walk spectrum e^{+-i arccos(E/lambda)}); "
            "AmplitudeAmplification C (matrix = (R.O)^k, sin((2k+1)theta) law, fixed-point circuit with independently computed Yoder-Low-Chuang angles and the closed-form success probability); "
            "QuantumPhaseEstimation C (full matrix; exact phases k/2^n measured with certainty); QuantumMonteCarlo C (output state vs reference from the documented A, R, Q definitions; "
            "estimation distribution = QPE distribution of +-theta with mu=(1+cos(pi theta))/2); QSVT C (alternating-phase product for arbitrary phases; Hermitian part of the block = poly(A) for qp.qsvt with embedding/fable/prepselprep/qubitization); "
            "GQSP C (paper's R-gate product for arbitrary angles; block = poly(U) for poly_to_angles angles); BlockEncode C (documented block matrix, normalisation, adjoint); "
            "FABLE C (tol=0: exact block A/2^n; tol>0: ||A - A~||_2 <= N^3 tol).",
    "note": "Trusted: Coq kernel (+ stdlib real axioms for the two reflection-soundness theorems only); the translator (harness/qsym.py, qx.py: PennyLane code run on exact ring elements, "
            "every extracted gate spot-checked numerically); numpy/scipy for the numeric references. A-models cover the non-partial multi-control Select rule, the QROM layout/swap network "
            "(not the Hadamard/clean wrapper, not the measurement-based QROM rule, which is skipped), Permute's legacy and registered rule. Partial Select, unary-iterator Select, work-wire rules, QPE/QMC/AA/QSVT/GQSP/BlockEncode/FABLE "
            "are validated numerically only (C). QFT as DFT for general n is not proved (sizes <= 3 exact, <= 6 numeric). Trotter error bounds: the docstring documents no numeric bound; the standard commutator bounds are checked. "
            "The FABLE tolerance bound is the one of arXiv:2205.00081, not stated in the docstring. ApproxTimeEvolution/CommutingEvolution drop identity terms of the Hamiltonian (global phase): identity terms are not generated. "
            "QROM indices m <= i < 2^c and target != |0> are outside the documented domain and not compared. "
            "qp.qsvt(A, poly, block_encoding='embedding') inherits BlockEncode's normalisation by max(||A A^dag||_inf, ||A^dag A||_inf) even when ||A||_2 <= 1 "
            "(then the block is poly(A/norm)); the reference follows this documented normalisation and counts such cases. Failures of the classical angle solver qp.poly_to_angles are counted, not judged "
            "(observed: root-finding solver raises ValueError for [0, 1.6423187969819757, 0, -0.9200583939709709]).",
    "assumptions": ["sizes: numeric <= 9 wires; exact obligations <= 4 wires; exact obligations use rational Hamiltonian coefficients and multiples of pi/4 for fixed angles"],
    "trusted": ["translator harness/qsym.py, harness/qx.py, harness/qrules.py", "numpy/scipy reference constructions in harness/impl/c58_impl.py"],
}

HEADER = """From Coq Require Import List ZArith QArith Bool.
From PLV Require Import Alg.Poly Lin.Vec Lin.PVec.
Import ListNotations.
Open Scope Q_scope.
"""


def gb(b):
    return "true" if b else "false"


def gbits(bs):
    return glist(bs, gb)


def gnatl(xs):
    return glist(xs, gnat)


def gopt_bits(x):
    return "None" if x is None else f"(Some {gbits(x)})"


def trace_term(t):
    k = t["kind"]
    if k == "permute":
        sw = glist(t["swaps"], lambda p: f"({gz(p[0])}, {gz(p[1])})")
        return f"TPermute {glist(t['wires'], gz)} {glist(t['perm'], gz)} {sw} {gb(t['realises'])}"
    if k == "select":
        return f"TSelect {gnat(t['c'])} {gnat(t['K'])} {glist(t['states'], gbits)}"
    if k == "ctrlseq":
        return f"TCtrlSeq {gnat(t['n'])} {glist(t['exps'], gz)}"
    if k == "flipsign":
        return f"TFlipSign {gbits(t['state'])} {gbits(t['signs'])}"
    raise KeyError(k)


def qrom_terms(t):
    out = [f"TQromRows {gnat(t['c'])} {gnat(t['depth'])} {glist(t['data'], gbits)} {glist(t['rows'], lambda r: glist(r, gopt_bits))}",
           f"TSwapNet {gnat(t['s'])} {glist(t['triples'], lambda p: f'({gnat(p[0])}, {gnat(p[1])}, {gnat(p[2])})')}"]
    if t["loaded"] is not None:
        # the model says None (identity) beyond the table; the implementation then leaves the target in |0..0>
        m = len(t["data"])
        loaded = [x if i < m else (None if x is not None and not any(x) else x) for i, x in enumerate(t["loaded"])]
        out.append(f"TQromLoad {gnat(t['c'])} {gnat(t['s'])} {glist(t['data'], gbits)} {glist(loaded, gopt_bits)}")
    return out


def run(ctx):
    ph = {}
    t0 = time.time()
    ctx.coq_props()
    ph["coq_props"] = round(time.time() - t0, 1); t0 = time.time()
    out = ctx.run_impl("c58_impl.py", {"tier": ctx.tier, "seed": ctx.seed, "outdir": str(ctx.gen_dir), "parts": "ABC"}, timeout=3000)
    ph["impl"] = round(time.time() - t0, 1); t0 = time.time()
    # ------------------------------------------------------------------ C: numeric differential results
    results = out["results"]
    per, perbad = {}, {}
    for r in results:
        per[r["template"]] = per.get(r["template"], 0) + 1
        if r["ok"]:
            continue
        perbad[r["template"]] = perbad.get(r["template"], 0) + 1
        for route, e in r["bad"].items():
            if isinstance(e, dict):       # the route raised: one stable key per (template, route)
                ctx.violation(f"route-error:{r['template']}:{route}", {"template": r["template"], "route": route, "case": r["desc"], "error": e},
                              what=f"{r['template']}: {route} raises on a valid input ({e.get('error', '')[:80]})")
            else:
                key = f"numeric:{r['template']}:{route}:" + hashlib.sha1(json.dumps(r["desc"], sort_keys=True, default=str).encode()).hexdigest()[:12]
                ctx.violation(key, {"template": r["template"], "route": route, "case": r["desc"], "deviation": e, "tolerance": r["tol"], "all_routes": r["routes"]},
                              what=f"{r['template']}: {route} deviates from the documented operator by {e:.3g} (tolerance {r['tol']:.1g})")
    # ------------------------------------------------------------------ A: correspondence of the discrete models
    traces = out["traces"]
    for te in out.get("trace_errors", []):
        ctx.violation(f"route-error:{te['template']}:{te['route']}", {"template": te["template"], "route": te["route"], "case": te["case"], "error": te["error"]},
                      what=f"{te['template']}: {te['route']} raises on a valid input ({te['error'][:80]})")
    terms, owners = [], []
    for t in traces:
        if t["kind"] == "qrom":
            for s in qrom_terms(t):
                terms.append(s); owners.append(t)
        else:
            terms.append(trace_term(t)); owners.append(t)
    bad = ctx.coq_eval_cases("cases", "From PLV Require Import Disc.TemplatesModel.", terms, "check_case", chunk=120)
    ph["coq_cases"] = round(time.time() - t0, 1); t0 = time.time()
    def direct_fail(t):
        """the property's own statement evaluated on the trace (no model); None = fine, else description"""
        if t["kind"] == "permute" and not t["realises"]:
            return "Permute: emitted SWAPs do not realise the permutation"
        if t["kind"] == "select":
            want = [[bool((k >> (t["c"] - 1 - j)) & 1) for j in range(t["c"])] for k in range(t["K"])]
            if t["states"] != want or t["op_index"] != list(range(t["K"])):
                return "Select: control values of the emitted branches are not the big-endian encodings of the operator indices"
        if t["kind"] == "ctrlseq" and (t["exps"] != [2 ** (t["n"] - 1 - i) for i in range(t["n"])] or not t["control_order_ok"]):
            return "ControlledSequence: power on control i is not 2^(n-1-i)"
        if t["kind"] == "flipsign":
            s = int("".join("1" if b else "0" for b in t["state"]), 2)
            if not t["diag_ok"] or t["signs"] != [k == s for k in range(2 ** len(t["state"]))]:
                return "FlipSign: sign pattern is not -1 exactly on the marked state"
        if t["kind"] == "qrom" and t["loaded"] is not None:
            m = len(t["data"])
            if any(t["loaded"][k] != t["data"][k] for k in range(m)) or not t["sel_ctrl_is_prefix"]:
                return "QROM: loaded bitstring differs from data[k]"
        return None
    for i in bad:
        t = owners[i]
        df = direct_fail(t)
        # a structural difference that still realises the documented operator is reported as a broken tie without failing input
        ctx.violation("corr:" + json.dumps({k: v for k, v in t.items() if k not in ("loaded",)}, sort_keys=True)[:400], {"trace": t, "gallina": terms[i][:2000], "direct_oracle": df},
                      found_input=df is not None,
                      what=f"{t['kind']} ({t['route']}): the implementation's emitted control structure differs from the verified model" + (f"; {df}" if df else " (the emitted circuit still passes the direct oracle)"))
    # direct oracles on the traces (the property's own statement, no model)
    for t in traces:
        df = direct_fail(t)
        if df:
            ctx.violation(f"{t['kind']}-direct:" + json.dumps({k: v for k, v in t.items() if k in ("wires", "perm", "route", "c", "K", "n", "state", "b", "depth", "data")}, sort_keys=True)[:300],
                          {"trace": t}, what=df)
    # ------------------------------------------------------------------ B: generated exact obligations
    obl = json.loads((ctx.gen_dir / "obligations.json").read_text())
    lem = [(o["name"], o["stmt"], "vm_compute. reflexivity.") for o in obl]
    failed = ctx.coq_obligations("templates", HEADER, lem, chunk=10, timeout=1500, par=16)
    ph["coq_obligations"] = round(time.time() - t0, 1)
    by_name = {o["name"]: o for o in obl}
    for name, detail in failed:
        o = by_name.get(name.replace("_file", ""))
        if o is None:
            ctx.broken_obligation("coq", name, detail)
            continue
        # a concrete failing input: any numeric failure of the same template found above
        tpl = o["label"].split("[")[0]
        wit = [r for r in results if not r["ok"] and r["template"].startswith(tpl[:6])][:1]
        key = f"obligation:{o['label']}:{o['route']}"
        if wit:
            ctx.violation(key, {"obligation": name, "label": o["label"], "route": o["route"], "witness": wit[0]},
                          what=f"exact obligation for {o['label']} via {o['route']} fails; numeric witness attached")
        else:
            ctx.violation(key, {"obligation": name, "label": o["label"], "route": o["route"], "no_longer_checks": f"generated lemma {name} ({o['kind']} ... = true)", "coq": detail[-600:]},
                          found_input=True, what=f"template {o['label']} via {o['route']}: decomposed circuit is not the documented operator (exact, formal parameters)")
    b_items = out["b_items"]
    hist = {}
    for it in b_items:
        hist[it["status"]] = hist.get(it["status"], 0) + 1
    for it in b_items:
        if it["status"] == "error":
            ctx.violation(f"extract-error:{it['label']}", {"item": it, "no_longer_checks": "symbolic extraction of this template instance"}, found_input=False,
                          what=f"template instance {it['label']} can no longer be executed on formal parameters ({it.get('detail', '')[:80]})")
    kinds = {}
    for t in traces:
        kinds[t["kind"]] = kinds.get(t["kind"], 0) + 1
    ctx.coverage.update({
        "evaluations": len(results) + len(terms) + len(obl),
        "distinct_nontrivial": sum(1 for r in results if len(r["routes"]) >= 2) + len([t for t in traces if t["kind"] != "permute" or t["swaps"]]),
        "rule": "numeric: every template x {qp.matrix, decomposition(), each registered measurement-free rule} vs numpy reference; traces: emitted control structure vs Coq model; "
                "obligations: decomposed circuit with formal parameters vs documented matrix / independent reference circuit",
        "numeric_cases_per_template": per, "numeric_failures_per_template": perbad,
        "routes_seen": sorted({k for r in results for k in r["routes"]}),
        "trace_cases": kinds, "generated_obligations": len(obl), "failed_obligations": len(failed), "extraction_status": hist,
        "obligation_labels": sorted({o["label"].split("[")[0] for o in obl}),
        "angle_solver_failures_counted_not_judged": out.get("solver_fails", [])[:5],
        "impl_wall_s": out["wall"], "phase_wall_s": ph,
        "input_distribution": {"wires": "random labels (ints/strings) or range(n), 1-9 wires", "angles": "uniform in [-3.1, 3.1] and special values",
                               "hamiltonians": "2-4 distinct random Pauli words, coefficients uniform +-[0.1,1] (numeric) / small rationals (exact)",
                               "tables": "random bitstrings 1-3 bits, 1-8 entries"},
    })
    for r in results[:2]:
        ctx.sample({"template": r["template"], "case": r["desc"], "routes": r["routes"]})
    for o in obl[:2]:
        ctx.sample({"obligation": o["label"], "route": o["route"], "kind": o["kind"], "wires": o["n"], "gates": o["n_gates"], "formal_parameters": o["nvars"]})
