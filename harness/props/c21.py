"""C21 Mid-circuit measurement methods agree with the exact semantics."""
from vlib import *
import exactsim, itertools, math
import numpy as np

PID = "C21"
META = {
    "level": "proof",
    "engine": "qsym-translator",
    "technique": "exact differential against a branch-enumerating reference evaluated inside Coq (one exact circuit per outcome history over Q(zeta_8), kernel-checked obligation that the branch weights sum to one) for the analytic methods deferred and tree-traversal; statistical consistency of one-shot sampling",
    "design_ref": "DESIGN.md §3 C21, §5 item 7",
    "text": "Random dynamic circuits (up to 3 mid-circuit measurements quick / 5 thorough, reset, postselection, classically controlled gates on measurement-value arithmetic m, ~m, m&m', m|m', m+m'==1, 2m+m'>=2, and reflected arithmetic with the constant on the left: c-m, c+m, c*m, c-(m+m') in predicates and in expval statistics; statistics of terminal observables and of measurement values) are executed with mcm_method='deferred' and 'tree-traversal' in analytic mode. The reference enumerates every outcome history, builds the branch circuit independently from the circuit SPECIFICATION (projectors, reset flips, predicates evaluated by the harness, not by PennyLane) and Coq simulates each branch exactly (branch_state_is_linear_evolution); Coq also proves per circuit that the branch weights total one. Postselection conditions the whole history. Every returned expectation value / probability vector must equal the branch average (1e-9). One-shot sampling is compared within 6 standard errors.",
    "note": "Trusted: Coq kernel + stdlib real axioms; translator for gate matrices; the reference post-processing (branch averages) is numpy arithmetic on the exact branch states; zero-probability postselections are excluded (undefined); the transforms themselves (defer_measurements, tree traversal) are not modelled in Gallina: this property is decided by exact differential. Known finding kept: tree-traversal ignores a later postselection when reporting statistics of an earlier measurement.",
    "assumptions": ["postselection conditions the statistics of all measurements of the history (what deferred and one-shot do)"],
    "trusted": ["harness/exactsim.py", "branch construction in harness/impl/c21_impl.py"],
}
PAULI = {"X": np.array([[0, 1], [1, 0]], dtype=complex), "Y": np.array([[0, -1j], [1j, 0]]), "Z": np.array([[1, 0], [0, -1]], dtype=complex)}
HEADER = """From Coq Require Import List ZArith QArith Bool.
From PLV Require Import Alg.Poly Lin.Vec Lin.PVec.
Import ListNotations.
Open Scope Q_scope.
"""


def expr_value(e, b):
    """Value of a measurement-value arithmetic expression ([op, lhs, rhs]; leaves "m<i>" or an integer constant, which may
    stand on the LEFT: c - m, c + m, c * m, c - (m + m')) on the integer outcomes b of one history: plain integer arithmetic."""
    if isinstance(e, int):
        return e
    if isinstance(e, str):
        return b[int(e[1:])]
    x, y = expr_value(e[1], b), expr_value(e[2], b)
    if e[0] == "+":
        return x + y
    if e[0] == "-":
        return x - y
    if e[0] == "*":
        return x * y
    return int({"==": x == y, ">=": x >= y, "<": x < y}[e[0]])


def reference(spec, branches, states):
    n = spec["nw"]
    kept = [(b, st) for b, st in zip(branches, states) if not b["dead"]]
    W = sum(float(np.vdot(st, st).real) for _, st in kept)
    if W < 1e-6:
        return None, W
    out = []
    for m in spec["meas"]:
        if m["k"] == "expval":
            O = np.array([[1]], dtype=complex)
            for ch in m["word"]:
                O = np.kron(O, PAULI[ch])
            out.append(sum(exactsim.expval(st, n, O, m["wires"]) for _, st in kept) / W)
        elif m["k"] == "probs":
            out.append(sum(exactsim.probs(st, n, m["wires"]) for _, st in kept) / W)
        elif m["k"] == "expval_mcm":
            out.append(sum(float(np.vdot(st, st).real) * b["b"][m["i"]] for b, st in kept) / W)
        elif m["k"] == "expval_expr":
            out.append(sum(float(np.vdot(st, st).real) * expr_value(m["expr"], b["b"]) for b, st in kept) / W)
        else:
            p = np.zeros(2 ** len(m["idx"]))
            for b, st in kept:
                k = 0
                for i in m["idx"]:
                    k = (k << 1) | b["b"][i]
                p[k] += float(np.vdot(st, st).real)
            out.append(p / W)
    return out, W


def run(ctx):
    ctx.coq_props()
    out = ctx.run_impl("c21_impl.py", {"tier": ctx.tier, "seed": ctx.seed}, timeout=3000)
    cases = [c for c in out["cases"] if c["status"] == "ok"]
    circuits, owner = [], []
    for ci, c in enumerate(cases):
        for b in c["branches"]:
            circuits.append((c["spec"]["nw"], b["circuit"])); owner.append(ci)
    states = exactsim.exact_states(ctx, "branch", circuits, chunk=40)
    per = {}
    for ci, st in zip(owner, states):
        per.setdefault(ci, []).append(st)
    lem = []
    for ci, c in enumerate(cases):
        sts = "[" + "; ".join(f"p_capply 4%Z {c['spec']['nw']}%nat {b['circuit']} (p_basis {c['spec']['nw']}%nat 0%nat)" for b in c["branches"]) + "]"
        lem.append((f"total_{ci}", f"probs_total_one 4%Z {sts} = true", "vm_compute. reflexivity."))
    failed = ctx.coq_obligations("weights", HEADER, lem, chunk=6)
    for name, detail in failed:
        ctx.broken_obligation("coq", name, detail)
    stats = {"compared": 0, "excluded_zero_prob": 0, "one_shot": 0, "with_postselect": 0, "with_reset": 0, "with_cond": 0, "with_reflected_arithmetic": 0}
    for ci, c in enumerate(cases):
        spec = c["spec"]
        ref, W = reference(spec, c["branches"], per[ci])
        if W < 1e-6:
            stats["excluded_zero_prob"] += 1
            continue
        stats["compared"] += 1
        stats["with_postselect"] += any(s["t"] == "mcm" and s["postselect"] is not None for s in spec["steps"])
        stats["with_reset"] += any(s["t"] == "mcm" and s["reset"] for s in spec["steps"])
        stats["with_cond"] += any(s["t"] == "cond" for s in spec["steps"])
        stats["with_reflected_arithmetic"] += any(s.get("pred") == "expr" for s in spec["steps"]) or any(m["k"] == "expval_expr" for m in spec["meas"])
        for method in ("deferred", "tree-traversal"):
            r = c["results"].get(method)
            if isinstance(r, str):
                ctx.violation(f"raised:{method}:" + json.dumps(spec)[:300], {"spec": spec, "method": method, "error": r}, what=f"{method} raised on a valid dynamic circuit")
                continue
            for mi, (m, got, exp) in enumerate(zip(spec["meas"], r, ref)):
                err = float(np.abs(np.asarray(got, dtype=float).reshape(-1) - np.asarray(exp, dtype=float).reshape(-1)).max())
                if not err <= 1e-9:
                    # known finding: tree-traversal + statistics of an earlier MCM + later postselection
                    later_ps = False
                    if method == "tree-traversal" and m["k"] in ("expval_mcm", "probs_mcm", "expval_expr"):
                        idxs = [m["i"]] if m["k"] == "expval_mcm" else m["idx"]
                        mpos = [j for j, s in enumerate([s for s in spec["steps"] if s["t"] == "mcm"])]
                        mcms = [s for s in spec["steps"] if s["t"] == "mcm"]
                        later_ps = any(mcms[j]["postselect"] is not None and j > min(idxs) for j in range(len(mcms)))
                    key = "finding:tree_traversal_mcm_stats_ignore_later_postselection" if later_ps else f"mcm:{method}:" + json.dumps([spec, mi])[:300]
                    # known finding: tree-traversal returns NaN when, below some branch of an earlier measurement, the
                    # postselected outcome of a later measurement has probability zero (both sub-branches are dropped, 0/0)
                    if (method == "tree-traversal" and not later_ps and np.all(np.isnan(np.asarray(got, dtype=float)))
                            and np.all(np.isfinite(np.asarray(exp, dtype=float)))
                            and any(s_["t"] == "mcm" and s_["postselect"] is not None for s_ in spec["steps"])):
                        key = "finding:tree_traversal_nan_zero_probability_postselected_branch"
                    ctx.violation(key, {"spec": spec, "method": method, "measurement": m, "device_result": got, "exact_branch_average": np.asarray(exp).tolist(), "err": err},
                                  what=f"{method} result of {m['k']} differs from the exact branch-averaged result")
        osr = c["results"].get("one-shot")
        if isinstance(osr, dict):
            stats["one_shot"] += 1
            shots = osr["shots"]
            for m, got, exp in zip(spec["meas"], osr["values"], ref):
                g, e = np.asarray(got, dtype=float).reshape(-1), np.asarray(exp, dtype=float).reshape(-1)
                if np.any(np.isnan(g)):
                    continue
                neff = max(shots * W, 1.0)
                scale = 1.0
                if m["k"] == "expval_expr":     # a statistic with values in [lo, hi] has standard deviation <= (hi - lo) / 2
                    vals = [expr_value(m["expr"], hb) for hb in itertools.product([0, 1], repeat=spec["nm"])]
                    scale = max(1.0, (max(vals) - min(vals)) / 2)
                tol = 6.5 * scale / math.sqrt(neff) + 1e-9
                if float(np.abs(g - e).max()) > tol:
                    ctx.violation("one-shot:" + json.dumps([spec, m])[:300], {"spec": spec, "measurement": m, "sampled": got, "exact": e.tolist(), "shots": shots, "tolerance": tol},
                                  what="one-shot sampling is statistically inconsistent with the exact branch-averaged result")
    for c in out["cases"]:
        if c["status"] == "error":
            ctx.violation("harness-error:" + json.dumps(c["spec"])[:200], {"spec": c["spec"], "detail": c.get("detail")}, found_input=False, what="reference construction failed")
    ctx.coverage.update({"evaluations": len(out["cases"]), "distinct_nontrivial": stats["compared"], "branch_circuits": len(circuits),
                         "rule": "random dynamic circuits; non-trivial = compared case with at least one mid-circuit measurement and non-zero postselection weight", **stats})
    for c in cases[:2]:
        ctx.sample({"spec": c["spec"]})
