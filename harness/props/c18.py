"""C18 Transforms never modify their input circuit.

Three parts: (1) DIFFERENTIAL in the literal sense of the property over every public tape transform (registry in
harness/impl/c18_impl.py), (2) Coq heap model of QuantumScript list aliasing (Disc/AliasModel.v) with theorems
(Props/C18.v) tied to /repo by running the same idiom programs on real QuantumScript objects, (3) a static AST scan
for in-place mutations of lists/attributes reachable from the tape argument, checked against an allow-list."""
import ast
from concurrent.futures import ThreadPoolExecutor
from collections import Counter, defaultdict

from vlib import *

PID = "C18"
META = {
    "level": "proof",
    "technique": "runtime differential (deep structural fingerprint + re-execution) over all public tape transforms; Coq heap model of "
                 "QuantumScript aliasing with induction proofs and vm_compute correspondence; static AST alias scan with allow-list",
    "design_ref": "DESIGN.md §3 C18 (PARTIAL: most of the property is runtime aliasing behaviour)",
    "text": "Main detector: every registered public tape transform (qp.transforms.__all__ transforms, gradients, noise, qcut, batching, "
            "measurement splitting, mcm, decomposition, compile, CompilePipelines, ftqc, device preprocessing) is applied to seeded generated "
            "tapes suited to it; before/after the call and after the post-processing function a deep fingerprint of the INPUT tape is compared "
            "(per operation: object id, name, wires, repr, hash, id/value/type of every data array, hyperparameters; identity and length of "
            "the operations/measurements lists; measurements incl. observables; trainable_params; shots; cached and recomputed hash; batch_size; "
            "parameters), qp.equal against an identically generated twin, output tapes must not share the input's list objects, and the original "
            "is re-executed on default.qubit and compared with the twin's result. 7 kernel-checked theorems about a heap model of QuantumScript "
            "(operations returns the tape's own list; copy(); copy-then-mutate preserves every tape for ALL heaps and ALL mutation sequences; the "
            "alias-then-mutate idiom changes the caller's tape for all heaps; QuantumScript.copy shares only shots and -- when nothing is updated "
            "-- the _trainable_params list; the pipeline's single in-place write needs a cotransform cache). The model is executed inside Coq on "
            "generated idiom programs and compared with real QuantumScript objects (list contents, `is`-identity of the lists).",
    "note": "The theorems are about the shared copying primitives (the model), NOT about the individual transforms: whether a given transform "
            "uses the copying idiom is Python runtime behaviour covered by the differential (finite sample of generated tapes) and by the static "
            "scan (syntactic, flow-insensitive, allow-list established on the repaired tree; guarded writes `if new_tape is not tape` are "
            "allow-listed together with the textual guard). Operators are immutable codes in the model (sharing of operator objects / data arrays "
            "between a tape and its copy is only checked by the differential's data-id/value fingerprint). cached `hash` staleness is observed by "
            "the differential (hash_cached vs hash_fresh), not modelled. Observation outside the property, recorded in the evidence only: "
            "qp.execute itself rewrites tape.trainable_params of the caller's tape (workflow/interfaces/autograd.py:140 and siblings) and "
            "default.qubit finite-shot sampling replaces mp.obs by qp.simplify(mp.obs) on the caller's measurement objects "
            "(devices/qubit/sampling.py:69); results of re-execution are unaffected. Transforms without a tape implementation (gridsynth, "
            "ppr_to_mbqc) and those that raise on the generated input are skipped and counted. Pulse gradient transforms run only in the thorough tier.",
    "assumptions": ["generated tapes (3-4 wires, <= ~10 operations) are representative of the aliasing behaviour of each transform",
                    "operators and measurement processes are treated as immutable values in the Coq model"],
    "trusted": ["hand-written model coq/Disc/AliasModel.v tied to /repo/pennylane/core/qscript.py by correspondence only",
                "the fingerprint function of harness/impl/c18_impl.py (checked for idempotence on every case)",
                "Python `ast` static scan is heuristic (names/attributes), not a sound alias analysis"],
}

THOROUGH_ONLY = {"pulse_odegen", "stoch_pulse_grad"}

# ---------------------------------------------------------------------------------------- static scan
# allow-list established on the repaired tree (commit 7c09367 and later): (file, function, kind, statement, required guard text)
ALLOW = [
    ("core/transforms/compile_pipeline.py", "CompilePipeline.__call_tapes", "tape-attr-write", "tape.trainable_params = argnums[tape_idx]",
     "if argnums is not None:"),                                       # modelled: AliasModel.pipeline_prologue
    ("gradients/adjoint_metric_tensor.py", "_expand_trainable_multipar", "tape-attr-write",
     "new_tape.trainable_params = math.get_trainable_indices(params)", "if new_tape is not tape:"),
    ("gradients/finite_difference.py", "_expand_transform_finite_diff", "tape-attr-write",
     "new_tape.trainable_params = math.get_trainable_indices(params)", "if new_tape is tape:"),
    ("gradients/hadamard_gradient.py", "_inplace_set_trainable_params", "tape-attr-write",
     "tape.trainable_params = math.get_trainable_indices(params)", "if len(batch) > 1 or batch[0] is not tape:"),
    ("gradients/metric_tensor.py", "_expand_metric_tensor", "tape-attr-write",
     "new_tape.trainable_params = math.get_trainable_indices(params)", "if new_tape is not tape:"),
    ("gradients/parameter_shift.py", "_inplace_set_trainable_params", "tape-attr-write",
     "tape.trainable_params = math.get_trainable_indices(params)", "if len(batch) > 1 or batch[0] is not tape:"),
]

TAPE_NAMES = {"tape", "circ", "circuit", "qscript", "script", "input", "qs", "original_tape", "old_tape"}
ALIAS_ATTRS = {"operations", "measurements", "_ops", "_measurements", "trainable_params", "_trainable_params", "_obs_sharing_wires",
               "_obs_sharing_wires_id", "_par_info", "par_info"}
MUT_METHODS = {"pop", "insert", "append", "remove", "extend", "sort", "reverse", "clear", "__setitem__", "__delitem__", "update", "add", "discard"}
FRESH_CALLS = {"copy", "list", "tuple", "sorted", "deepcopy", "QuantumScript", "QuantumTape", "reversed", "set", "dict", "len", "enumerate",
               "zip", "range", "isinstance", "type", "id", "hash", "str", "repr", "any", "all", "sum", "max", "min"}


def _name(n):
    return n.id if isinstance(n, ast.Name) else None


def _targets(t):
    """names bound by an assignment target (tuple/list/starred unpacking included)"""
    if isinstance(t, ast.Name):
        return [t.id]
    if isinstance(t, (ast.Tuple, ast.List)):
        return [x for e in t.elts for x in _targets(e)]
    if isinstance(t, ast.Starred):
        return _targets(t.value)
    return []


def _call_name(c):
    f = c.func
    if isinstance(f, ast.Name):
        return f.id
    if isinstance(f, ast.Attribute):
        return f.attr
    return None


class FuncScan:
    """flow-insensitive taint analysis of one function body (nested functions are scanned separately but inherit
    the tainted names of the enclosing function: closures)"""

    def __init__(self, fn, rel, qual, module_funcs, inherited_tapes=(), inherited_lists=(), param_list_taint=()):
        self.fn, self.rel, self.qual, self.module_funcs = fn, rel, qual, module_funcs
        self.tapes = set(inherited_tapes)
        self.lists = set(inherited_lists) | set(param_list_taint)
        self.elems = set()
        args = fn.args
        for a in list(args.posonlyargs) + list(args.args) + list(args.kwonlyargs):
            ann = ast.unparse(a.annotation) if a.annotation is not None else ""
            if a.arg in TAPE_NAMES or "QuantumScript" in ann and "Batch" not in ann and "Sequence" not in ann or "QuantumTape" in ann:
                self.tapes.add(a.arg)
        self.hits = []
        self.calls_with_tainted_list = []   # (callee name, positional index)

    def body_nodes(self):
        """all nodes of the function body except nested function/class bodies"""
        stack = list(self.fn.body)
        while stack:
            n = stack.pop()
            yield n
            for c in ast.iter_child_nodes(n):
                if isinstance(c, (ast.FunctionDef, ast.AsyncFunctionDef, ast.Lambda, ast.ClassDef)):
                    continue
                stack.append(c)

    def is_tape_expr(self, e):
        return isinstance(e, ast.Name) and (e.id in self.tapes or e.id in TAPE_NAMES)

    def is_alias_list_expr(self, e):
        """expression that evaluates to a list object owned by a tainted tape (no copy in between)"""
        if isinstance(e, ast.Name):
            return e.id in self.lists
        if isinstance(e, ast.Attribute) and e.attr in ALIAS_ATTRS and self.is_tape_expr(e.value):
            return True
        if isinstance(e, ast.IfExp):
            return self.is_alias_list_expr(e.body) or self.is_alias_list_expr(e.orelse)
        if isinstance(e, ast.BoolOp):
            return any(self.is_alias_list_expr(v) for v in e.values)
        if isinstance(e, ast.NamedExpr):
            return self.is_alias_list_expr(e.value)
        return False

    def may_return_same_tape(self, e):
        """a call that receives a tainted tape and is not a known constructor/copy may hand the same object back
        (e.g. `[expanded_tape], _ = decompose(tape, ...)`)"""
        if isinstance(e, ast.Call):
            cn = _call_name(e)
            if cn in FRESH_CALLS or cn in ("copy", "map_wires", "bind_new_parameters", "expand"):
                return False
            if isinstance(e.func, ast.Attribute) and self.is_tape_expr(e.func.value):
                return False            # method of the tape: tape.copy(...), tape.expand(...) build new tapes
            return any(self.is_tape_expr(a) for a in e.args) or any(self.is_tape_expr(k.value) for k in e.keywords)
        return False

    def propagate(self):
        changed = True
        while changed:
            changed = False
            for n in self.body_nodes():
                if isinstance(n, (ast.Assign, ast.AnnAssign)):
                    val = n.value
                    tg = n.targets if isinstance(n, ast.Assign) else [n.target]
                    if val is None:
                        continue
                    names = [x for t in tg for x in _targets(t)]
                    if self.is_tape_expr(val) or self.may_return_same_tape(val):
                        for x in names:
                            if x not in self.tapes and x != "_":
                                self.tapes.add(x); changed = True
                    if self.is_alias_list_expr(val):
                        for x in names:
                            if x not in self.lists:
                                self.lists.add(x); changed = True
                    # element of a tainted list
                    if isinstance(val, ast.Subscript) and self.is_alias_list_expr(val.value) and not isinstance(val.slice, ast.Slice):
                        for x in names:
                            if x not in self.elems:
                                self.elems.add(x); changed = True
                if isinstance(n, ast.NamedExpr) and isinstance(n.target, ast.Name):
                    if self.is_alias_list_expr(n.value) and n.target.id not in self.lists:
                        self.lists.add(n.target.id); changed = True
                if isinstance(n, (ast.For, ast.comprehension)):
                    it = n.iter
                    src = it
                    if isinstance(it, ast.Call) and _call_name(it) in ("enumerate", "reversed") and it.args:
                        src = it.args[0]
                    if self.is_alias_list_expr(src):
                        for x in _targets(n.target):
                            if x not in self.elems:
                                self.elems.add(x); changed = True
                    # `for t in tapes` is not tracked (batches are new containers)

    def record(self, node, kind):
        stmt = ast.unparse(node)
        self.hits.append({"file": self.rel, "func": self.qual, "kind": kind, "stmt": " ".join(stmt.split())[:200], "line": node.lineno})

    def find_hits(self):
        for n in self.body_nodes():
            # x.pop(...) etc on an aliased list / directly on tape.operations
            if isinstance(n, ast.Call) and isinstance(n.func, ast.Attribute) and n.func.attr in MUT_METHODS:
                if self.is_alias_list_expr(n.func.value):
                    self.record(n, "list-method")
            # calls of module-level helpers with an aliased list (interprocedural, one level per iteration)
            if isinstance(n, ast.Call) and isinstance(n.func, ast.Name) and n.func.id in self.module_funcs:
                for i, a in enumerate(n.args):
                    if self.is_alias_list_expr(a):
                        self.calls_with_tainted_list.append((n.func.id, i))
            if isinstance(n, ast.Delete):
                for t in n.targets:
                    if isinstance(t, ast.Subscript) and self.is_alias_list_expr(t.value):
                        self.record(n, "del-item")
                    if isinstance(t, ast.Attribute) and self.is_tape_expr(t.value):
                        self.record(n, "del-attr")
            if isinstance(n, (ast.Assign, ast.AugAssign, ast.AnnAssign)):
                tg = n.targets if isinstance(n, ast.Assign) else [n.target]
                for t in tg:
                    for tt in (t.elts if isinstance(t, (ast.Tuple, ast.List)) else [t]):
                        if isinstance(tt, ast.Subscript) and self.is_alias_list_expr(tt.value):
                            self.record(n, "set-item")
                        if isinstance(tt, ast.Attribute) and self.is_tape_expr(tt.value):
                            self.record(n, "tape-attr-write")
                        if isinstance(tt, ast.Attribute) and isinstance(tt.value, ast.Name) and tt.value.id in self.elems:
                            self.record(n, "element-attr-write")
                        if isinstance(n, ast.AugAssign) and isinstance(tt, ast.Name) and tt.id in self.lists:
                            self.record(n, "augassign-list")
                        if isinstance(n, ast.AugAssign) and isinstance(tt, ast.Attribute) and tt.attr in ALIAS_ATTRS and self.is_tape_expr(tt.value):
                            self.record(n, "augassign-list")
            if isinstance(n, ast.Call) and isinstance(n.func, ast.Name) and n.func.id == "setattr" and n.args and self.is_tape_expr(n.args[0]):
                self.record(n, "setattr")


def scan_file(path, rel):
    try:
        tree = ast.parse(path.read_text())
    except SyntaxError:
        return [], {"file": rel, "error": "syntax"}
    module_funcs = {n.name: n for n in tree.body if isinstance(n, ast.FunctionDef)}
    param_taint = {name: set() for name in module_funcs}    # helper -> tainted list parameter names
    hits = []
    for _ in range(4):     # fixpoint over helper calls
        hits = []
        new_taint = False

        def visit(fn, qual, inh_t, inh_l):
            nonlocal new_taint
            fs = FuncScan(fn, rel, qual, module_funcs, inh_t, inh_l, param_taint.get(fn.name, ()) if qual == fn.name else ())
            fs.propagate()
            fs.find_hits()
            hits.extend(fs.hits)
            for callee, idx in fs.calls_with_tainted_list:
                ps = [a.arg for a in module_funcs[callee].args.posonlyargs + module_funcs[callee].args.args]
                if idx < len(ps) and ps[idx] not in param_taint[callee]:
                    param_taint[callee].add(ps[idx]); new_taint = True
            for c in ast.walk(fn):
                if c is not fn and isinstance(c, (ast.FunctionDef, ast.AsyncFunctionDef)) and _parent_func(fn, c) is fn:
                    visit(c, qual + "." + c.name, fs.tapes, fs.lists)

        for n in tree.body:
            if isinstance(n, (ast.FunctionDef, ast.AsyncFunctionDef)):
                visit(n, n.name, (), ())
            elif isinstance(n, ast.ClassDef):
                for m in n.body:
                    if isinstance(m, (ast.FunctionDef, ast.AsyncFunctionDef)):
                        visit(m, n.name + "." + m.name, (), ())
        if not new_taint:
            break
    # dedupe
    seen, out = set(), []
    for h in hits:
        k = (h["file"], h["func"], h["kind"], h["stmt"])
        if k not in seen:
            seen.add(k); out.append(h)
    return out, None


def _parent_func(root, target):
    """the innermost function of `root` (inclusive) that directly contains `target`"""
    best = None

    def rec(node, cur):
        nonlocal best
        for c in ast.iter_child_nodes(node):
            if c is target:
                best = cur
                return
            rec(c, c if isinstance(c, (ast.FunctionDef, ast.AsyncFunctionDef)) else cur)
    rec(root, root)
    return best


SCAN_DIRS = ["transforms", "core/transforms", "gradients", "noise", "qcut", "ftqc", "devices/preprocess.py"]


def scan_repo(repo):
    base = Path(repo) / "pennylane"
    files = sorted(f for d in SCAN_DIRS for f in (base / d).rglob("*.py"))
    hits, errs = [], []
    for f in files:
        h, e = scan_file(f, str(f.relative_to(base)))
        hits.extend(h)
        if e:
            errs.append(e)
    return hits, errs, len(files)


def static_scan(ctx):
    hits, errs, nfiles = scan_repo(REPO)
    allow = {(a[0], a[1], a[2], a[3]): a[4] for a in ALLOW}
    base = Path(REPO) / "pennylane"
    new, void = [], []
    for h in hits:
        k = (h["file"], h["func"], h["kind"], h["stmt"])
        if k not in allow:
            new.append(h)
        else:
            try:
                if allow[k] not in (base / h["file"]).read_text():
                    void.append(h)
            except OSError:
                void.append(h)
    return hits, new, void, errs, nfiles


# ---------------------------------------------------------------------------------------- idiom programs (tie for the model)
MUTS = ["pop", "delitem", "insert", "append", "setitem", "reverse", "clear"]


def gen_mut(rng, n_hint=3):
    k = rng.choice(MUTS + ["pop", "insert"])
    idx = rng.choice([0, 0, 0, 1, -1, -1, 2, rng.randint(-4, 4)])
    v = rng.randint(0, 9)
    if k in ("pop", "delitem"):
        return [k, idx]
    if k in ("insert", "setitem"):
        return [k, idx, v]
    if k == "append":
        return [k, v]
    return [k]


def gen_tspec(rng):
    n = rng.choice([0, 1, 2, 3, 3, 4, 5])
    ops = [rng.randint(10, 60) for _ in range(n)]
    meas = [rng.randint(0, 5) for _ in range(rng.choice([0, 1, 1, 2, 3]))]
    tp = None if rng.random() < 0.5 else sorted(set(rng.randint(0, max(n, 1)) for _ in range(rng.randint(0, 3))))
    return {"ops": ops, "meas": meas, "shots": rng.choice([None, None, 10, 100]), "tp": tp}


def gen_program(rng):
    tapes = [gen_tspec(rng) for _ in range(rng.choice([1, 1, 2]))]
    ntapes = len(tapes)
    env = {}          # var -> kind
    cmds = []
    nv = [0]

    def fresh():
        if env and rng.random() < 0.2:
            return rng.choice(list(env))          # rebinding an existing name
        nv[0] += 1
        return nv[0] - 1

    def tape_ref():
        return rng.randrange(ntapes) if rng.random() < 0.96 else ntapes + 1

    def var_of(kind):
        c = [v for v, k in env.items() if k == kind]
        if c and rng.random() < 0.96:
            return rng.choice(c)
        return 40 if rng.random() < 0.5 or not env else rng.choice(list(env))

    for _ in range(rng.randint(2, 9)):
        r = rng.random()
        if r < 0.16:
            x = fresh(); cmds.append(["getops", x, tape_ref()]); env[x] = "op"
        elif r < 0.24:
            x = fresh(); cmds.append(["getmeas", x, tape_ref()]); env[x] = "mp"
        elif r < 0.30:
            x = fresh(); cmds.append(["gettp", x, tape_ref()]); env[x] = "int"
        elif r < 0.42 and env:
            src = rng.choice(list(env)); y = fresh()
            cmds.append(["copylist", y, src, rng.choice(["copy", "list", "slice"])]); env[y] = env.get(src, "op")
        elif r < 0.46:
            x = fresh(); cmds.append(["newlist", x, [rng.randint(60, 90) for _ in range(rng.randint(0, 3))]]); env[x] = "op"
        elif r < 0.72 and env:
            cmds.append(["mut", rng.choice(list(env)) if rng.random() < 0.97 else 41, gen_mut(rng)])
        elif r < 0.86:
            uo = var_of("op") if rng.random() < 0.5 and any(k == "op" for k in env.values()) else None
            um = var_of("mp") if rng.random() < 0.3 and any(k == "mp" for k in env.values()) else None
            if uo is not None and env.get(uo) != "op":
                uo = None
            if um is not None and env.get(um) != "mp":
                um = None
            us = rng.choice([None, None, 7, 50])
            ut = rng.choice([None, None, None, [0], [1, 0], []])
            cmds.append(["tapecopy", tape_ref(), uo, um, us, ut, rng.random() < 0.3]); ntapes += 1 if cmds[-1][1] < ntapes else 0
        elif r < 0.94:
            cmds.append(["settp", tape_ref(), [rng.choice([0, 0, 1, 2, 3, 5, -1]) for _ in range(rng.randint(0, 3))]])
        else:
            ok_o = [v for v, k in env.items() if k == "op"]
            ok_m = [v for v, k in env.items() if k == "mp"]
            if ok_o and ok_m:
                cmds.append(["newtape", rng.choice(ok_o), rng.choice(ok_m), rng.choice([None, 5])]); ntapes += 1
    return {"tapes": tapes, "cmds": cmds}


T0 = {"ops": [10, 11, 12], "meas": [0], "shots": 100, "tp": [0, 2]}
T1 = {"ops": [20, 21, 22, 23], "meas": [1, 2], "shots": None, "tp": None}
IDIOM_CORPUS = [
    # the good idiom (cancel_inverses / single_qubit_fusion): list_copy = tape.operations.copy(); pop...
    {"tapes": [T1], "cmds": [["getops", 0, 0], ["copylist", 1, 0, "copy"], ["mut", 1, ["pop", 0]], ["mut", 1, ["pop", 1]], ["newlist", 2, [70]],
                             ["tapecopy", 0, 2, None, None, None, False]]},
    # the bad idiom of merge_rotations before repair: list_copy = tape.operations; pop(0) until empty
    {"tapes": [T1], "cmds": [["getops", 0, 0], ["mut", 0, ["pop", 0]], ["mut", 0, ["pop", 0]], ["mut", 0, ["pop", 0]], ["mut", 0, ["pop", 0]]]},
    # the bad idiom of commute_controlled before repair: insert + pop on tape.operations, then tape.copy(operations=op_list)
    {"tapes": [T1], "cmds": [["getops", 0, 0], ["mut", 0, ["insert", 3, 20]], ["mut", 0, ["pop", 0]], ["tapecopy", 0, 0, None, None, None, False]]},
    {"tapes": [T0], "cmds": [["tapecopy", 0, None, None, None, None, False], ["gettp", 0, 1], ["mut", 0, ["append", 1]]]},   # shared _trainable_params
    {"tapes": [T0], "cmds": [["tapecopy", 0, None, None, 7, None, False], ["tapecopy", 0, None, None, None, None, True], ["getops", 0, 1], ["mut", 0, ["clear"]]]},
    {"tapes": [T0], "cmds": [["settp", 0, [2, 0, 2, 1]], ["settp", 0, [4]], ["settp", 0, [-1]]]},
    {"tapes": [T1], "cmds": [["gettp", 0, 0], ["getops", 1, 0], ["mut", 1, ["pop", -1]], ["settp", 0, [4]], ["tapecopy", 0, None, None, None, None, False], ["gettp", 2, 1]]},
    {"tapes": [T1], "cmds": [["getops", 0, 0], ["getmeas", 1, 0], ["newtape", 0, 1, 5], ["mut", 0, ["reverse"]], ["mut", 1, ["setitem", -1, 4]], ["mut", 1, ["setitem", 2, 4]]]},
    {"tapes": [T0, T1], "cmds": [["getmeas", 0, 1], ["tapecopy", 0, None, 0, None, [1], False], ["mut", 0, ["delitem", 0]], ["mut", 0, ["insert", -7, 3]], ["mut", 0, ["insert", 9, 4]]]},
    {"tapes": [T0], "cmds": [["getops", 0, 0], ["copylist", 0, 0, "slice"], ["mut", 0, ["pop", 5]]]},
]


def g_mut(m):
    k = m[0]
    return {"pop": lambda: f"(MPop {gz(m[1])})", "delitem": lambda: f"(MDelItem {gz(m[1])})",
            "insert": lambda: f"(MInsert {gz(m[1])} {gz(m[2])})", "append": lambda: f"(MAppend {gz(m[1])})",
            "setitem": lambda: f"(MSetItem {gz(m[1])} {gz(m[2])})", "reverse": lambda: "MReverse", "clear": lambda: "MClear"}[k]()


def g_cmd(c):
    k = c[0]
    if k == "getops": return f"CGetOps {gnat(c[1])} {gnat(c[2])}"
    if k == "getmeas": return f"CGetMeas {gnat(c[1])} {gnat(c[2])}"
    if k == "gettp": return f"CGetTP {gnat(c[1])} {gnat(c[2])}"
    if k == "copylist": return f"CCopyList {gnat(c[1])} {gnat(c[2])}"
    if k == "newlist": return f"CNewList {gnat(c[1])} {glist(c[2], gz)}"
    if k == "mut": return f"CMut {gnat(c[1])} {g_mut(c[2])}"
    if k == "tapecopy":
        us = "None" if c[4] is None else f"(Some (Some {gz(c[4])}))"
        ut = "None" if c[5] is None else f"(Some {glist(c[5], gz)})"
        return f"CTapeCopy {gnat(c[1])} {gopt(c[2], gnat)} {gopt(c[3], gnat)} {us} {ut} {gbool(c[6])}"
    if k == "settp": return f"CSetTP {gnat(c[1])} {glist(c[2], gz)}"
    if k == "newtape": return f"CNewTape {gnat(c[1])} {gnat(c[2])} {gopt(c[3], gz)}"
    raise KeyError(k)


def g_tspec(t):
    return f"({glist(t['ops'], gz)}, {glist(t['meas'], gz)}, {gopt(t['shots'], gz)}, {gopt(t['tp'], lambda l: glist(l, gz))})"


def g_obs(o):
    tl = glist(o["tapes"], lambda t: f"({glist(t['ops'], gz)}, {glist(t['meas'], gz)}, {gopt(t['shots'], gz)}, {gopt(t['tp'], lambda l: glist(l, gz))})")
    al = glist(o["alias"], lambda a: f"({gbool(a[2])}, {gbool(a[3])}, {gbool(a[4])})")
    return f"({gbool(o['status'] == 'ok')}, {tl}, {al})"


def idiom_direct_oracle(p, o):
    """property-level statement on the real objects: a program whose only mutations go through names bound by copylist/newlist
    leaves every initial tape's lists unchanged"""
    fresh, alias = set(), set()
    for c in p["cmds"]:
        if c[0] in ("copylist", "newlist"):
            fresh.add(c[1]); alias.discard(c[1])
        elif c[0] in ("getops", "getmeas", "gettp"):
            alias.add(c[1]); fresh.discard(c[1])
        elif c[0] == "mut" and c[1] not in fresh:
            return True       # not of the good shape
    for t0, t1 in zip(p["tapes"], o["tapes"]):
        if t0["ops"] != t1["ops"] or t0["meas"] != t1["meas"]:
            return False
    return True


# ---------------------------------------------------------------------------------------- run
def run(ctx):
    import time as _t
    tm = {}
    rng = ctx.rng
    quick = ctx.tier == "quick"

    # ---- (3) static scan first (cheap)
    hits, new_hits, void_hits, scan_errs, nfiles = static_scan(ctx)

    # ---- (2) idiom programs for the model tie and (1) the differential: three driver processes in parallel
    progs = list(IDIOM_CORPUS)
    nprog = 300 if quick else 2000
    while len(progs) < nprog:
        progs.append(gen_program(rng))
    extra = []
    rp = getattr(ctx, "replay", None)
    if rp and isinstance(rp.get("replay", {}).get("case"), dict):
        c = rp["replay"]["case"]
        extra.append({"t": c["t"], "variant": c["variant"], "cseed": c["cseed"]})
    nshard = 3 if quick else 6
    base = {"mode": "auto", "master": ctx.seed, "k": 2 if quick else 6, "skip": sorted(THOROUGH_ONLY) if quick else [],
            "single": sorted(THOROUGH_ONLY), "nshard": nshard}
    payloads = [dict(base, shard=i, extra=extra if i == 0 else [], programs=progs if i == nshard - 1 else None) for i in range(nshard)]
    t0 = _t.time()
    with ThreadPoolExecutor(max_workers=nshard) as ex:
        futs = [ex.submit(ctx.run_impl, "c18_impl.py", pl) for pl in payloads]
        ctx.coq_props()                       # the theorems are re-checked while the drivers run
        tm['coq_props'] = round(_t.time() - t0, 1)
        outs = [f.result() for f in futs]
    tm['drivers_and_props'] = round(_t.time() - t0, 1)
    t0 = _t.time()
    obs = [o for out in outs for o in out["obs"]]
    listing = outs[0]["listing"]
    registry = listing["registry"]
    iobs = outs[-1]["idioms"]

    terms = [f"(({glist(p['tapes'], g_tspec)}, {glist(p['cmds'], g_cmd)}), {g_obs(o)})" for p, o in zip(progs, iobs)]
    bad = ctx.coq_eval_cases("idioms", "From PLV Require Import Disc.AliasModel.", terms, "check_case", chunk=100)
    tm['coq_eval'] = round(_t.time() - t0, 1)
    ihist = Counter()
    for p, o in zip(progs, iobs):
        ihist["programs"] += 1
        ihist["raised"] += o["status"] != "ok"
        ihist["with_alias_mutation"] += any(t0["ops"] != t1["ops"] or t0["meas"] != t1["meas"] for t0, t1 in zip(p["tapes"], o["tapes"]))
        ihist["with_tapecopy"] += any(c[0] == "tapecopy" for c in p["cmds"])
        ihist["shared_tp_list"] += any(a[4] for a in o["alias"])
        if any(a[2] or a[3] for a in o["alias"]) and ihist["viol_shared"] < 4:
            ihist["viol_shared"] += 1
            ctx.violation("idiom-shared-list:" + json.dumps(p, sort_keys=True), {"program": p, "observed": o},
                          what="two QuantumScript objects share an operations/measurements list object")
        if not idiom_direct_oracle(p, o):
            ctx.violation("idiom-direct:" + json.dumps(p, sort_keys=True), {"program": p, "observed": o},
                          what="copy-then-mutate idiom changed the caller's tape on real QuantumScript objects")
    ihist["model_disagreements"] = len(bad)
    for i in bad[:6]:                      # the first few are enough as witnesses (all are counted in the evidence)
        ctx.violation("corr:" + json.dumps(progs[i], sort_keys=True), {"program": progs[i], "implementation": iobs[i]},
                      what="real QuantumScript aliasing behaviour differs from the proved heap model")

    per = defaultdict(Counter)
    skipped = Counter()
    exec_changed = Counter()
    nontrivial = 0
    diff_found = False
    for o in obs:
        st = o["status"].split(":")[0] + (":" + o["status"].split(":")[1] if o["status"].startswith("skipped") else "")
        per[o["t"]][st] += 1
        if o["status"] != "ok":
            skipped[o["t"] + "|" + st] += 1
        if o.get("exec_changed_input"):
            exec_changed[",".join(o["exec_changed_input"])] += 1
        if o["status"] == "ok" and not o.get("same_object_returned"):
            nontrivial += 1
        if o["status"].startswith(("driver_error", "fingerprint_unstable", "unknown_transform")):
            ctx.notes.append(f"driver problem on {o['t']} v{o['variant']} seed {o['cseed']}: {o['status']}")
        if o["diffs"]:
            diff_found = True
            blamed = o.get("blame") or [o["t"]]
            for b in blamed:
                ctx.violation(f"mutates_input:{b}",
                              {"case": {"t": o["t"], "variant": o["variant"], "cseed": o["cseed"]}, "tape_before": o.get("tape"),
                               "changed": o["diffs"], "stage": o["stage"], "kwargs": o.get("kwargs"), "blame": o.get("blame"),
                               "how": "PYTHONPATH=/repo python harness/impl/c18_impl.py <<< '{\"mode\":\"diff\",\"cases\":[{\"t\":...,\"variant\":...,\"cseed\":...}]}'"},
                              what=f"transform {b} modified its input tape ({o['stage']}: {', '.join(o['diffs'][:6])})")
    exercised = sorted(t for t, c in per.items() if c.get("ok"))
    never_ok = sorted(t for t, c in per.items() if not c.get("ok"))

    # ---- static scan verdicts (after the differential, so that the found-input flag is meaningful)
    for h in new_hits:
        ctx.violation(f"static:{h['file']}:{h['func']}:{h['kind']}:{h['stmt']}", {"hit": h, "differential_also_failed": diff_found,
                      "meaning": "in-place mutation of a list/attribute reachable from the tape argument without an intervening copy; not in the allow-list"},
                      found_input=False, what=f"new in-place mutation reachable from the input tape: {h['file']}:{h['line']} {h['stmt']}")
    for h in void_hits:
        ctx.violation(f"static-guard:{h['file']}:{h['func']}:{h['stmt']}", {"hit": h, "differential_also_failed": diff_found,
                      "meaning": "allow-listed in-place write, but the guard text it was allow-listed with is gone"},
                      found_input=False, what=f"guard of an allow-listed in-place write removed: {h['file']}:{h['line']} {h['stmt']}")

    ctx.coverage.update({
        "evaluations": len(obs) + len(progs),
        "differential_cases": len(obs),
        "distinct_nontrivial": nontrivial,
        "rule": "differential: every registry transform x variant x seeds (first seed of each variant fixed = regression corpus incl. the merge_rotations / "
                "commute_controlled tapes of finding 5, others from VERIF_SEED); non-trivial = transform applied without raising and returned "
                "new tape objects. idioms: corpus of the idioms found in the transforms + seeded random heap programs (4% dangling references).",
        "input_distribution": {"transforms_registered": len(registry), "transforms_exercised_ok": len(exercised),
                               "transforms_never_ok": never_ok, "skipped_by_reason": dict(skipped),
                               "public_transforms_found": len(listing["public"]), "public_unregistered": listing["unregistered"],
                               "idioms": dict(ihist),
                               "post_processing": dict(Counter(o.get("post", "-").split(":")[0] for o in obs)),
                               "executable_before": sum(1 for o in obs if o.get("exec", "").startswith("default"))},
        "static_scan": {"files": nfiles, "hits": [[h["file"], h["func"], h["kind"], h["stmt"]] for h in hits],
                        "new": len(new_hits), "guard_removed": len(void_hits), "parse_errors": scan_errs},
        "observation_exec_changes_input": dict(exec_changed),
        "timing_s": tm,
        "per_transform": {t: dict(c) for t, c in sorted(per.items())},
    })
    if exec_changed:
        ctx.notes.append("observation (outside C18): qp.execute changed the caller's tape in "
                         f"{sum(exec_changed.values())} of {len(obs)} cases (trainable_params rewritten by the ML interface boundary; "
                         "mp.obs replaced by its simplification in finite-shot sampling); re-execution results were unaffected")
    for o in obs[:3]:
        ctx.sample({"transform": o["t"], "tape": o.get("tape"), "status": o["status"], "diffs": o["diffs"]})
    ctx.sample({"idiom": progs[1], "observed": iobs[1]})
