"""C03 Operator arithmetic agrees with matrix arithmetic."""
from vlib import *

PID = "C03"
META = {
    "level": "proof",
    "engine": "qsym-translator",
    "technique": "Coq theorem (reference denotation of operator-expression trees commutes with evaluation: denote_sound) + reflection proofs that the implementation's symbolic matrix of each generated nested expression equals the reference denotation for all parameter values; same for simplify and map_wires; numeric check of every expression",
    "design_ref": "DESIGN.md §3 C03",
    "text": "coq/Lin/OpExp.v defines the reference semantics of operator arithmetic on expression trees (adjoint = conjugate transpose, integer power, control with control values as P(x)U + (1-P)(x)I, product, sum, scalar product; change-of-basis as U^dagger V U) and coq/Lin/OpExpSound.v proves it is exactly matrix arithmetic over C at every parameter valuation (structural induction). Per run, random nested expressions (depth 1-3 quick, 4 thorough) over gates with formal parameters are built with qp.adjoint / qp.pow / qp.ctrl / qp.prod / qp.sum / qp.s_prod / qp.change_op_basis; the matrix returned by the implementation's own wrapper classes is extracted symbolically and Coq proves exp_ok (reference = implementation) for ALL real parameters; likewise simplify(e) has the same matrix and map_wires(e) equals the reference of the relabelled tree. Every expression is also evaluated numerically (incl. eager construction, boundary angles) against an independent numpy evaluation of the tree.",
    "note": "Trusted: Coq kernel + stdlib real axioms; translator qsym/qx (leaf matrices extracted in strict mode: only PennyLane's own matrix code, spot-checked); the quantifier over programs is sampled (each sample universal in its parameters); fractional powers, qp.exp and work wires of controlled operators are not covered; expressions for which the implementation documents no matrix (MatrixUndefinedError, e.g. Sum containing ChangeOpBasis) are skipped and counted. A defect found here (Prod.matrix wire order with overlapping-operand groups) was repaired in /repo by a fix: commit.",
    "assumptions": [], "trusted": ["translator harness/qsym.py, qx.py, impl/c03_impl.py"],
}
HEADER = """From Coq Require Import List ZArith QArith Bool.
From PLV Require Import Alg.Poly Lin.Vec Lin.PVec Lin.OpExp.
Import ListNotations.
Open Scope Q_scope.
"""


def run(ctx):
    ctx.coq_props()
    out = ctx.run_impl("c03_impl.py", {"tier": ctx.tier, "seed": ctx.seed, "outdir": str(ctx.gen_dir)}, timeout=3000)
    items = out["items"]
    obl = json.loads((ctx.gen_dir / "obligations.json").read_text())
    failed = ctx.coq_obligations("arith", HEADER, [(o["name"], o["stmt"], "vm_compute. reflexivity.") for o in obl], chunk=8, par=16, timeout=1500)
    by = {o["name"]: o for o in obl}
    st = {i["expr"]: i for i in items}
    for name, detail in failed:
        o = by.get(name)
        if o is None:
            ctx.broken_obligation("coq", name, detail); continue
        wit = st.get(o["expr"], {}).get("numeric_fail")
        ctx.violation(f"{o['kind']}:{o['expr']}"[:300], {"expression": o["expr"], "claim": o["kind"], "numeric_witness": wit, "obligation": name}, found_input=True,
                      what=f"{o['kind']}: implementation matrix of {o['expr'][:120]} differs from matrix arithmetic for some parameter values")
    for i in items:
        if i.get("numeric_fail"):
            ctx.violation(f"numeric:{i['expr']}"[:300], {"expression": i["expr"], "witness": i["numeric_fail"]},
                          what=f"{i['numeric_fail'].get('what')}: {i['expr'][:120]} disagrees with matrix arithmetic")
    nok = [i for i in items if i["status"] == "ok"]
    if len(nok) < 0.4 * max(1, len([i for i in items if i["status"] != "regression"])):
        nerr = [i for i in items if i["status"] == "notex"]
        ctx.broken_obligation("tie", "c03-extraction", json.dumps([(i["expr"], i["detail"]) for i in nerr[:5]])[:1500])
    kinds = {}
    for o in obl:
        kinds[o["kind"]] = kinds.get(o["kind"], 0) + 1
    ctx.coverage.update({"evaluations": len(items), "distinct_nontrivial": len({o["expr"] for o in obl}),
                         "rule": "random nested operator expressions; non-trivial = expression with a kernel-checked obligation (universal in parameters)",
                         "obligations_by_kind": kinds, "no_matrix_documented": sum(1 for i in items if i["status"] == "no-matrix"),
                         "not_extractable": [(i["expr"][:80], i["detail"][:80]) for i in items if i["status"] in ("notex", "error")][:10]})
    for i in items[:3]:
        ctx.sample({"expression": i["expr"], "wires": i["n"], "proved": i["kinds"]})
