"""C17 Optimisation passes preserve semantics and accept all valid circuits."""
from vlib import *
import exactsim
import numpy as np
from fractions import Fraction

PID = "C17"
META = {
    "level": "proof",
    "engine": "qsym-translator",
    "technique": "Coq proofs over an abstract monoid semantics for transcribed pass drivers (tie K by vm_compute) + exact differential of every pass against a Coq-evaluated reference simulation",
    "design_ref": "DESIGN.md §3 C17",
    "text": ("Layer 1 (theorem + tie K): the drivers of cancel_inverses (recursive and not, Adjoint matching, self_inverses / "
             "symmetric_over_all_wires / symmetric_over_control_wires, the zip-strict exception path), merge_rotations "
             "(single-parameter composable rotations, atol cancellation, include_gates), remove_barrier and "
             "combine_global_phases are transcribed in coq/Disc/PassesModel.v; Props/C17.v proves for ALL gate lists that the "
             "ordered product of the output equals that of the input in any monoid semantics satisfying the listed algebraic "
             "hypotheses (self-inverse, adjoint, disjoint wires commute, rotation angles add, zero rotation = identity, "
             "barrier = identity, global phases central and additive), plus termination within the fuel, totality (no exception) on "
             "fixed-arity circuits for cancel_inverses and on all circuits for merge_rotations, output structure (no barrier; non-phase "
             "gates in order followed by exactly one GlobalPhase with the summed angle), and two REFUTATIONS of the acceptance clause "
             "for variable-arity operators (cancel_inverses raises / cancels operators of different arity). "
             "undo_swaps and commute_controlled drivers are transcribed and tied (K) "
             "without a semantic theorem. The models are run inside Coq on the same biased random coded circuits as the real "
             "passes and the outputs compared gate by gate (names, wires, dyadic angles). "
             "Layer 2 (differential, every pass of the property): random circuits on 1-4 wires with exactly representable "
             "angles are transformed by the REAL pass on a fresh tape. Every run: the float unitaries of input and output (all columns) "
             "must agree up to one global phase at 5e-7 (fuse_rot_angles' arccos loses half the digits near the identity). Exact route (all exactly representable runs in the thorough tier up to a cap, "
             "a round-robin subset over the passes in the quick tier, changed circuits first): input and output, each prefixed by 2-3 "
             "state preparations (a generic product state, a random basis/Hadamard state, |0..0>), are simulated exactly by vm_compute "
             "over Q(zeta_8) (Lin/ExactSim.v) and must satisfy |<in|out>| = 1 with the same phase for all preparations (1e-9). "
             "undo_swaps and merge_amplitude_embedding are compared on the state reached from |0..0>. An exception on a valid circuit "
             "is a violation."),
    "note": ("Per pass: cancel_inverses, merge_rotations (1-parameter rotations), remove_barrier, combine_global_phases = theorem + tie K + "
             "differential; undo_swaps, commute_controlled = driver model + tie K (commutation oracle recorded from qp.is_commuting) + "
             "differential, no semantic theorem; single_qubit_fusion, unitary_to_rot, Rot merging, pattern_matching_optimization, "
             "match_relative_phase_toffoli, match_controlled_iX_gate, rowcol, merge_amplitude_embedding, compile, zx.* = differential only; "
             "rz_phase_gradient, parity_matrix/phase_polynomial (informative IRs) are not covered. The algebraic hypotheses of the abstract "
             "semantics are discharged for the real gate matrices elsewhere (C07 proves the self-inverse / symmetric / composable claims "
             "for all parameters; disjoint-wire commutation is the tensor-product structure of Group B's AbsSem). merge_rotations' "
             "Adjoint-expansion pre-pass is modelled only for Adjoint(rotation) -> rotation(-angle). The exact comparison on a few "
             "preparations is a test of unitary equality, not a proof of it. Known findings pinned by corpus circuits: cancel_inverses "
             "raises ValueError on variable-arity operators; ZX passes relabel wires by order of first use; single_qubit_fusion raises "
             "on a single-wire Barrier; pattern_matching_optimization's explicit 'less qubits than the pattern' error (after an earlier "
             "pattern shrank the circuit) is counted as a documented rejection."),
    "assumptions": ["hypotheses H_inv, H_adj, H_sym*, H_comm, H_rot, H_zero, H_bar, H_gp of the abstract semantics hold for PennyLane's gate matrices (C07 / AbsSem)",
                    "float sums of the generated dyadic angles are exact (angles are multiples of 2^-48 below 32 in magnitude)"],
    "trusted": ["hand-written driver models coq/Disc/PassesModel.v tied to /repo by correspondence only",
                "translator harness/qx.py (gate matrices -> exact constants)", "harness/exactsim.py post-processing",
                "numpy unitary comparison for circuits that are not exactly representable"],
}

UNIT = 2 ** 48
FLOAT_TOL = 5e-7      # arccos in fuse_rot_angles is conditioned like sqrt(eps) ~ 1.5e-8 near the identity (documented instability)


def g_gate(g):
    return f"(G {gz(g[0])} {gbool(g[1])} {glist(g[2], gz)} {gz(g[3])})"


def atol_units(atol):
    return int(Fraction(atol) * UNIT)       # floor: |u|/2^48 <= atol  <->  |u| <= floor(atol*2^48) for integer u


def g_pass(c):
    nm, o = c["pass"], c["opts"]
    if nm == "cancel_inverses":
        return f"(PCancel {gbool(o['recursive'])})"
    if nm == "merge_rotations":
        inc = "None" if o["include"] is None else "(Some " + glist([NAMES.index(x) for x in o["include"]], gz) + ")"
        return f"(PMerge {gz(atol_units(o['atol']))} {inc})"
    if nm == "remove_barrier":
        return "PBarrier"
    if nm == "combine_global_phases":
        return "PGPhase"
    if nm == "undo_swaps":
        return "PUndoSwaps"
    if nm == "commute_controlled":
        gs = c["in"]
        ctrl, seen = [], set()
        for g, f in zip(gs, c["is_controlled"]):
            k = json.dumps(g)
            if f and k not in seen:
                seen.add(k); ctrl.append(g)
        tab, seen = [], set()
        for k, v in c["comm"].items():
            i, j = map(int, k.split(","))
            kk = json.dumps([gs[i], gs[j]])
            if kk in seen or v is None:
                continue
            seen.add(kk)
            tab.append(f"({g_gate(gs[i])}, {g_gate(gs[j])}, {gbool(v)})")
        return f"(PCommute {gbool(o['direction'] == 'right')} {glist(ctrl, g_gate)} [{'; '.join(tab)}])"
    raise KeyError(nm)


NAMES = ["Hadamard", "PauliX", "PauliY", "PauliZ", "CNOT", "CZ", "CY", "CH", "SWAP", "Toffoli", "CCZ", "S", "T", "SX", "ISWAP", "Identity",
         "RX", "RY", "RZ", "PhaseShift", "CRX", "CRY", "CRZ", "ControlledPhaseShift", "IsingXX", "IsingYY", "IsingXY", "IsingZZ",
         "MultiRZ", "PSWAP", "Barrier", "GlobalPhase", "CSWAP", "SISWAP"]


def pretty(gs):
    return [f"{'Adjoint(' if g[1] else ''}{NAMES[g[0]]}{'(' + str(g[3] / UNIT) + ')' if g[3] else ''}{g[2]}{')' if g[1] else ''}" for g in gs]


def driver_layer(ctx, cases):
    usable, skipped = [], 0
    for c in cases:
        if c["out"] is None:       # output outside the coded alphabet: cannot be compared with the model
            skipped += 1
            continue
        usable.append(c)
    terms = []
    for c in usable:
        exp = "None" if c["out"] == "ERR" else "(Some " + glist(c["out"], g_gate) + ")"
        terms.append(f"({g_pass(c)}, {glist(c['in'], g_gate)}, {exp})")
    bad = ctx.coq_eval_cases("drivers", "From PLV Require Import Disc.PassesModel.", terms, "check_case", chunk=250)
    hist = {}
    for c in usable:
        h = hist.setdefault(c["pass"], {"cases": 0, "changed": 0, "raised": 0, "shorter": 0})
        h["cases"] += 1
        if c["out"] == "ERR":
            h["raised"] += 1
        else:
            h["changed"] += c["out"] != c["in"]
            h["shorter"] += len(c["out"]) < len(c["in"])
    for i in bad:
        c = usable[i]
        ctx.violation("corr:" + json.dumps([c["pass"], c["opts"], c["in"]], sort_keys=True)[:400],
                      {"pass": c["pass"], "options": c["opts"], "input": pretty(c["in"]), "input_coded": c["in"],
                       "implementation_output": c["out"] if c["out"] == "ERR" else pretty(c["out"]), "detail": c.get("detail"),
                       "model": "coq/Disc/PassesModel.v run_pass gives a different gate list (see coq/Gen/C17/drivers_*.v)"},
                      what=f"{c['pass']} output differs from the proved driver model (names/wires/angles)")
    # direct oracles on the implementation's output (structural clauses)
    for c in usable:
        if c["out"] == "ERR":
            # the only modelled exception path needs a variable-arity operator; the coded generator has MultiRZ
            continue
        if c["pass"] == "remove_barrier" and any(g[0] == 30 and not g[1] for g in c["out"]):
            ctx.violation("direct:barrier:" + json.dumps(c["in"])[:300], {"input": pretty(c["in"]), "output": pretty(c["out"])}, what="remove_barrier left a Barrier")
        if c["pass"] == "combine_global_phases":
            gp = [i for i, g in enumerate(c["out"]) if g[0] == 31 and not g[1]]
            tot = sum(g[3] for g in c["in"] if g[0] == 31 and not g[1])
            if len(gp) > 1 or (gp and (gp[0] != len(c["out"]) - 1 or c["out"][-1][3] != tot)):
                ctx.violation("direct:gphase:" + json.dumps(c["in"])[:300], {"input": pretty(c["in"]), "output": pretty(c["out"])},
                              what="combine_global_phases did not produce one trailing GlobalPhase with the summed angle")
    return usable, skipped, hist


def diff_layer(ctx, runs, max_exact):
    per = {}
    circs, owner = [], []
    # which runs go through the exact Coq simulation: corpus first, then round-robin over the passes, changed circuits first
    cand = {}
    for ri, r in enumerate(runs):
        if r["status"] == "ok" and r.get("exact"):
            cand.setdefault(r["pass"], []).append(ri)
    for k in cand:
        cand[k].sort(key=lambda ri: (not (runs[ri].get("opts") or {}).get("corpus"), not runs[ri].get("changed"), ri))
    chosen, depth = [], 0
    while len(chosen) < max_exact and any(depth < len(v) for v in cand.values()):
        for k in sorted(cand):
            if depth < len(cand[k]) and len(chosen) < max_exact:
                chosen.append(cand[k][depth])
        depth += 1
    chosen = set(chosen)
    for ri, r in enumerate(runs):
        p = per.setdefault(r["pass"], {"runs": 0, "exact": 0, "numeric": 0, "changed": 0, "raised": 0, "rejected": 0})
        p["runs"] += 1
        if r["status"] == "raised":
            p["raised"] += 1
            continue
        if r["status"] == "rejected":
            p["rejected"] += 1
            continue
        if r["status"] != "ok":
            continue
        p["changed"] += bool(r.get("changed"))
        p["numeric"] += 1
        if ri in chosen:
            p["exact"] += 1
            for c in r["exact"]:
                circs.append((r["n"], c)); owner.append(ri)
    states = exactsim.exact_states(ctx, "ref", circs, chunk=12, par=10) if circs else []
    by_run = {}
    for ri, st in zip(owner, states):
        by_run.setdefault(ri, []).append(st)
    for ri, r in enumerate(runs):
        key_base = json.dumps([r["pass"], r.get("opts"), r.get("ops_in")], sort_keys=True)[:400]
        corpus = (r.get("opts") or {}).get("corpus")
        if r["status"] == "raised":
            key = {"variable-arity-adjoint": "finding:cancel_inverses_variable_arity_raises",
                   "pattern-nonconsecutive-wires-raises": "finding:pattern_matching_nonconsecutive_wires_raises",
                   "fusion-single-wire-barrier": "finding:single_qubit_fusion_single_wire_barrier_raises"}.get(corpus, "raised:" + key_base)
            ctx.violation(key, {"pass": r["pass"], "options": r["opts"], "labels": r["labels"], "ops": r["ops_in"], "exception": r["detail"], "where": r.get("where")},
                          what=f"{r['pass']} raised {r['detail'][:80]} on a valid circuit")
            continue
        if r["status"] in ("generror",):
            raise RuntimeError("generator error: " + r["detail"])
        if r["status"] == "newwires":
            ctx.violation("wires:" + key_base, {"pass": r["pass"], "ops": r["ops_in"], "out": r["ops_out"], "detail": r["detail"]}, what=f"{r['pass']} output acts on wires the input does not have")
            continue
        if r["status"] != "ok":
            continue
        verdict, info = True, {}
        d = r.get("num_dist")
        info = {"float_distance_up_to_phase": d, "numeric_error": r.get("num_err")}
        if d is None or not (d <= FLOAT_TOL):
            verdict = False
        if ri in by_run:
            sts = by_run[ri]
            ovs = [complex(np.vdot(sts[2 * k], sts[2 * k + 1])) for k in range(len(sts) // 2)]
            norms = [float(np.linalg.norm(s)) for s in sts]
            info.update({"exact_overlaps": [[o.real, o.imag] for o in ovs], "preparations": r["preps"]})
            if any(abs(nn - 1) > 1e-9 for nn in norms):
                verdict = False; info["norms"] = norms
            if any(abs(abs(o) - 1) > 1e-9 for o in ovs) or any(abs(o - ovs[0]) > 1e-9 for o in ovs):
                verdict = False
        elif not r.get("exact"):
            info["why_not_exact"] = r.get("notex")
        if not verdict:
            key = {"zx-wire-order": "finding:zx_wire_relabel:" + r["pass"],
                   "pattern-nonconsecutive-wires": "finding:pattern_matching_nonconsecutive_wires_wrong_circuit",
                   "arity-mismatch-cancels": "finding:cancel_inverses_arity_mismatch_cancels"}.get(corpus, "diff:" + key_base)
            ctx.violation(key, {"pass": r["pass"], "options": r["opts"], "labels": r["labels"], "mode": r["mode"],
                                "ops_in": r["ops_in"], "ops_out": r["ops_out"], **info},
                          what=f"{r['pass']} changed the circuit's " + ("state from |0..0>" if r["mode"] == "zero_state" else "unitary (beyond a global phase)"))
    return per, len(circs)


def run(ctx):
    ctx.coq_props(extra_static=["Lin/ExactSim.vo"])
    quick = ctx.tier == "quick"
    n_drv, n_diff = (600, 280) if quick else (3000, 1200)
    t0 = time.time()
    out = ctx.run_impl("c17_impl.py", {"seed": ctx.seed, "tier": ctx.tier, "n_drv": n_drv, "n_diff": n_diff, "npreps": 2 if quick else 3}, timeout=3000)
    t1 = time.time()
    usable, skipped, hist = driver_layer(ctx, out["drivers"])
    t2 = time.time()
    per, nsim = diff_layer(ctx, out["diff"], 40 if quick else 220)
    ctx.notes.append(f"timing: impl {t1 - t0:.1f}s, driver tie {t2 - t1:.1f}s, exact differential {time.time() - t2:.1f}s")
    ctx.coverage.update({
        "evaluations": len(usable) + len(out["diff"]),
        "distinct_nontrivial": sum(h["changed"] for h in hist.values()) + sum(p["changed"] for p in per.values()),
        "rule": "driver tie: biased random coded circuits (inverse pairs, permuted wires, mergeable rotations, barriers, global phases, angles 0/±pi/2pi/±pi/2 and at the atol threshold, all options) compared gate-by-gate with the Coq model; differential: random circuits per pass through the real pass, exact Coq simulation of input and output on 2-3 preparations (or float unitaries when not exactly representable)",
        "driver_cases": hist, "driver_cases_outside_alphabet": skipped,
        "differential_runs": per, "exact_simulations": nsim,
        "input_distribution": {"driver_cases": len(usable), "differential_runs": len(out["diff"])},
    })
    for c in usable[19:21]:
        ctx.sample({"layer": "driver", "pass": c["pass"], "opts": c["opts"], "in": pretty(c["in"]), "out": c["out"] if c["out"] == "ERR" else pretty(c["out"])})
    for r in [x for x in out["diff"] if x["status"] == "ok" and x.get("changed")][12:15]:
        ctx.sample({"layer": "differential", "pass": r["pass"], "opts": r["opts"], "in": r["ops_in"], "out": r["ops_out"]})
