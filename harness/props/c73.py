"""C73 The execution tracker counts what was executed."""
from vlib import *

PID = "C73"
META = {
    "level": "proof",
    "technique": "Coq proof (invariants over all programs of tracker operations and device calls) on a Gallina "
                 "transcription of Tracker + simulator_tracking + get_num_shots_and_executions; vm_compute "
                 "correspondence against the real tracker driven through independently wrapped device entry points",
    "design_ref": "DESIGN.md §3 C73",
    "text": "Kernel-checked theorems (Props/C73.v), for ALL programs made of enter/exit/reset/update/record and device "
            "entry-point calls on arbitrary batches: every total equals the sum of the numeric history entries of its "
            "key and a key is totalled iff it has a numeric entry; history lists per key the values of all updates "
            "since the last reset in call order; device calls on an inactive tracker change nothing; reset/enter clear; "
            "executions = sum over tracked circuits of the notional execution count (+ batch length for the "
            "execute_and_* entry points); batches / derivative_batches / ... = number of calls of that entry point; "
            "simulations = number of tracked circuits; shots = sum of the per-circuit shot counts "
            "(total shots x executions-per-shot rule, a shot vector enters only through its total); the callback runs "
            "once per record with the then-current totals. Tie K: random programs (QNode calls with parameter-shift / "
            "adjoint / backprop / finite-diff, direct dev.execute / compute_derivatives / jvp / vjp calls, shot "
            "vectors, broadcasting, Hamiltonian/Sum observables, non-commuting measurement lists, shadows) are run on "
            "default.qubit and on a minimal integer-valued device; the entry points are wrapped on the instance to "
            "record the call sequence independently; the Coq model is evaluated on the recorded sequence and its "
            "totals/history/latest/callback log are compared with the real tracker's; get_num_shots_and_executions is "
            "additionally compared on its own on random tapes.",
    "note": "Trusted: Coq kernel; the hand transcription (coq/Disc/TrackerModel.v) is tied by correspondence only. "
            "Graph-colouring results (compute_partition_indices for Pauli measurements, group_observables for "
            "Pauli Sums) enter the model as recorded oracles; the model checks that the recorded partition is a "
            "partition into qubit-wise commuting groups but not that it is the one the heuristic must return. "
            "The abstraction circuit -> (shots, measurement descriptors, batch size) is computed by the driver with "
            "PennyLane's own is_pauli_word / simplify / isinstance tests. Float-valued `results` are compared by "
            "object identity in history and their running float sum is checked by a Python left fold, not in Coq "
            "(the integer device covers the numeric branch of update exactly). zip(strict=True) length mismatch "
            "between results and batch is not modelled. An execute call in which default.qubit itself raises is "
            "modelled as `no tracker access` (CExecuteFailed); on the integer device an exception can only come from "
            "the tracking loop (analytic shadow measurement -> TypeError) and the model predicts the partial bookkeeping. "
            "The count theorems (executions/batches/shots/...) are stated for `with Tracker(dev):` followed by device "
            "calls; for programs with resets and user updates the general statements are totals_are_sums and "
            "history_in_order. Other devices than default.qubit and the minimal test device are not exercised.",
    "assumptions": ["results returned by execute have the same length as the batch",
                    "keyword arguments of update are ints, bools, None or non-numeric objects (floats only via the Python fold oracle)"],
    "trusted": ["hand-written model coq/Disc/TrackerModel.v tied to /repo by correspondence only",
                "driver-side abstraction of tapes (harness/impl/c73_impl.py: abs_circuit) and recorded graph-colouring oracles"],
}

ENTRY = ["execute", "compute_derivatives", "execute_and_compute_derivatives", "compute_jvp",
         "execute_and_compute_jvp", "compute_vjp", "execute_and_compute_vjp"]
CTOR = {"execute": "CExecute", "compute_derivatives": "CDeriv", "execute_and_compute_derivatives": "CExecDeriv",
        "compute_jvp": "CJvp", "execute_and_compute_jvp": "CExecJvp", "compute_vjp": "CVjp",
        "execute_and_compute_vjp": "CExecVjp"}
BATCH_KEY = {"execute": 1, "compute_derivatives": 7, "execute_and_compute_derivatives": 9, "compute_jvp": 10,
             "execute_and_compute_jvp": 12, "compute_vjp": 13, "execute_and_compute_vjp": 15}


# ------------------------------------------------------------------ generators
def gen_pw(rng, allow_id=True):
    if allow_id and rng.random() < 0.06:
        return {"k": "pw", "w": [[rng.randint(0, 2), "I"]]}
    n = rng.choice([1, 1, 1, 2, 2, 3])
    ws = rng.sample([0, 1, 2], n)
    return {"k": "pw", "w": [[w, rng.choice("XYZ")] for w in sorted(ws)]}


def gen_ham(rng):
    n = rng.choice([1, 2, 3, 3, 4, 5])
    ts = [gen_pw(rng) for _ in range(n)]
    if n > 1 and rng.random() < 0.3:
        ts[rng.randrange(1, n)] = ts[0]          # repeated term (the `o in added_obs` branch)
    return {"k": "ham", "c": [rng.choice([1, 2, -1, 0.5, 3]) for _ in range(n)], "t": ts, "group": rng.random() < 0.3}


def gen_sum(rng):
    n = rng.choice([2, 2, 3, 4])
    pauli = rng.random() < 0.7
    ts = []
    for _ in range(n):
        r = rng.random()
        if pauli or r < 0.5:
            ts.append(gen_pw(rng) if r < 0.8 else {"k": "sprod", "c": rng.choice([2, -1, 0.5]), "o": gen_pw(rng, False)})
        else:
            ts.append({"k": rng.choice(["herm", "had"]), "w": rng.randint(0, 2)})
    return {"k": "sum", "t": ts, "group": pauli and rng.random() < 0.3}


def gen_obs(rng, simple=False):
    r = rng.random()
    if simple or r < 0.55:
        return gen_pw(rng)
    if r < 0.65:
        return {"k": rng.choice(["herm", "had"]), "w": rng.randint(0, 2)}
    if r < 0.80:
        return gen_ham(rng)
    if r < 0.92:
        return gen_sum(rng)
    return {"k": "sprod", "c": rng.choice([2, -1, 0.5]), "o": gen_pw(rng, False)}


def gen_meas(rng, finite, anything=False, bcast=False):
    r = rng.random()
    ws = sorted(rng.sample([0, 1, 2], rng.choice([1, 2, 3])))
    if anything or finite:
        if r < 0.50:
            return {"t": "expval", "obs": gen_obs(rng)}
        if r < 0.58:
            return {"t": "var", "obs": gen_pw(rng, False) if rng.random() < 0.7 else {"k": "herm", "w": rng.randint(0, 2)}}
        if r < 0.68:
            return {"t": "probs", "wires": ws}
        if r < 0.76:
            return {"t": "sample", "wires": ws}
        if r < 0.80:
            return {"t": "sample_obs", "obs": gen_pw(rng, False)}
        if r < 0.88:
            return {"t": "counts", "wires": ws}
        if bcast:
            return {"t": "expval", "obs": gen_pw(rng)}
        if r < 0.94:
            return {"t": "shadow", "wires": ws}
        return {"t": "shadow_expval", "obs": gen_pw(rng, False) if rng.random() < 0.5 else gen_ham(rng)}
    if r < 0.72:
        return {"t": "expval", "obs": gen_obs(rng)}
    if r < 0.84:
        return {"t": "var", "obs": gen_pw(rng, False) if rng.random() < 0.7 else {"k": "herm", "w": rng.randint(0, 2)}}
    return {"t": "probs", "wires": ws}


def gen_shots(rng):
    r = rng.random()
    if r < 0.33:
        return None
    if r < 0.63:
        return rng.choice([1, 2, 5, 10, 17, 100, rng.randint(1, 300)])
    n = rng.choice([2, 2, 3, 4])
    out = []
    for _ in range(n):
        s = rng.choice([1, 3, 5, 5, 8, rng.randint(1, 40)])
        out.append(s if rng.random() < 0.6 else [s, rng.randint(1, 3)])
    return out


def gen_result(rng):
    r = rng.random()
    if r < 0.65:
        return rng.randint(-5, 50)
    if r < 0.77:
        return rng.random() < 0.6          # bool: a numbers.Number
    if r < 0.88:
        return None
    return {"s": rng.randint(0, 5)}


def gen_circuit(rng, mode):
    shots = gen_shots(rng)
    anything = mode != "dq"
    bcast = rng.choice([2, 3, 4]) if rng.random() < 0.22 else 0
    n = rng.choice([1, 1, 1, 2, 2, 3, 4, 5])
    c = {"shots": shots, "nops": rng.randint(1, 5), "bcast": bcast,
         "meas": [gen_meas(rng, shots is not None, anything, bool(bcast) and not anything) for _ in range(n)]}
    if mode == "int":
        c["result"] = gen_result(rng)
    return c


def gen_deriv_circuit(rng):
    """analytic, expval-only: accepted by default.qubit's adjoint entry points"""
    n = rng.choice([1, 1, 2])
    return {"shots": None, "nops": rng.randint(1, 4), "bcast": 0,
            "meas": [{"t": "expval", "obs": gen_pw(rng, False)} for _ in range(n)]}


def gen_call(rng, mode):
    entry = "execute" if rng.random() < 0.6 else rng.choice(ENTRY[1:])
    single = rng.random() < 0.2
    n = 1 if single else rng.choice([0, 1, 1, 2, 2, 3, 4])
    if mode == "dq" and entry != "execute":
        n = max(n, 1) if entry in ("compute_jvp", "execute_and_compute_jvp", "compute_vjp", "execute_and_compute_vjp") else n
        cs = [gen_deriv_circuit(rng) for _ in range(n)]
    else:
        cs = [gen_circuit(rng, mode) for _ in range(n)]
    return {"op": "call", "entry": entry, "single": single, "circuits": cs}


def gen_qnode(rng):
    diff = rng.choice(["parameter-shift", "parameter-shift", "adjoint", "adjoint", "backprop", "finite-diff"])
    kw = {}
    shots = None
    if diff == "adjoint":
        kw = rng.choice([{}, {"device_vjp": True}, {"grad_on_execution": False}])
    if diff in ("parameter-shift", "finite-diff"):
        shots = gen_shots(rng)
        if isinstance(shots, int):
            shots = min(shots, 60)
    n = rng.choice([1, 1, 2, 3])
    meas = []
    for _ in range(n):
        if diff == "adjoint" or rng.random() < 0.7:
            meas.append({"t": "expval", "obs": gen_pw(rng, False)})
        else:
            meas.append({"t": "expval", "obs": gen_ham(rng)})
    grad = rng.random() < 0.65
    bcast = 0 if grad or diff == "adjoint" or rng.random() < 0.7 else rng.choice([2, 3])
    return {"op": "qnode", "diff": diff, "kw": kw, "shots": shots, "meas": meas, "grad": grad, "bcast": bcast}


def gen_update(rng):
    n = rng.choice([1, 1, 2, 3])
    keys = rng.sample([100, 101, 102, 103, 3, 5, 1], n)      # user keys and some of the standard ones
    kw = []
    for k in keys:
        r = rng.random()
        v = rng.randint(-9, 99) if r < 0.55 else (rng.random() < 0.5) if r < 0.7 else None if r < 0.85 else {"s": rng.randint(0, 5)}
        kw.append([k, v])
    return {"op": "update", "kw": kw}


def gen_scenario(rng, mode):
    steps = []
    active = False
    n = rng.choice([3, 4, 5, 6, 8]) if mode == "int" else rng.choice([2, 3, 4, 5])
    if rng.random() < 0.85:
        steps.append({"op": "enter"})
        active = True
    for _ in range(n):
        r = rng.random()
        if not active and r < 0.45:
            steps.append({"op": "enter"})
            active = True
        elif active and r < 0.10:
            steps.append({"op": "exit"})
            active = False
        elif r < 0.14:
            steps.append({"op": "reset"})
        elif r < 0.22:
            steps.append(gen_update(rng))
        elif r < 0.26:
            steps.append({"op": "record"})
        elif mode == "dq" and r < 0.50:
            steps.append(gen_qnode(rng))
        else:
            steps.append(gen_call(rng, mode))
    return {"mode": mode, "persistent": rng.random() < 0.35, "callback": rng.random() < 0.6, "steps": steps}


CORPUS = [
    # the documentation example: parameter-shift gradient with shots
    {"mode": "dq", "persistent": False, "callback": True, "steps": [
        {"op": "enter"},
        {"op": "qnode", "diff": "parameter-shift", "kw": {}, "shots": 100, "grad": True, "bcast": 0,
         "meas": [{"t": "expval", "obs": {"k": "pw", "w": [[0, "Z"]]}}]}, {"op": "exit"}]},
    # shot vector + non-commuting measurements + Hamiltonian: the shot vector must not multiply executions
    {"mode": "dq", "persistent": False, "callback": False, "steps": [
        {"op": "enter"},
        {"op": "call", "entry": "execute", "single": False, "circuits": [
            {"shots": [5, [5, 2], 7], "nops": 3, "bcast": 0, "meas": [
                {"t": "expval", "obs": {"k": "pw", "w": [[0, "X"]]}}, {"t": "expval", "obs": {"k": "pw", "w": [[0, "Z"]]}},
                {"t": "expval", "obs": {"k": "pw", "w": [[1, "Y"]]}}, {"t": "probs", "wires": [0]}]},
            {"shots": 10, "nops": 2, "bcast": 3, "meas": [
                {"t": "expval", "obs": {"k": "ham", "c": [1, 2, 0.5], "group": False,
                                        "t": [{"k": "pw", "w": [[0, "X"]]}, {"k": "pw", "w": [[1, "Z"]]}, {"k": "pw", "w": [[0, "X"], [1, "Z"]]}]}}]},
            {"shots": 6, "nops": 1, "bcast": 0, "meas": [{"t": "shadow", "wires": [0, 1]}, {"t": "expval", "obs": {"k": "pw", "w": [[0, "X"]]}}]}]},
        {"op": "exit"}]},
    # persistent tracker across two contexts, inactive calls in between, adjoint entry points
    {"mode": "dq", "persistent": True, "callback": True, "steps": [
        {"op": "enter"},
        {"op": "qnode", "diff": "adjoint", "kw": {}, "shots": None, "grad": True, "bcast": 0,
         "meas": [{"t": "expval", "obs": {"k": "pw", "w": [[0, "Z"], [1, "X"]]}}]},
        {"op": "exit"},
        {"op": "qnode", "diff": "backprop", "kw": {}, "shots": None, "grad": False, "bcast": 0,
         "meas": [{"t": "expval", "obs": {"k": "pw", "w": [[0, "Z"]]}}]},
        {"op": "enter"},
        {"op": "qnode", "diff": "adjoint", "kw": {"device_vjp": True}, "shots": None, "grad": True, "bcast": 0,
         "meas": [{"t": "expval", "obs": {"k": "pw", "w": [[0, "Z"]]}}]},
        {"op": "exit"}]},
    # integer device: bool / None / str results, analytic shadow (TypeError inside the tracking loop)
    {"mode": "int", "persistent": False, "callback": True, "steps": [
        {"op": "enter"},
        {"op": "call", "entry": "execute", "single": False, "circuits": [
            {"shots": 4, "nops": 1, "bcast": 0, "result": 7, "meas": [{"t": "expval", "obs": {"k": "pw", "w": [[0, "Z"]]}}]},
            {"shots": None, "nops": 1, "bcast": 0, "result": True, "meas": [{"t": "probs", "wires": [0]}]},
            {"shots": None, "nops": 1, "bcast": 0, "result": None, "meas": [{"t": "shadow", "wires": [0]}]},
            {"shots": 3, "nops": 1, "bcast": 0, "result": 9, "meas": [{"t": "probs", "wires": [0]}]}]},
        {"op": "update", "kw": [[100, 5], [101, True], [102, None], [103, {"s": 1}]]},
        {"op": "record"}, {"op": "exit"},
        {"op": "call", "entry": "execute", "single": True, "circuits": [
            {"shots": 4, "nops": 1, "bcast": 0, "result": 1, "meas": [{"t": "probs", "wires": [0]}]}]}]},
]


# ------------------------------------------------------------------ Gallina printers
def g_val(v):
    if v is None:
        return "VNone"
    if isinstance(v, dict):
        if "b" in v:
            return f"(VBool {gbool(v['b'])})"
        return f"(VTok {gz(v['t'])})"
    return f"(VInt {gz(v)})"


def g_kw(kw):
    return glist(kw, lambda p: f"({gz(p[0])}, {g_val(p[1])})")


def g_totals(t):
    return glist(t, lambda p: f"({gz(p[0])}, {gz(p[1]) if isinstance(p[1], int) and not isinstance(p[1], bool) else '(-777777)%Z'})")


def g_ti(t):
    terms = glist(t["terms"], lambda x: f"({gz(x[0])}, {gbool(x[1])}, {glist(x[2], gz)})")
    return f"(mkTI {gopt(t['grouping'], gz)} {gbool(t['pauli_rep'])} {terms} {gz(t['qwc'])})"


def g_obs(o):
    if o is None:
        return "None"
    pw = gopt(o["pw"], lambda w: glist(w, lambda p: f"({gz(p[0])}, {gz(p[1])})"))
    return f"(Some (mkO {pw} {gz(o['cls'])} {g_ti(o['ti'])}))"


def g_meas(m):
    return f"(mkM {gbool(m['shadow'])} {gbool(m['exp'])} {g_obs(m['raw'])} {g_obs(m['simp'])})"


def g_circuit(c):
    sh = "SNone" if c["shots"] is None else "(SSeq " + glist(c["shots"], lambda p: f"IPair {gz(p[0])} {gz(p[1])}") + ")"
    return (f"(mkC {sh} {glist(c['meas'], g_meas)} {glist(c['part'], lambda g: glist(g, gz))} "
            f"{gopt(c['batch'], gz)} {gz(c['res'])} {g_val(c['result'])})")


def g_op(o, mode):
    k = o["op"]
    if k == "enter":
        return "OEnter"
    if k == "exit":
        return "OExit"
    if k == "reset":
        return "OReset"
    if k == "record":
        return "ORecord"
    if k == "update":
        return f"(OUpdate {g_kw(o['kw'])})"
    if k == "call":
        if o["entry"] == "execute" and o["failed"] and mode == "dq":
            return "(OCall CExecuteFailed)"      # default.qubit itself raised: the wrapper never reaches the tracker
        a = f"(ASingle {g_circuit(o['circuits'][0])})" if o["single"] else f"(ABatch {glist(o['circuits'], g_circuit)})"
        return f"(OCall ({CTOR[o['entry']]} {a}))"
    return None


def g_case(case, ob):
    ops = [g_op(o, case["mode"]) for o in ob["ops"]]
    ops = [x for x in ops if x is not None]
    cb = glist(ob["cblog"], lambda e: f"({g_totals(e[0])}, {g_kw(e[1])})")
    hist = glist(ob["history"], lambda p: f"({gz(p[0])}, {glist(p[1], g_val)})")
    exp = f"({gbool(ob['active'])}, {g_totals(ob['totals'])}, {hist}, {g_kw(ob['latest'])}, {cb})"
    return f"(({gbool(case['persistent'])}, {gbool(case['callback'])}, {glist(ops)}), {exp})"


# ------------------------------------------------------------------ the property, evaluated directly
def direct_oracle(case, ob):
    """returns a list of complaints.  Uses only the independently recorded call sequence and the
    observed tracker state (no model): counts per entry point, circuits per call, totals = sum of history."""
    bad = []
    tot = {k: v for k, v in ob["totals"]}
    hist = {k: v for k, v in ob["history"]}
    # (a) totals are the sums of the numeric history entries
    for k, vs in hist.items():
        if case["mode"] == "dq" and k == 4:
            continue
        nums = [(1 if v["b"] else 0) if isinstance(v, dict) and "b" in v else v for v in vs
                if isinstance(v, int) or (isinstance(v, dict) and "b" in v)]
        if nums:
            if tot.get(k) != sum(nums):
                bad.append(f"total[{k}]={tot.get(k)} but history sums to {sum(nums)}")
        elif k in tot:
            bad.append(f"total[{k}] present without numeric history")
    if not ob["results_total_ok"]:
        bad.append("totals['results'] is not the running sum of the numeric results")
    # (b) counts per entry point, from the wrapped entry points
    cnt = {}
    clean = True
    active = False
    for o in ob["ops"]:
        k = o["op"]
        if k == "enter":
            active = True
            if not case["persistent"]:
                cnt = {}
        elif k == "exit":
            active = False
        elif k == "reset":
            cnt = {}
        elif k == "update":
            for kk, v in o["kw"]:
                if kk < 100:
                    clean = False            # user updates touch the standard keys: skip the count oracle
        elif k == "call":
            if o["active"] != active:
                bad.append("driver's notion of `active` differs from the tracker's")
            if not active:
                continue
            if o["entry"] == "execute":
                if o["failed"]:
                    if case["mode"] == "int":
                        clean = False        # exception inside the tracking loop: partial bookkeeping, left to the model
                    continue
                cnt[1] = cnt.get(1, 0) + 1
                cnt[2] = cnt.get(2, 0) + len(o["circuits"])
            else:
                bk = BATCH_KEY[o["entry"]]
                cnt[bk] = cnt.get(bk, 0) + 1
                n = len(o["circuits"])
                per = {7: 8, 9: 8, 10: 11, 12: 11, 13: 14, 15: 14}[bk]
                cnt[per] = cnt.get(per, 0) + n
    if clean:
        for k in (1, 2, 7, 8, 9, 10, 11, 12, 13, 14, 15):
            if tot.get(k, 0) != cnt.get(k, 0):
                bad.append(f"total[{k}]={tot.get(k, 0)} but the wrapped entry points counted {cnt.get(k, 0)}")
        if len(hist.get(3, [])) < len(hist.get(2, [])) or len(hist.get(4, [])) != cnt.get(2, 0) or len(hist.get(2, [])) != cnt.get(2, 0):
            bad.append("history lengths of simulations/results/executions disagree with the number of executed circuits")
    return bad


def run(ctx):
    ctx.coq_props()
    quick = ctx.tier == "quick"
    n_dq, n_int, n_nse = (90, 380, 700) if quick else (900, 4000, 8000)
    rng = ctx.rng
    cases = list(CORPUS)
    for _ in range(n_dq):
        cases.append(gen_scenario(rng, "dq"))
    for _ in range(n_int):
        cases.append(gen_scenario(rng, "int"))
    nse_cases = [{"mode": "nse", "circuit": gen_circuit(rng, "int")} for _ in range(n_nse)]
    # run the implementation in a few processes
    import concurrent.futures as cf
    allc = cases + nse_cases
    nproc = 6
    chunks = [allc[i::nproc] for i in range(nproc)]
    with cf.ThreadPoolExecutor(max_workers=nproc) as ex:
        outs = list(ex.map(lambda ch: ctx.run_impl("c73_impl.py", {"cases": ch}) if ch else [], chunks))
    obs = [None] * len(allc)
    for j, o in enumerate(outs):
        for i, r in enumerate(o):
            obs[j + i * nproc] = r
    sc_obs, nse_obs = obs[:len(cases)], obs[len(cases):]

    hdr = "From PLV Require Import Disc.ShotsModel Disc.TrackerModel."
    terms = [g_case(c, o) for c, o in zip(cases, sc_obs)]
    bad = ctx.coq_eval_cases("cases", hdr, terms, "check_case", chunk=60)
    nterms = [f"({g_circuit(o['circuit'])}, {gopt(o['nse'], lambda p: f'({gz(p[0])}, {gz(p[1])})')})" for o in nse_obs]
    nbad = ctx.coq_eval_cases("nse", hdr, nterms, "check_nse", chunk=300)

    hist = {"dq": 0, "int": 0, "device_calls": 0, "calls_while_inactive": 0, "circuits": 0, "qnode_steps": 0,
            "execute_failed_in_device": 0, "exception_in_tracking_loop": 0, "steps_raised": 0,
            "shot_vector_circuits": 0, "analytic_circuits": 0, "broadcast_circuits": 0, "multi_group_circuits": 0,
            "ham_or_sum_heads": 0, "callbacks": 0, "mid_program_resets": 0, "user_updates": 0,
            "numeric_float_results": 0}
    for e in ENTRY:
        hist["entry:" + e] = 0
    distinct = set()
    for c, o in zip(cases, sc_obs):
        hist[c["mode"]] += 1
        hist["callbacks"] += len(o["cblog"])
        hist["qnode_steps"] += sum(1 for s in c["steps"] if s["op"] == "qnode")
        hist["numeric_float_results"] += o["n_numeric_results"] if c["mode"] == "dq" else 0
        nontrivial = False
        for op in o["ops"]:
            if op["op"] == "raised":
                hist["steps_raised"] += 1
            if op["op"] == "reset":
                hist["mid_program_resets"] += 1
            if op["op"] == "update":
                hist["user_updates"] += 1
            if op["op"] != "call":
                continue
            hist["device_calls"] += 1
            hist["entry:" + op["entry"]] += 1
            if not op["active"]:
                hist["calls_while_inactive"] += 1
            if op["entry"] == "execute" and op["failed"]:
                hist["execute_failed_in_device" if c["mode"] == "dq" else "exception_in_tracking_loop"] += 1
            for cc in op["circuits"]:
                hist["circuits"] += 1
                if cc["shots"] is None:
                    hist["analytic_circuits"] += 1
                elif len(cc["shots"]) > 1 or cc["shots"][0][1] > 1:
                    hist["shot_vector_circuits"] += 1
                if cc["batch"]:
                    hist["broadcast_circuits"] += 1
                if len(cc["part"]) > 1 or (len(cc["meas"]) > 1 and any(m["simp"] is None or m["simp"]["pw"] is None for m in cc["meas"])):
                    hist["multi_group_circuits"] += 1
                if any(m["exp"] and m["raw"] and m["raw"]["cls"] > 0 for m in cc["meas"]):
                    hist["ham_or_sum_heads"] += 1
                if op["active"]:
                    nontrivial = True
        if nontrivial:
            distinct.add(json.dumps(o["ops"], sort_keys=True))
        for msg in direct_oracle(c, o):
            ctx.violation("direct:" + json.dumps(c, sort_keys=True), {"case": c, "observed": o, "complaint": msg},
                          what="tracker totals disagree with the independently counted device calls: " + msg)
    for i in bad:
        c, o = cases[i], sc_obs[i]
        ctx.violation("corr:" + json.dumps(c, sort_keys=True),
                      {"case": c, "recorded_program_and_observation": o, "gallina": terms[i]},
                      found_input=True, what="real tracker state differs from the proved model run on the recorded call sequence")
    for i in nbad:
        c, o = nse_cases[i], nse_obs[i]
        ctx.violation("nse:" + json.dumps(c, sort_keys=True), {"case": c, "observed": o, "gallina": nterms[i]},
                      found_input=True, what="get_num_shots_and_executions differs from the model (notional execution count)")
    nse_hist = {"raises": sum(1 for o in nse_obs if o["nse"] is None),
                "executions>1": sum(1 for o in nse_obs if o["nse"] and o["nse"][0] > 1),
                "shot_vectors": sum(1 for o in nse_obs if o["circuit"]["shots"] and (len(o["circuit"]["shots"]) > 1 or o["circuit"]["shots"][0][1] > 1))}
    ctx.coverage.update({"evaluations": len(cases) + len(nse_cases), "distinct_nontrivial": len(distinct),
                         "rule": "seeded generator of programs: enter/exit/reset/update/record, direct calls of all 7 entry points "
                                 "(bare tape or batch of 0-4 circuits), QNode calls (parameter-shift, adjoint x3 configurations, backprop, "
                                 "finite-diff; with/without qp.grad); circuits: shots None/int/vector, 1-5 measurements over "
                                 "Pauli words, Hermitian/Hadamard, Hamiltonian, Sum, SProd, probs/sample/counts/shadows, broadcasting; "
                                 "non-trivial = at least one circuit submitted while active; separate stream for get_num_shots_and_executions",
                         "input_distribution": hist, "nse_stream": nse_hist})
    for c, o in list(zip(cases, sc_obs))[:3]:
        ctx.sample({"case": c, "totals": o["totals"], "history_keys": [h[0] for h in o["history"]],
                    "calls": [(p.get("entry"), len(p.get("circuits", []))) for p in o["ops"] if p["op"] == "call"]})
