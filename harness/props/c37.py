"""C37 Higher-order derivatives are correct."""
from vlib import *
from concurrent.futures import ThreadPoolExecutor
import hashlib

PID = "C37"
META = {
    "level": "proof",
    "engine": "qsym-translator",
    "technique": "Coq proof that iterating the formal derivative of exact expectation polynomials gives the iterated analytic partial derivative + per-run reflection obligations (real param_shift_hessian executed on formal parameters) that its tapes and coefficients give the second derivative for all parameter values; nested max_diff=2 differentiation of QNodes compared numerically with the certified second-derivative polynomials",
    "design_ref": "DESIGN.md §3 C37",
    "text": "Static (Props/C37.v): second_formal_derivative_is_second_derivative, hessian_tapes_give_the_second_derivative (a discharged hess_rule_ok obligation means: the linear combination of the tapes' exact expectation values is d/dtheta_j of the certified d/dtheta_k of the circuit's expectation value, at every real parameter vector), formal_hessian_symmetric. Per run: random circuits with 1-4 trainable gate parameters (2- and 4-term-rule gates, fixed Clifford+T/Pythagorean gates; expval of Pauli words/Hamiltonians, probs) are built with formal parameters and pushed through the real qp.gradients.param_shift_hessian; its tapes (shifts as emitted, rounded pi-multiples identified with the exact ones) are translated with PennyLane's own matrix code, the post-processing's coefficient matrix is read off with one-hot results (linearity verified), and one obligation per (component, j, k) incl. diagonal and off-diagonal recipes and the unshifted term is proved by vm_compute; E, dE and ddE polynomials are certified by expval_is/deriv_is obligations. Part B (numeric, 1e-7/1e-6): param_shift_hessian on numeric tapes; qp.jacobian(qp.jacobian) / jax.jacobian^2 (+jit) / torch nested jacobians of QNodes with max_diff=2 under parameter-shift and backprop, with QNode arguments shared between gates and classical preprocessing (second-order chain rule in the reference).",
    "note": "Each obligation is universal in the parameters but only for the circuits sampled in the run. The autodiff nesting glue of the interfaces is validated numerically, not proved. Shifts rounded to 10 decimals by the implementation are identified with exact multiples of pi (2e-10 tolerance) in the translator. Trusted: Coq kernel, stdlib real axioms + classic (Coquelicot), translator, float evaluation of certified polynomials.",
    "assumptions": ["post-processing of param_shift_hessian is linear in the tape results (verified numerically per run)"],
    "trusted": ["harness/gradlib.py, harness/gradgen.py, harness/qx.py, harness/qsym.py (translator)", "harness/gradcfg.py float evaluation"],
}

CORPUS = [
    {"nw": 2, "nx": 2, "steps": [{"name": "RX", "wires": [0], "params": [["lin", 0, 1, 0]]}, {"name": "RY", "wires": [1], "params": [["lin", 1, 1, 0]]},
                                  {"name": "CNOT", "wires": [0, 1], "params": []}, {"name": "RZ", "wires": [1], "params": [["lin", 0, 2, 0]]},
                                  {"name": "Hadamard", "wires": [0], "params": []}],
     "meas": [{"k": "expval", "word": ["Z", "X"], "wires": [0, 1]}]},
    {"nw": 2, "nx": 2, "steps": [{"name": "RY", "wires": [0], "params": [["sin", 0]]}, {"name": "CRX", "wires": [0, 1], "params": [["prod", 0, 1]]},
                                  {"name": "RY", "wires": [0], "params": [["sq", 0]]}],
     "meas": [{"k": "expval", "word": ["Y"], "wires": [1]}, {"k": "probs", "wires": [0]}]},
    # mixed second derivatives INSIDE one multi-parameter gate (two shifts land on the same operation)
    {"nw": 2, "nx": 4, "steps": [{"name": "RY", "wires": [0], "params": [["fix", 0.9272952180016122]]},
                                  {"name": "Rot", "wires": [0], "params": [["lin", 0, 1, 0], ["lin", 1, 1, 0], ["lin", 2, 1, 0]]},
                                  {"name": "CNOT", "wires": [0, 1], "params": []}, {"name": "RX", "wires": [1], "params": [["lin", 3, 1, 0]]}],
     "meas": [{"k": "expval", "word": ["X", "Z"], "wires": [0, 1]}]},
    {"nw": 2, "nx": 3, "steps": [{"name": "Hadamard", "wires": [1], "params": []}, {"name": "U3", "wires": [1], "params": [["lin", 0, 1, 0], ["lin", 1, 1, 0], ["fix", 0.7853981633974483]]},
                                  {"name": "CRY", "wires": [1, 0], "params": [["lin", 2, 1, 0]]}],
     "meas": [{"k": "expval", "word": ["Z"], "wires": [0]}, {"k": "expval", "word": ["Y"], "wires": [1]}]},
]


def run(ctx):
    from gradlib import GRAD_HEADER
    ctx.coq_props()
    quick = ctx.tier == "quick"
    n_circ, n_proof = (8, 6) if quick else (50, 30)
    A = ctx.run_impl("c37_impl.py", {"seed": ctx.seed, "n_circ": n_circ, "n_proof": n_proof, "corpus": CORPUS}, timeout=3000)
    obl = [(n, s, "vm_compute. reflexivity.") for n, s, ci in A["obligations"]]
    ci_of = {n: ci for n, s, ci in A["obligations"]}
    failed = ctx.coq_obligations("hess", GRAD_HEADER, obl, chunk=5, par=10)
    NW = 4 if quick else 8
    jobs = [[] for _ in range(NW)]
    nested_all = [[i, d] for i in ["autograd", "jax", "jax-jit", "torch"] for d in ["parameter-shift", "backprop"]]
    for si, item in enumerate(A["specs"]):
        item = dict(item, si=si)
        if si < len(CORPUS) or not quick:
            for a in range(NW):
                jobs[a].append(dict(item, nested=nested_all[a::NW], transform=(a == 0)))
        else:
            jobs[si % NW].append(dict(item, nested=[nested_all[(si + k) % len(nested_all)] for k in (0, 3)]))
    jobs = [j for j in jobs if j]

    def one(job):
        return ctx.run_impl("c37_cfg_impl.py", {"seed": ctx.seed, "specs": job}, timeout=3000)
    stats, results = {}, []
    with ThreadPoolExecutor(max_workers=NW) as ex:
        for o in ex.map(one, jobs):
            results += o["results"]
            for k, v in o["stats"].items():
                d = stats.setdefault(k, {})
                for kk, vv in v.items():
                    d[kk] = d.get(kk, 0) + vv
    bad_si = {}
    for r in results:
        spec = A["specs"][r["si"]]["spec"]
        h = hashlib.sha1(json.dumps(spec, sort_keys=True).encode()).hexdigest()[:10]
        bad_si.setdefault(r["si"], r)
        ctx.violation(f"hess:{r['config']}:{h}", {"config": r["config"], "spec": spec, "x": r["x"], "result": r["result"]},
                      what=f"{r['config']} returns second derivatives different from the true ones ({r['result']['status']})")
    for name, detail in failed:
        ci = ci_of.get(name)
        if ci is None:
            ctx.broken_obligation("coq", name, detail)
            continue
        spec = A["specs"][ci]["spec"] if ci < len(A["specs"]) else None
        wit = bad_si.get(ci)
        ctx.violation(f"hess-obligation:{name.split('_', 1)[1].split('_m')[0]}:{hashlib.sha1(json.dumps(spec, sort_keys=True).encode()).hexdigest()[:10]}",
                      {"obligation": name, "spec": spec, "numeric_witness": wit, "no_longer_checks": None if wit else "Coq obligation " + name, "detail": detail[-400:]},
                      found_input=bool(wit), what=f"param_shift_hessian tapes/coefficients do not give the second derivative (obligation {name})")
    acc = {k: v for k, v in stats.items() if not k.startswith("_")}
    n_ok = sum(v.get("ok", 0) for v in acc.values())
    if n_ok == 0 or not obl or not A["stats"]["variants"].get("hess:ok"):
        ctx.broken_obligation("tie", "c37", "no Hessian obligations generated / no configuration accepted any circuit: " + json.dumps(A["stats"]))
    ctx.coverage.update({"evaluations": n_ok + len(obl), "distinct_nontrivial": len(obl),
                         "rule": "obligations: one per (circuit, measurement component, j, k), universal in the parameters; Part B per circuit",
                         "circuits": A["stats"]["circuits"], "not_extractable": A["stats"]["notex"], "extraction": A["stats"]["variants"],
                         "config_outcomes": acc, "reject_reasons": stats.get("_reject_reasons", {}), "obligations_failed": len(failed)})
    for it in A["specs"][len(CORPUS):len(CORPUS) + 2]:
        ctx.sample({"spec": it["spec"]})
