"""C02 Named gates implement their documented unitaries."""
from vlib import *

PID = "C02"
META = {
    "level": "proof",
    "engine": "qsym-translator",
    "technique": "Coq reflection proofs (exact Laurent-polynomial matrices; vm_compute + EvalHom soundness) that each gate matrix extracted from /repo by symbolic execution equals an independently hand-written table of the documented formulas, and is unitary; static theorems tie the table's symbols to cos/sin/exp over the reals",
    "design_ref": "DESIGN.md §3 C02",
    "text": "coq/Tab/GateTable.v is a reference table of 62 named gates written by hand from the class docstrings (independently of compute_matrix) with symbols c j = cos(theta_j/2), s j = sin(theta_j/2), pexp = exp(i q theta_j), proved to denote those real functions (cos_half_symbol, sin_half_symbol, phase_symbol). On every run compute_matrix of each gate is executed on formal parameters and Coq proves (kernel-checked) that the extracted matrix equals the table entry and that it is unitary, hence for ALL real parameter values (gate_matches_doc_forall, gate_unitary_forall). The broadcast kernel is checked entrywise on a batch of formal variables. The wire convention (first listed wire = most significant bit) is a theorem about the semantics (first_wire_is_most_significant) and is checked numerically on qp.matrix(op, wire_order) for each gate.",
    "note": "Trusted: Coq kernel + stdlib real axioms; translator qsym/qx (spot-checked numerically); the hand transcription of the docstrings in GateTable.v (a docstring/implementation sign disagreement for DoubleExcitationPlus/Minus found this way was repaired in the docstrings by a fix: commit); variable-arity gates (MultiRZ, PauliRot, MultiControlledX) at the listed sizes only.",
    "assumptions": [], "trusted": ["coq/Tab/GateTable.v (documented formulas, hand-written)", "translator harness/qsym.py, qx.py"],
}
HEADER = """From Coq Require Import List ZArith QArith Bool String.
From PLV Require Import Alg.Poly Lin.Vec Lin.PVec Tab.GateTable.
Import ListNotations.
Open Scope Q_scope.
Open Scope string_scope.
Open Scope list_scope.
"""


def run(ctx):
    ctx.coq_props()
    out = ctx.run_impl("c02_impl.py", {"tier": ctx.tier, "seed": ctx.seed, "outdir": str(ctx.gen_dir)}, timeout=1800)
    items = out["items"]
    obl = json.loads((ctx.gen_dir / "obligations.json").read_text())
    failed = ctx.coq_obligations("gates", HEADER, [(o["name"], o["stmt"], "vm_compute. reflexivity.") for o in obl], chunk=16)
    by = {o["name"]: o for o in obl}
    for name, detail in failed:
        o = by.get(name)
        if o is None:
            ctx.broken_obligation("coq", name, detail); continue
        r = ctx.run_impl("c02_search.py", {"key": o["key"], "kind": o["kind"], "seed": ctx.seed})
        wit = r.get("witness")
        ctx.violation(f"gate:{o['key']}:{o['kind']}", {"gate": o["key"], "claim": o["kind"], "witness": wit, "obligation": name},
                      found_input=bool(wit), what=f"{o['key']}: {o['kind']} obligation fails (matrix differs from documented formula / not unitary / broadcast mismatch)")
    for i in items:
        if i.get("numeric_fail"):
            ctx.violation(f"gate:{i['key']}:numeric", {"gate": i["key"], "witness": i["numeric_fail"]}, what=f"{i['key']}: {i['numeric_fail']['detail']}")
        if i["status"] != "ok":
            ctx.violation(f"tie:{i['key']}", {"gate": i["key"], "detail": i["detail"], "no_longer_checks": "symbolic extraction of this gate's matrix"},
                          found_input=False, what=f"matrix of {i['key']} can no longer be extracted ({i['status']})")
    ctx.coverage.update({"evaluations": len(items), "distinct_nontrivial": len({o["key"] for o in obl}),
                         "rule": "every key of the documented gate table; obligations: equals documentation, unitary, broadcast kernel; universal in the parameters",
                         "kinds": {k: sum(1 for o in obl if o["kind"] == k) for k in ("doc", "unitary", "broadcast")}})
    for i in items[:60:25]:
        ctx.sample({"gate": i["key"], "status": i["status"], "obligations": len(i.get("oblig", []))})
