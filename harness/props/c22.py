"""C22 Dynamic wire allocation never aliases live wires."""
from vlib import *

PID = "C22"
META = {
    "level": "proof",
    "technique": "Coq invariant proof (induction over the op stream) on a hand-written Gallina model of _WireManager/_new_ops with ghost |0>-flags + vm_compute correspondence against qp.transforms.resolve_dynamic_wires and device_resolve_dynamic_wires + replay oracle and default.qubit comparison on the implementation output",
    "design_ref": "DESIGN.md §3 C22",
    "text": "Kernel-checked theorems (Props/C22.v) for ALL op streams and all registers meeting the boolean precondition pre_ok (registers duplicate free, static labels not handed to the allocator, min_int above every label in use): registers/loans stay disjoint and duplicate free, wire_map is injective on live dynamic wires after every step, every concrete wire handed out comes from zeroed ∪ any_state ∪ [min_int,∞) and is never a static label, and whenever state=ZERO is requested the ghost flag of the wire handed out is Zero (from the zeroed register, a fresh label, or after the emitted reset). The model is tied to /repo on every run: the emitted op sequence (gate code + concrete wires, resets, measurement wires) and Ok/Err are compared with the model evaluated in Coq on the same random histories; the implementation output is additionally replayed (no two live dynamic wires on one concrete wire, none on a static wire, zero-requested wires Zero at first use) and, for zero-state-only programs with honest restored promises, executed on default.qubit against a fresh-wire version (1e-9).",
    "note": "Trusted: Coq kernel; the hand transcription of transforms/resolve_dynamic_wires.py and devices/preprocess.py:device_resolve_dynamic_wires is tied by correspondence only. The clause 'same results as a fresh wire per allocation' is NOT a Coq theorem: there is no quantum semantics in the model; it is covered (a) structurally by the ghost-flag theorem zero_on_request + no_alias + never_on_static and (b) by the numeric default.qubit comparison on generated zero-state programs only (state='any' allocations have no determined reference result). Ghost rules are modelling assumptions: a gate leaves its wires Unknown, an emitted measure(reset=True) leaves Zero, labels in `zeroed` and integer labels >= min_int start Zero, and deallocation with restored=True returns the wire to its flag at allocation (the user's contract, not checked). Wire labels are integers only; Allocate/Deallocate are only applied to DynamicWire objects; exception types are collapsed to Ok/Err.",
    "assumptions": ["restored=True is an unchecked user promise; the ghost flag trusts it",
                    "wire labels are Python ints (string labels, bool/float label coercions not modelled)",
                    "Allocate/Deallocate act on DynamicWire objects only; gates have pairwise distinct wires before mapping",
                    "result equivalence with fresh wires is checked numerically for zero-state-only generated programs, not proved"],
    "trusted": ["hand-written model coq/Disc/WireManagerModel.v tied to /repo by correspondence only",
                "ghost-flag update rules (gate => Unknown, reset => Zero, restored scope exit => flag at allocation)",
                "default.qubit as executor of the resolved and the fresh-wire circuits in the semantic comparison"],
}

ARITY = {0: 1, 1: 1, 2: 1, 3: 2, 4: 2, 5: 3}     # code 6 = MultiRZ on any number >= 1 of wires
REG_POOL = [10, 11, 12, 13, 14, 15, 16]


# ------------------------------------------------------------------ generators
def gen_gate(rng, statics, live, prefer_dyn=True):
    pool = [["s", s] for s in statics] + [["d", d] for d in live]
    code = rng.choice([0, 1, 2, 3, 3, 4, 5, 6])
    k = ARITY.get(code, rng.randint(1, 3))
    if k > len(pool):
        code, k = rng.choice([0, 1, 2]), 1
    ws = rng.sample(pool, k)
    if prefer_dyn and live and rng.random() < 0.7 and not any(w[0] == "d" for w in ws):
        ws[rng.randrange(k)] = ["d", rng.choice(live)]
    return {"k": "g", "c": code, "ws": ws}


def gen_cfg(rng, statics, valid):
    if rng.random() < 0.2:
        r = rng.random()
        if r < 0.4:
            dw = None
        elif r < 0.5:
            dw = []
        else:
            extra = rng.sample(REG_POOL, rng.randint(0, 4))
            dw = list(statics) + extra if rng.random() < 0.8 else rng.sample(statics, rng.randint(0, len(statics))) + extra
            rng.shuffle(dw)
        return {"kind": "device", "dw": dw, "ar": rng.random() < 0.6}
    nz = rng.choice([0, 0, 1, 1, 2, 3])
    na = rng.choice([0, 0, 0, 1, 1, 2])
    regs = rng.sample(REG_POOL, nz + na)
    z, a = regs[:nz], regs[nz:]
    mi = None if rng.random() < 0.25 else rng.choice([17, 20, 20, 25])
    if nz + na == 0 and mi is None and rng.random() < 0.8:
        mi = 20
    if not valid:
        r = rng.random()
        if r < 0.35 and statics:
            (z if rng.random() < 0.5 else a).insert(rng.randint(0, 1), rng.choice(statics))   # static label handed out
        elif r < 0.6 and (z or a):
            (z if rng.random() < 0.5 else a).append(rng.choice(z + a))                          # duplicate label
        else:
            mi = rng.choice([0, 2, 11, 13])                                                    # min_int inside used labels
    return {"kind": "direct", "z": z, "a": a, "mi": mi, "ar": rng.random() < 0.6}


def gen_history(rng, valid=True):
    statics = list(range(rng.randint(1, 4)))
    cfg = gen_cfg(rng, statics, valid or rng.random() < 0.5)
    prog, live, groups, dead, nid = [], [], [], [], 0
    for _ in range(rng.randint(1, 4)):
        prog.append(gen_gate(rng, statics, []))
    for _ in range(rng.randint(3, 22)):
        r = rng.random()
        if r < 0.28:
            k = rng.choice([1, 1, 1, 2, 2, 3]) if rng.random() > 0.03 else 0
            ds = list(range(nid, nid + k)); nid += k
            prog.append({"k": "a", "ds": ds, "s": 0 if rng.random() < 0.6 else 1, "r": rng.random() < 0.4})
            live += ds
            if ds:
                groups.append(ds)
        elif r < 0.5 and live:
            if rng.random() < 0.6:
                ds = [d for d in groups.pop() if d in live]          # LIFO scope exit
            else:
                ds = rng.sample(live, rng.randint(1, len(live)))      # manual deallocation in any order
            if rng.random() < 0.3:
                ds = ds[::-1]
            if ds:
                prog.append({"k": "d", "ds": ds})
                live = [d for d in live if d not in ds]; dead += ds
        else:
            prog.append(gen_gate(rng, statics, live))
    if live and rng.random() < 0.7:
        prog.append({"k": "d", "ds": live[::-1]}); dead += live; live = []
    meas = [[["s", s] for s in rng.sample(statics, rng.randint(1, len(statics)))]]
    if live and rng.random() < 0.3:
        meas.append([["d", rng.choice(live)]])
    malformed = None
    if not valid:
        malformed = rng.choice(["use_after_free", "dealloc_dead", "double_alloc", "realloc_dead", "magic",
                                "never_allocated", "meas_dead", "cfg_only", "cfg_only"])
        pos = rng.randint(0, len(prog))
        if malformed == "use_after_free" and dead:
            d = rng.choice(dead)
            idx = max(i for i, o in enumerate(prog) if o["k"] == "d" and d in o["ds"])
            prog.insert(rng.randint(idx + 1, len(prog)), {"k": "g", "c": 3, "ws": [["s", statics[0]], ["d", d]]})
        elif malformed == "dealloc_dead":
            prog.insert(pos, {"k": "d", "ds": [rng.choice(dead) if dead and rng.random() < 0.6 else nid + 5]})
        elif malformed == "double_alloc" and nid:
            prog.insert(pos, {"k": "a", "ds": [rng.randrange(nid)], "s": rng.choice([0, 1]), "r": rng.random() < 0.5})
        elif malformed == "realloc_dead" and dead:
            d = rng.choice(dead)
            prog += [{"k": "a", "ds": [d], "s": 0, "r": False}, {"k": "g", "c": 1, "ws": [["d", d]]}]
        elif malformed == "magic":
            prog.insert(pos, {"k": "a", "ds": [nid] if rng.random() < 0.7 else [], "s": rng.choice([2, 3]), "r": False})
        elif malformed == "never_allocated":
            prog.insert(pos, {"k": "g", "c": 0, "ws": [["d", nid + 7]]})
        elif malformed == "meas_dead" and dead:
            meas.append([["d", rng.choice(dead)]])
    return {"cfg": cfg, "prog": prog, "meas": meas, "sem": False, "valid": bool(valid), "malformed": malformed}


def gen_sem(rng):
    """zero-state allocations only; restored=True scopes are honest compute/use/uncompute blocks"""
    statics = [0, 1, 2]
    nz, na = rng.choice([0, 0, 1, 2]), rng.choice([0, 0, 1])
    regs = rng.sample(REG_POOL, nz + na)
    cfg = {"kind": "direct", "z": regs[:nz], "a": regs[nz:], "mi": 20, "ar": rng.random() < 0.7}
    if rng.random() < 0.2:
        cfg = {"kind": "device", "dw": rng.choice([None, [0, 1, 2, 10, 11, 12, 13, 14, 15]]), "ar": True}
    prog = [{"k": "g", "c": 0, "ws": [["s", s]]} for s in statics]
    for _ in range(2):
        code = rng.choice([2, 3, 4])
        prog.append({"k": "g", "c": code, "ws": [["s", s] for s in rng.sample(statics, 1 if code == 2 else 2)]})
    live, groups, nid, nalloc = [], [], 0, 0
    for _ in range(rng.randint(4, 14)):
        r = rng.random()
        if r < 0.3 and nalloc < 5:
            if rng.random() < 0.45:       # honest restored=True ancilla: compute, use as control, uncompute
                d = nid; nid += 1; nalloc += 1
                comp, ctrls = [], set()
                for _ in range(rng.randint(1, 3)):
                    t = rng.random()
                    if t < 0.2:
                        comp.append({"k": "g", "c": 1, "ws": [["d", d]]})
                    elif t < 0.7:
                        s = rng.choice(statics); ctrls.add(s)
                        comp.append({"k": "g", "c": 3, "ws": [["s", s], ["d", d]]})
                    else:
                        s1, s2 = rng.sample(statics, 2); ctrls |= {s1, s2}
                        comp.append({"k": "g", "c": 5, "ws": [["s", s1], ["s", s2], ["d", d]]})
                use = []
                for _ in range(rng.randint(0, 3)):
                    free = [s for s in statics if s not in ctrls]
                    t = rng.random()
                    if t < 0.4 and free:
                        use.append({"k": "g", "c": 3, "ws": [["d", d], ["s", rng.choice(free)]]})
                    elif t < 0.7:
                        use.append({"k": "g", "c": 4, "ws": [["d", d], ["s", rng.choice(statics)]]})
                    else:
                        use.append({"k": "g", "c": 2, "ws": [["s", rng.choice(statics)]]})
                prog += [{"k": "a", "ds": [d], "s": 0, "r": True}] + comp + use + comp[::-1] + [{"k": "d", "ds": [d]}]
            else:
                k = rng.choice([1, 1, 2]); k = min(k, 5 - nalloc)
                ds = list(range(nid, nid + k)); nid += k; nalloc += k
                prog.append({"k": "a", "ds": ds, "s": 0, "r": False}); live += ds; groups.append(ds)
        elif r < 0.5 and live:
            ds = [d for d in groups.pop() if d in live] if rng.random() < 0.6 else rng.sample(live, rng.randint(1, len(live)))
            if ds:
                prog.append({"k": "d", "ds": ds}); live = [d for d in live if d not in ds]
        else:
            prog.append(gen_gate(rng, statics, live))
    if live:
        prog.append({"k": "d", "ds": live[::-1]})
    return {"cfg": cfg, "prog": prog, "meas": [[["s", s] for s in statics]], "sem": True, "valid": True, "malformed": None}


# ------------------------------------------------------------------ Gallina printers
def g_wire(w):
    return f"{'St' if w[0] == 's' else 'Dy'} {gz(w[1])}"


def g_op(o):
    if o["k"] == "a":
        return f"Alloc {glist(o['ds'], gz)} {['AZero', 'AAny', 'AMagic', 'AMagic'][o['s']]} {gbool(o['r'])}"
    if o["k"] == "d":
        return f"Dealloc {glist(o['ds'], gz)}"
    return f"Gate {gz(o['c'])} {glist(o['ws'], g_wire)}"


def g_cfg(c):
    if c["kind"] == "direct":
        return f"Direct {glist(c['z'], gz)} {glist(c['a'], gz)} {gopt(c['mi'], gz)} {gbool(c['ar'])}"
    return f"Device {gopt(c['dw'], lambda l: glist(l, gz))} {gbool(c['ar'])}"


def g_obs(o):
    if o == "ERR":
        return "None"
    ops = glist(o["ops"], lambda p: f"({gz(p[0])}, {glist(p[1], g_wire)})")
    ms = glist(o["meas"], lambda m: glist(m, g_wire))
    return f"(Some ({ops}, {ms}))"


def g_case(c, o):
    return f"(({g_cfg(c['cfg'])}, {glist(c['prog'], g_op)}, {glist(c['meas'], lambda m: glist(m, g_wire))}), {g_obs(o)})"


# ------------------------------------------------------------------ direct oracle on the implementation output
def statics_of(c):
    s = set()
    for o in c["prog"]:
        if o["k"] == "g":
            s |= {w[1] for w in o["ws"] if w[0] == "s"}
    for m in c["meas"]:
        s |= {w[1] for w in m if w[0] == "s"}
    return s


def setup_of(c):
    """(zero-at-start labels, allowed(c) predicate, handed-to-allocator labels) as the documentation states them"""
    cfg, st = c["cfg"], statics_of(c)
    if cfg["kind"] == "direct":
        z, a, mi = cfg["z"], cfg["a"], cfg["mi"]
        return set(z), (lambda w: w in z or w in a or (mi is not None and w >= mi)), set(z) | set(a), mi
    if cfg["dw"]:
        z = [w for w in cfg["dw"] if w not in st]
        return set(z), (lambda w: w in z), set(), None
    mi = max(st, default=-1) + 1
    return set(), (lambda w: w >= mi), set(), mi


def pre_holds(c):
    cfg, st = c["cfg"], statics_of(c)
    if cfg["kind"] != "direct":
        return True
    regs, mi = cfg["z"] + cfg["a"], cfg["mi"]
    return (len(set(regs)) == len(regs) and not (st & set(regs))
            and (mi is None or all(w < mi for w in list(st) + regs)))


def direct_oracle(c, o):
    """replay input and emitted stream in lockstep; returns None or a description of the violated clause"""
    if o == "ERR" or not c["valid"]:
        return None
    if any(p[0] in (-2, -3) for p in o["ops"]):     # input tape returned unchanged (nothing was allocated)
        return None
    zero0, allowed, handed, mi = setup_of(c)
    st = statics_of(c)
    flags = {}

    def flag(w):
        return flags.get(w, "Z" if (w in zero0 or (mi is not None and w >= mi)) else "U")
    live, out, j, pending = {}, o["ops"], 0, set()
    for op in c["prog"]:
        if op["k"] == "a":
            for d in op["ds"]:
                live[d] = {"s": op["s"], "r": op["r"], "c": None, "f": None}
            # resets of this and of directly following allocations (no gate in between) arrive together; one that
            # really belongs to a later allocation of a wire whose holder is still live is kept across that
            # holder's deallocation (`pending`)
            while j < len(out) and out[j][0] == -1:
                flags[out[j][1][0][1]] = "Z"; pending.add(out[j][1][0][1]); j += 1
        elif op["k"] == "d":
            for d in op["ds"]:
                info = live.pop(d)
                if info["c"] is not None and info["r"] and info["c"] not in pending:
                    flags[info["c"]] = info["f"]
        else:
            if j >= len(out) or out[j][0] != op["c"] or len(out[j][1]) != len(op["ws"]):
                return f"emitted stream does not follow the input at op {j}"
            for win, wout in zip(op["ws"], out[j][1]):
                if win[0] == "s":
                    if wout != win:
                        return "static wire changed"
                    continue
                if wout[0] != "s":
                    return "live dynamic wire left unresolved"
                info, cw = live[win[1]], wout[1]
                if info["c"] is None:
                    others = [d for d, i in live.items() if i["c"] == cw]
                    if others:
                        return f"dynamic wires {others + [win[1]]} are live together on concrete wire {cw}"
                    if cw in st and cw not in handed:
                        return f"dynamic wire placed on static wire {cw} that was not handed to the allocator"
                    if not allowed(cw):
                        return f"dynamic wire placed on {cw}, outside zeroed/any_state/[min_int,oo)"
                    if info["s"] == 0 and flag(cw) != "Z":
                        return f"wire {cw} requested in state zero is not known to be |0> when first used"
                    info["c"], info["f"] = cw, flag(cw)
                elif info["c"] != cw:
                    return "mapping of a live dynamic wire changed"
            for wout in out[j][1]:
                flags[wout[1]] = "U"; pending.discard(wout[1])
            j += 1
    if j != len(out):
        return "extra emitted operations"
    return None


# ------------------------------------------------------------------ corpus
def G(c, *ws):
    return {"k": "g", "c": c, "ws": [["d", w[1]] if isinstance(w, tuple) else ["s", w] for w in ws]}


def A(ds, s=0, r=False):
    return {"k": "a", "ds": ds, "s": s, "r": r}


def D(ds):
    return {"k": "d", "ds": ds}


def direct(z=(), a=(), mi=None, ar=True):
    return {"kind": "direct", "z": list(z), "a": list(a), "mi": mi, "ar": ar}


def case(cfg, prog, meas=((0,),), sem=False, valid=True):
    return {"cfg": cfg, "prog": prog, "meas": [[["s", w] for w in m] for m in meas], "sem": sem, "valid": valid,
            "malformed": None}


d0, d1, d2 = ("d", 0), ("d", 1), ("d", 2)
TWO = [G(0, 0), A([0]), G(1, d0), D([0]), A([1]), G(3, 0, d1), D([1])]
CORPUS = [
    case(direct(z=[10, 11]), TWO, sem=True), case(direct(z=[10]), TWO, sem=True),
    case(direct(z=[10], ar=False), TWO), case(direct(a=[10, 11]), TWO, sem=True),
    case(direct(mi=1), TWO, sem=True), case(direct(z=[10], mi=11), [A([0]), G(1, d0), D([0]), A([1, 2, 3]), G(5, ("d", 1), ("d", 2), ("d", 3)), D([1, 2, 3])]),
    case(direct(mi=3, ar=False), TWO, sem=True),
    case(direct(z=[10], a=[11]), [A([0], 1, True), G(1, d0), D([0]), A([1], 0, True), G(3, 0, d1), D([1]), A([2], 0), G(1, d2)]),
    case(direct(a=[11], mi=20, ar=False), [A([0], 0, True), G(3, 0, d0), G(3, 0, d0), D([0]), A([1], 1), A([2], 0), G(3, d1, d2)]),
    case(direct(z=[10]), [A([0]), D([0]), G(1, d0)], valid=False), case(direct(), [A([0])]),
    case(direct(z=[10]), [A([]), G(1, 0), D([])]), case(direct(z=[0]), [A([0]), G(3, 0, d0)], valid=False),
    case({"kind": "device", "dw": [0, 10, 11], "ar": True}, TWO, sem=True),
    case({"kind": "device", "dw": None, "ar": True}, TWO, sem=True),
    case({"kind": "device", "dw": [0], "ar": True}, TWO),
    case(direct(z=[10, 11]), [A([0, 1]), G(3, d0, d1), D([0]), A([2]), G(3, d2, d1), D([1, 2])]),
    # device wire that is only MEASURED (no gate acts on it): it belongs to the circuit and must not be handed to the allocator
    case({"kind": "device", "dw": [0, 1, 2], "ar": True}, [G(0, 0), A([0]), G(1, d0), G(3, 0, d0), D([0])], meas=((0,), (1,)), sem=True),
    case({"kind": "device", "dw": [1, 0, 2, 3], "ar": False}, [G(0, 0), A([0]), G(1, d0), D([0]), A([1]), G(3, 0, d1), D([1])], meas=((0,), (1,), (2,)), sem=True),
    # no device wires and a gap in the integer labels of the circuit: fresh labels start above the LARGEST label
    case({"kind": "device", "dw": None, "ar": True}, [G(1, 2), G(0, 0), A([0]), G(3, 0, d0), G(1, d0), D([0])], meas=((0,), (2,)), sem=True),
    case({"kind": "device", "dw": None, "ar": False}, [G(1, 5), G(0, 1), A([0, 1]), G(3, 1, d0), G(3, d0, d1), D([0, 1])], meas=((1,), (5,)), sem=True),
    # the same requests written with the string spelling of the state, built with the Allocate operator directly
    dict(case(direct(z=[10], a=[11]), [A([0], 1, True), G(1, d0), D([0]), A([1], 0, True), G(3, 0, d1), D([1]), A([2], 0), G(1, d2)]), strstate=True),
    dict(case(direct(z=[10, 11]), TWO, sem=True), strstate=True),
    dict(case(direct(a=[11], mi=20, ar=False), [A([0], 0, True), G(3, 0, d0), G(3, 0, d0), D([0]), A([1], 1), A([2], 0), G(3, d1, d2)]), strstate=True),
]


def run(ctx):
    ctx.coq_props()
    quick = ctx.tier == "quick"
    n_rand, n_bad, n_sem = (1100, 250, 160) if quick else (9000, 2000, 1200)
    rng = ctx.rng
    cases = list(CORPUS)
    cases += [gen_history(rng, True) for _ in range(n_rand)]
    cases += [gen_history(rng, False) for _ in range(n_bad)]
    cases += [gen_sem(rng) for _ in range(n_sem)]
    t0 = time.time()
    from concurrent.futures import ThreadPoolExecutor
    parts = [cases[k:k + 350] for k in range(0, len(cases), 350)]
    with ThreadPoolExecutor(max_workers=4) as ex:
        obs = [o for part in ex.map(lambda p: ctx.run_impl("c22_impl.py", {"cases": p}), parts) for o in part]
    t_impl = time.time() - t0
    terms = [g_case(c, o) for c, o in zip(cases, obs)]
    bad = ctx.coq_eval_cases("cases", "From PLV Require Import Disc.WireManagerModel.", terms, "check_case", chunk=300)
    hist = {"direct": 0, "device": 0, "errors": 0, "with_reset": 0, "max_live_gt1": 0, "restored": 0, "any_state": 0,
            "wire_reused": 0, "malformed_stream": 0, "passthrough": 0, "sem_compared": 0, "pre_holds": 0}
    distinct = set()
    for c, o in zip(cases, obs):
        hist[c["cfg"]["kind"]] += 1
        hist["malformed_stream"] += not c["valid"]
        hist["pre_holds"] += pre_holds(c)
        hist["restored"] += any(p["k"] == "a" and p["r"] for p in c["prog"])
        hist["any_state"] += any(p["k"] == "a" and p["s"] == 1 for p in c["prog"])
        live = mx = 0
        for p in c["prog"]:
            live += len(p["ds"]) if p["k"] == "a" else (-len(p["ds"]) if p["k"] == "d" else 0)
            mx = max(mx, live)
        hist["max_live_gt1"] += mx > 1
        key = json.dumps({k: c[k] for k in ("cfg", "prog", "meas")}, sort_keys=True)
        if o == "ERR":
            hist["errors"] += 1
        else:
            hist["with_reset"] += any(p[0] == -1 for p in o["ops"])
            hist["passthrough"] += any(p[0] in (-2, -3) for p in o["ops"])
            nalloc = sum(len(p["ds"]) for p in c["prog"] if p["k"] == "a")
            used = {w[1] for p in o["ops"] for w in p[1] if w[0] == "s"} - statics_of(c)
            if nalloc > len(used) > 0:
                hist["wire_reused"] += 1
                distinct.add(key)
            if o["diff"] is not None:
                hist["sem_compared"] += 1
                if not 0 <= o["diff"] <= 1e-9:
                    ctx.violation("sem:" + key, {"case": c, "observed": o},
                                  what=("resolved circuit cannot be executed on default.qubit: " + o.get("exec_error", "?"))
                                  if o["diff"] < 0 else
                                  f"resolved circuit and fresh-wire circuit differ on default.qubit by {o['diff']}")
        msg = direct_oracle(c, o)
        if msg:
            ctx.violation("direct:" + key, {"case": c, "observed": o, "violated": msg}, what=msg)
    for i in bad:
        c, o = cases[i], obs[i]
        ctx.violation("corr:" + json.dumps({k: c[k] for k in ("cfg", "prog", "meas")}, sort_keys=True),
                      {"case": c, "implementation": o, "model": "evaluate run_case in coq/Gen/C22 (model output differs, or a proved invariant fails on the model run)"},
                      found_input=True, what="implementation differs from the proved model of resolve_dynamic_wires")
    ctx.coverage.update({"evaluations": len(cases), "distinct_nontrivial": len(distinct),
                         "impl_cases_per_s": round(len(cases) / max(t_impl, 1e-6), 1),
                         "rule": "corpus (doc examples, reset/no-reset, device path) + seeded random histories: allocate 0-3 wires zero/any, restored t/f, LIFO and out-of-order deallocation, gates on static+live wires, registers of 0-3 labels, min_int None/above, allow_resets; malformed stream (use after free, double/dead dealloc, double alloc, magic state, registers overlapping static labels or each other, low min_int) compared for Ok/Err and output only; zero-state-only semantic stream executed on default.qubit. non-trivial = Ok result where some concrete wire served more than one dynamic wire",
                         "input_distribution": hist})
    for c, o in list(zip(cases, obs))[17:20]:
        ctx.sample({"case": c, "observed": o})
