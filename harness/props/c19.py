"""C19 transpile respects device connectivity."""
from vlib import *

PID = "C19"
META = {
    "level": "proof",
    "technique": "Coq proof by induction over the routing loop of a hand-written Gallina model of qp.transforms.transpile (shortest_path as a validated oracle, abstract gate semantics) + vm_compute correspondence with recorded networkx paths + default.qubit end-to-end comparison",
    "design_ref": "DESIGN.md §3 C19",
    "text": "Kernel-checked theorems (Props/C19.v) for ALL circuits of gates with <=2 wires, ALL coupling edge lists and ALL path oracles: "
            "transpile_on_edges (every two-wire gate of the output, inserted SWAPs included, acts on an edge of the coupling graph, and every transposition of the tracked permutation is along an edge); "
            "transpile_perm (over an abstract state space with equivariant gate semantics H2 and SWAP = relabelling H3: running the output circuit equals running the input circuit followed by the relabelling action of the accumulated permutation pi; the returned measurement wires and wire order are the images of the original ones under pi; pi is a bijection with explicit inverse); "
            "transpile_total (on a connected graph covering the wires, with an oracle that returns a valid path whenever one exists, the model never returns Err and the loop fuel suffices). "
            "The model is tied to /repo on every run: random circuits over 3-6 wires on lines/rings/trees/random connected graphs (with and without a device, i.e. the measurement-completion/remapping option) are run through the real transpile with networkx.shortest_path wrapped to log its answers; the model, evaluated in Coq on the same input and the logged paths, must produce the same gate list (names, wires), the same measurement wires and the same number of oracle calls. "
            "Direct oracles on the implementation output: every 2-wire gate on an edge; for a subset, results of the original circuit on default.qubit equal those of the transpiled circuit (1e-9).",
    "note": "Trusted: Coq kernel; hand transcription of transforms/transpile.py tied by correspondence only. Modelled rather than verified: networkx.shortest_path (oracle, its answers are validated by the model: endpoints, adjacency, source not revisited); the abstract semantics hypotheses H2/H3 (relabelling equivariance of gate semantics, SWAP = transposition action) are assumptions about PennyLane's simulator, confirmed only numerically on default.qubit. Not covered: the pre-expansion via devices.preprocess.decompose (gates are drawn from pennylane.ops names, which it leaves alone; C12/C33), StateMP/density-matrix handling and state_transposition post-processing, default.mixed, Hamiltonian/Prod observables (rejected by the code), coupling maps given in non-edge-list formats. Wire-less measurements without device wires are outside the model's semantics (a wire-less measurement has no wires to remap; what it measures depends on the executing device) and are exercised by ONE corpus case only, which currently FAILS the end-to-end comparison on /repo (key direct:wireless-measurement-without-device-wires: permutation applied to the gates but not to the wire-less measurement). Theorems assume the device wires (if a device is given) cover the tape wires; otherwise wire_map lacks keys and remapping silently skips wires.",
    "assumptions": ["H2: sem(relabel tau g) o act(tau) = act(tau) o sem(g) for transpositions tau (gate semantics is relabelling-equivariant)",
                    "H3: sem(SWAP a b) = act(transposition a b)",
                    "device wires, when a device is passed, cover the tape wires",
                    "gates are among pennylane.ops names so the pre-expansion inside transpile is the identity"],
    "trusted": ["hand-written model coq/Disc/TranspileModel.v tied to /repo by correspondence only",
                "networkx.shortest_path (answers recorded and validated, not recomputed)"],
}

NAMES = ["SWAP", "Hadamard", "PauliX", "T", "S", "RX", "RY", "RZ", "PauliZ", "PauliY", "CNOT", "CZ", "CRX", "CRY",
         "IsingXX", "CY", "GlobalPhase", "Toffoli", "CSWAP"]
CODE = {n: i for i, n in enumerate(NAMES)}
ONE = ["Hadamard", "PauliX", "T", "S", "RX", "RY", "RZ", "PauliZ", "PauliY"]
TWO = ["CNOT", "CNOT", "CZ", "SWAP", "CRX", "CRY", "IsingXX", "CY"]


def gen_graph(rng, n):
    """connected graph on labels 0..n-1 (randomly relabelled); returns (kind, edges)"""
    lab = list(range(n))
    rng.shuffle(lab)
    kind = rng.choice(["line", "ring", "tree", "random", "star"])
    if kind == "line":
        e = [(i, i + 1) for i in range(n - 1)]
    elif kind == "ring":
        e = [(i, (i + 1) % n) for i in range(n)] if n > 2 else [(0, 1)]
    elif kind == "star":
        e = [(0, i) for i in range(1, n)]
    else:
        e = [(rng.randrange(i), i) for i in range(1, n)]
        if kind == "random":
            for _ in range(rng.randint(1, n)):
                a, b = rng.sample(range(n), 2)
                if (a, b) not in e and (b, a) not in e:
                    e.append((a, b))
    e = [(lab[a], lab[b]) if rng.random() < 0.5 else (lab[b], lab[a]) for a, b in e]
    rng.shuffle(e)
    return kind, [list(x) for x in e]


def gen_case(rng, big=False):
    n = rng.randint(3, 6)
    extra = rng.choice([0, 0, 0, 1, 2])             # graph nodes the circuit does not use
    N = n + extra
    kind, edges = gen_graph(rng, N)
    used = rng.sample(range(N), n)
    ops = []
    for _ in range(rng.randint(2, 16 if big else 10)):
        r = rng.random()
        if r < 0.3:
            ops.append([rng.choice(ONE), [rng.choice(used)]])
        elif r < 0.95:
            ops.append([rng.choice(TWO), rng.sample(used, 2)])
        else:
            ops.append(["GlobalPhase", []])
    dev = None
    if rng.random() < 0.4:
        dev = list(range(N))
        rng.shuffle(dev)
    meas = []
    opw = sorted({w for _, ws in ops for w in ws}) or [used[0]]
    for _ in range(rng.randint(1, 3)):
        r = rng.random()
        if r < 0.5:
            meas.append(["probs", rng.sample(used, rng.randint(1, n))])
        elif r < 0.6 and dev is not None:
            meas.append(["probs", []])
        else:
            meas.append([rng.choice(["expZ", "expX", "varY"]), [rng.choice(used)]])
    return {"ops": ops, "meas": meas, "edges": edges, "dev": dev, "numeric": False, "kind": kind}


def gen_malformed(rng):
    c = gen_case(rng)
    r = rng.random()
    nodes = sorted({v for e in c["edges"] for v in e})
    if r < 0.3 and len(nodes) >= 3:                 # a three-wire gate -> NotImplementedError
        c["ops"].insert(rng.randrange(len(c["ops"]) + 1), [rng.choice(["Toffoli", "CSWAP"]), rng.sample(nodes, 3)])
        c["kind"] = "bad:3wire"
    elif r < 0.55:                                  # a wire outside the coupling map -> ValueError
        w = max(nodes) + 1
        if rng.random() < 0.5:
            c["ops"].append(["CNOT", [nodes[0], w]])
        else:
            c["meas"].append(["expZ", [w]])
        c["dev"] = None
        c["kind"] = "bad:uncovered"
    else:                                           # disconnected coupling map (two components)
        k = len(nodes) // 2
        a, b = nodes[:k], nodes[k:]
        e = [[a[i], a[i + 1]] for i in range(len(a) - 1)] + [[b[i], b[i + 1]] for i in range(len(b) - 1)]
        if len(a) == 1:
            e.append([a[0], max(nodes) + 1])
        c["edges"] = e
        c["dev"] = None
        c["ops"] = [o for o in c["ops"] if o[0] not in ("Toffoli", "CSWAP")]
        c["kind"] = "bad:disconnected"
    return c


def g_gate(g):
    return f"({gz(CODE[g[0]])}, {glist(g[1], gz)})"


def g_case(c, o):
    pr = lambda e: f"({gz(e[0])}, {gz(e[1])})"
    paths = o["paths"]
    gp = lambda p: f"({gz(p[0])}, {gz(p[1])}, {glist(p[2], gz)})"
    inp = (f"mkCase {glist(c['edges'], pr)} {glist(c['ops'], g_gate)} "
           f"{glist([m[1] for m in c['meas']], lambda m: glist(m, gz))} {glist(c['dev'] or [], gz)} {glist(paths, gp)}")
    if o["err"]:
        return f"({inp}, None)"
    exp = f"Some ({glist(o['ops'], g_gate)}, {glist(o['meas'], lambda m: glist(m, gz))})"
    return f"({inp}, {exp})"


def direct_oracle(c, o):
    """clause 1 of the property on the implementation's own output; returns None or a description"""
    if o["err"]:
        return None
    es = {frozenset(e) for e in c["edges"]}
    for name, ws in o["ops"]:
        if len(ws) > 2:
            return f"gate {name}{ws} on more than two wires in the output"
        if len(ws) == 2 and frozenset(ws) not in es:
            return f"two-wire gate {name}{ws} is not on an edge of the coupling map"
    if o["num"] is not None and not (o["num"] <= 1e-9):
        return f"results of the transpiled circuit differ from the original by {o['num']}"
    return None


CORPUS = [
    # the docstring example
    {"ops": [["CNOT", [0, 1]], ["CNOT", [2, 3]], ["CNOT", [1, 3]], ["CNOT", [1, 2]], ["CNOT", [2, 3]], ["CNOT", [0, 3]]],
     "meas": [["probs", [0, 1, 2, 3]]], "edges": [[0, 1], [1, 3], [3, 2], [2, 0]], "dev": None, "numeric": True, "kind": "ring"},
    # path through a node the circuit does not use; 0-wire gate
    {"ops": [["Hadamard", [0]], ["CNOT", [0, 2]], ["GlobalPhase", []], ["CRX", [2, 0]], ["RX", [2]]],
     "meas": [["probs", [2, 0]], ["expZ", [2]]], "edges": [[0, 1], [1, 2]], "dev": None, "numeric": True, "kind": "line"},
    # device given (reversed wire order), wire-less probs, a SWAP of the input that needs routing
    {"ops": [["Hadamard", [0]], ["CNOT", [0, 3]], ["CRX", [3, 1]], ["SWAP", [0, 2]]],
     "meas": [["probs", []], ["expX", [3]]], "edges": [[0, 1], [1, 2], [2, 3]], "dev": [3, 2, 1, 0], "numeric": True, "kind": "line"},
    # long line, end to end twice
    {"ops": [["RY", [5]], ["CNOT", [0, 5]], ["CY", [5, 0]], ["CZ", [4, 1]]],
     "meas": [["probs", [0, 5]], ["varY", [4]]], "edges": [[0, 1], [2, 1], [2, 3], [4, 3], [4, 5]], "dev": None, "numeric": True, "kind": "line"},
    # FINDING (reported, see final report): a wire-less measurement with no device wires is not completed
    # before routing, so the permutation is applied to the gates but not to this measurement: the executed
    # result differs from the original circuit (argmax 5 vs 6).  Fixed key so that it can be triaged.
    {"ops": [["PauliZ", [1]], ["PauliX", [0]], ["CNOT", [0, 2]]], "meas": [["probs", []]], "edges": [[0, 1], [1, 2]],
     "dev": None, "numeric": True, "kind": "finding:wireless-no-device-wires", "key": "wireless-measurement-without-device-wires"},
    {"ops": [["Toffoli", [0, 1, 2]]], "meas": [["probs", [0]]], "edges": [[0, 1], [1, 2]], "dev": None, "numeric": False, "kind": "bad:3wire"},
    {"ops": [["CNOT", [0, 3]]], "meas": [["probs", [0]]], "edges": [[0, 1], [2, 3]], "dev": None, "numeric": False, "kind": "bad:disconnected"},
    {"ops": [["CNOT", [0, 5]]], "meas": [["probs", [0]]], "edges": [[0, 1], [2, 3]], "dev": None, "numeric": False, "kind": "bad:uncovered"},
]


# qp.state() with a device (numeric only; the routing model does not describe the state post-processing): the returned
# state must be the original circuit's state in the device wire order, also when the accumulated routing permutation is
# not its own inverse (two or more SWAPs in a row)
STATE_CASES = [
    {"ops": [["RY", [0]], ["RY", [2]], ["CNOT", [0, 3]], ["RX", [1]], ["RX", [3]]], "meas": [["state", []]], "edges": [[0, 1], [1, 2], [2, 3]], "dev": [0, 1, 2, 3], "numeric": True, "kind": "state"},
    {"ops": [["RY", [0]], ["RY", [3]], ["CNOT", [0, 3]], ["CNOT", [3, 0]], ["RX", [2]]], "meas": [["state", []]], "edges": [[0, 1], [1, 2], [2, 3]], "dev": [0, 1, 2, 3], "numeric": True, "kind": "state"},
    {"ops": [["RY", [1]], ["CNOT", [0, 2]], ["RX", [0]]], "meas": [["state", []]], "edges": [[0, 1], [1, 2]], "dev": [0, 1, 2], "numeric": True, "kind": "state"},
    {"ops": [["RY", [0]], ["RY", [4]], ["CNOT", [0, 4]], ["CRX", [4, 1]], ["RX", [2]]], "meas": [["expZ", [0]], ["state", []]], "edges": [[0, 1], [1, 2], [2, 3], [3, 4]], "dev": [0, 1, 2, 3, 4], "numeric": True, "kind": "state"},
    {"ops": [["RY", [0]], ["RY", [2]], ["CZ", [0, 3]], ["CNOT", [1, 3]], ["RX", [3]]], "meas": [["state", []]], "edges": [[0, 1], [1, 2], [2, 3], [3, 0]], "dev": [0, 1, 2, 3], "numeric": True, "kind": "state"},
]

CAP = 25    # replay files written per kind of violation; totals are recorded in the evidence notes


def run(ctx):
    ctx.coq_props()
    nviol = {}

    def report(kind, c, replay, what):
        nviol[kind] = nviol.get(kind, 0) + 1
        if nviol[kind] <= CAP:
            ctx.violation(kind + ":" + (c.get("key") or json.dumps(c, sort_keys=True)), replay, found_input=True, what=what)

    rng = ctx.rng
    quick = ctx.tier == "quick"
    n, n_num = (800, 80) if quick else (8000, 800)
    cases = [dict(c) for c in CORPUS]
    rp = getattr(ctx, "replay", None)
    if rp and isinstance(rp.get("replay"), dict) and isinstance(rp["replay"].get("case"), dict):
        cases.insert(0, rp["replay"]["case"])         # ./check C19 --replay <file>: the recorded case first
    while len(cases) < n:
        cases.append(gen_malformed(rng) if rng.random() < 0.1 else gen_case(rng, big=not quick))
    k = 0
    for c in cases:                                   # numeric end-to-end check for a subset (valid cases)
        if not c["kind"].startswith("bad") and k < n_num:
            c["numeric"] = True
            k += 1
    obs = ctx.run_impl("c19_impl.py", {"cases": cases})
    for sc, so in zip(STATE_CASES, ctx.run_impl("c19_impl.py", {"cases": STATE_CASES})):
        if so.get("err") or so.get("num") is None or so["num"] > 1e-9:
            ctx.violation("state:" + json.dumps(sc, sort_keys=True)[:300], {"case": sc, "observed": {k: so.get(k) for k in ("err", "num", "ops", "meas")}}, found_input=True,
                          what="transpile with qp.state(): the post-processed state differs from the original circuit's state in the device wire order")
    terms = [g_case(c, o) for c, o in zip(cases, obs)]
    bad = ctx.coq_eval_cases("cases", "From PLV Require Import Disc.TranspileModel.", terms, "check_case", chunk=250)
    hist = {"ok": 0, "err": 0, "routed": 0, "routings": 0, "swaps": 0, "multi_swap_path": 0, "with_device": 0,
            "wireless_meas": 0, "path_via_unused_node": 0, "numeric": 0, "meas_remapped": 0, "kinds": {}}
    distinct = set()
    for c, o in zip(cases, obs):
        hist["kinds"][c["kind"]] = hist["kinds"].get(c["kind"], 0) + 1
        if o["err"]:
            hist["err"] += 1
            if not c["kind"].startswith("bad"):
                report("total", c, {"case": c, "observed": o},
                       "transpile raised on a connected coupling map covering the wires")
            continue
        hist["ok"] += 1
        if c["kind"].startswith("bad"):
            hist["kinds"]["bad-but-accepted"] = hist["kinds"].get("bad-but-accepted", 0) + 1
        if o["paths"]:
            hist["routed"] += 1
            hist["routings"] += len(o["paths"])
            hist["swaps"] += sum(len(p[2]) - 2 for p in o["paths"])
            hist["multi_swap_path"] += any(len(p[2]) > 3 for p in o["paths"])
            used = {w for _, ws in c["ops"] for w in ws} | {w for _, ws in c["meas"] for w in ws}
            hist["path_via_unused_node"] += any(v not in used for p in o["paths"] for v in p[2])
            distinct.add(json.dumps([c["ops"], c["edges"], c["dev"], c["meas"]], sort_keys=True))
        hist["with_device"] += c["dev"] is not None
        hist["wireless_meas"] += any(not m[1] for m in c["meas"])
        hist["numeric"] += o["num"] is not None
        hist["meas_remapped"] += [m[1] for m in c["meas"] if m[1]] != [m for m, m0 in zip(o["meas"], c["meas"]) if m0[1]]
        d = direct_oracle(c, o)
        if d:
            report("direct", c, {"case": c, "observed": o, "violated": d}, d)
    for i in bad:
        report("corr", cases[i],
               {"case": cases[i], "implementation": obs[i], "model": "evaluate coq/Gen/C19/cases_*.v (check_case false)"},
               "implementation differs from the proved model of transpile")
    if nviol:
        ctx.notes.append(f"violating cases per kind {nviol}; at most {CAP} replays written per kind")
    ctx.coverage.update({"evaluations": len(cases), "distinct_nontrivial": len(distinct),
                         "rule": "seeded generator: 3-6 circuit wires (+0-2 unused graph nodes), randomly relabelled line/ring/star/tree/random connected graphs, 2-16 gates (30% 1-wire, 65% 2-wire, 5% GlobalPhase), 1-3 measurements, device (shuffled wires, wire-less probs) 40%; malformed stream 10% (3-wire gate, wire outside the map, disconnected map); non-trivial = accepted case with at least one routing step",
                         "input_distribution": hist})
    for c, o in list(zip(cases, obs))[:3]:
        ctx.sample({"case": c, "observed": o})
