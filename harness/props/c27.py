"""C27 Simulator devices agree with each other."""
from vlib import *
import exactsim
import numpy as np
from props.c26 import expected, arr, PAULI

PID = "C27"
META = {
    "level": "proof",
    "engine": "qsym-translator",
    "technique": "exact differential against a Coq-evaluated reference: every device's analytic results on random circuits inside its supported set are compared with the circuit simulated by vm_compute over Q(zeta_8); theorems tie the reference to state-vector semantics",
    "design_ref": "DESIGN.md §3 C27, §2.5",
    "text": "Random circuits with exactly representable angles are executed on default.mixed, reference.qubit, default.tensor (MPS with sufficient bond dimension, and TN), default.clifford (Clifford circuits), null.qubit and default.qubit; each result (probabilities on wire subsets in any order, Pauli-word expectation values and variances) is compared to 1e-9 with the exact value obtained by simulating the same circuit inside Coq over Q(zeta_8) (reference_is_statevector_semantics). Agreement with one exact reference gives pairwise agreement; null.qubit is compared on result shapes only. This property is differential by nature: the theorem content is the proved reference, the device comparison is the tie.",
    "note": "Trusted: Coq kernel + stdlib real axioms; translator (gate matrices converted to exact constants); exact post-processing of the reference state with numpy; quimb/stim internals are oracles; default.tensor does not support probs (expval/var only); circuits of <= 4 wires quick, more in thorough. Two default.clifford defects found here (SX/Adjoint(SX) gate names, probabilities on wire subsets) were repaired in /repo by fix: commits.",
    "assumptions": [], "trusted": ["harness/exactsim.py post-processing", "translator harness/qx.py"],
}


def apply_word(state, n, word, idxs):
    """P|psi> for the Pauli word with letter word[k] on register axis idxs[k] (axis 0 most significant)"""
    psi = state.reshape([2] * n)
    for ch, ax in zip(word, idxs):
        psi = np.moveaxis(np.tensordot(PAULI[ch], psi, axes=([1], [ax])), 0, ax)
    return psi.reshape(-1)


def expected27(state, n, dev_wires, m):
    """exact value of a measurement; Sum / LinearCombination observables sum_i c_i P_i by linearity from the exact state:
    <H> = sum_i c_i <P_i>,  Var(H) = ||H psi||^2 - <H>^2"""
    if m["kind"] not in ("expval_sum", "var_sum"):
        return expected(state, n, dev_wires, m)
    hpsi = np.zeros_like(state, dtype=complex)
    for t in m["terms"]:
        hpsi = hpsi + t["coeff"] * apply_word(state, n, t["word"], [dev_wires.index(w) for w in t["wires"]])
    e = float(np.real(np.vdot(state, hpsi)))
    return e if m["kind"] == "expval_sum" else float(np.real(np.vdot(hpsi, hpsi))) - e * e


def run(ctx):
    ctx.coq_props()
    out = ctx.run_impl("c27_impl.py", {"tier": ctx.tier, "seed": ctx.seed}, timeout=3000)
    runs = out["runs"]
    okruns = [r for r in runs if r["status"] == "ok"]
    states = exactsim.exact_states(ctx, "ref", [(r["n"], r["circuit"]) for r in okruns])
    per = {}
    for r, st in zip(okruns, states):
        per[r["device"]] = per.get(r["device"], 0) + 1
        if r["device"] == "null.qubit":
            if r["shapes"] != r["ref_shapes"]:
                ctx.violation("null-shape:" + json.dumps([r["ops"], r["meas"]])[:300], {"ops": r["ops"], "meas": r["meas"], "null_qubit_shapes": r["shapes"], "default_qubit_shapes": r["ref_shapes"]},
                              what="null.qubit returns results of a different shape than default.qubit")
            continue
        for m, res in zip(r["meas"], r["results"]):
            got, exp = arr(res), expected27(st, r["n"], r["dev_wires"], m)
            err = float(np.abs(np.asarray(got).reshape(-1) - np.asarray(exp).reshape(-1)).max()) if np.asarray(got).size == np.asarray(exp).size else 9.9
            if err > 1e-9:
                ctx.violation(f"device:{r['device']}:" + json.dumps([r["ops"], m])[:300], {"device": r["device"], "ops": r["ops"], "wires": r["dev_wires"], "measurement": m,
                              "device_result": res, "exact": np.asarray(exp).tolist(), "max_abs_err": err},
                              what=f"{r['device']} result of {m['kind']} differs from the exact simulation (and hence from default.qubit)")
    for r in [x for x in runs if x["status"] == "error"][:5]:
        ctx.violation(f"device-error:{r['device']}:" + json.dumps(r["ops"])[:300], {"device": r["device"], "ops": r["ops"], "meas": r["meas"], "detail": r.get("detail")},
                      what=f"{r['device']} raised on a circuit inside its supported set")
    ctx.coverage.update({"evaluations": len(runs), "distinct_nontrivial": len(okruns),
                         "rule": "random circuits restricted to each device's supported gate/measurement set; each compared with the exact Coq reference",
                         "runs_per_device": per, "not_exact": sum(1 for r in runs if r["status"] == "notex")})
    for r in okruns[:2]:
        ctx.sample({"device": r["device"], "ops": r["ops"], "meas": r["meas"]})
