"""C53 Fermion-to-qubit mappings are faithful representations."""
from vlib import *

PID = "C53"
META = {
    "level": "proof",
    "technique": "Coq: exact Pauli-sentence algebra (words over {I,X,Y,Z}, Gaussian-rational coefficients) with a "
                 "transcription of jordan_wigner / parity_transform / bravyi_kitaev; induction for the Jordan-Wigner "
                 "clauses, vm_compute over stated finite ranges for parity/BK; vm_compute correspondence against "
                 "pennylane.fermi on generated Fermi words/sentences",
    "design_ref": "DESIGN.md §3 C53",
    "text": "Props/C53.v (15 kernel-checked theorems, no axioms). For Jordan-Wigner and EVERY register size n and modes p,q<n the "
            "canonical anticommutation relations {a_p^s,a_q^t} = delta_pq [s!=t] 1 hold as equality of coefficient functions "
            "(jw_car; via the single non-commuting overlap site, jw_strings_anticommute, and the word-level (AB)^+=B^+A^+, "
            "pauli_word_product_adjoint). For all three mappings and every n: sums to sums and scalars to scalars "
            "(map_is_linear_add/_scale), image of a word = ordered product of the ladder images "
            "(map_product_is_product_of_images, map_of_concatenation), image of a_p^+ = adjoint of image of a_p "
            "(adjoint_preserved_generators). Bounded, bound in the statement, decided by vm_compute through a proved-sound "
            "comparison (sentence_comparison_sound): CAR for JW/parity/Bravyi-Kitaev for all n<=6 (car_all_mappings_partial), "
            "adjoint of words (n<=5, length<=3), product homomorphism as sentences (n<=4, |u|,|v|<=2), and unitary "
            "equivalence on generators: an explicit CNOT network conjugates JW ladder images into parity and "
            "Bravyi-Kitaev images for all n<=6, each CNOT unitary. Tie: the model is executed inside Coq on the same "
            "random Fermi words/sentences (<=6 modes, dyadic real/complex coefficients, too-small registers included) as the "
            "real qp.fermi.jordan_wigner/parity_transform/bravyi_kitaev (ps=True) and exact term lists are compared; "
            "FermiWord product/adjoint are tied too. Direct oracles on the implementation: CAR (exact PauliSentence "
            "algebra for n<=6, matrices for n<=4), map(u*v)=map(u)@map(v), adjoint, linearity, image unchanged by "
            "FermiWord.shift_operator (anticommutation rewriting = normal-ordering steps), wire_map/tol invariance, "
            "equal eigenvalue multisets of H=S+S^+ under the three mappings (n<=4).",
    "note": "Trusted: the hand transcription coq/Disc/FermiModel.v, tied to /repo only by the correspondence run. "
            "Not proved: parity/Bravyi-Kitaev CAR for n>6 (update/parity/flip sets follow the binary-tree shape); adjoint "
            "and sentence-level product homomorphism for arbitrary words (needs associativity of the sentence product, "
            "not formalised; only the fold characterisation is general); unitary equivalence beyond generators and n<=6; "
            "invariance under normal ordering (this checkout has no normal_order function; only checked on the "
            "implementation through shift_operator). tol is exercised only with 1e-8, far below the dyadic coefficients, "
            "so it never changes a value; ps=False (Operator output) is not covered. FermiSentence addition is modelled "
            "as term-list concatenation (equal keys merged by the accumulation).",
    "assumptions": ["coefficients are dyadic rationals so that float arithmetic in PauliSentence is exact",
                    "Jordan-Wigner model pads words to 1 + the largest orbital of the input (the code has no register size)"],
    "trusted": ["hand-written model coq/Disc/FermiModel.v tied to /repo by correspondence only",
                "numpy eigvalsh / to_mat for the spectral-equivalence oracle"],
}

MAPS = ["JW", "PT", "BK"]
PAULI = {"X": "PX", "Y": "PY", "Z": "PZ", "I": "PI"}


def gen_word(rng, nmodes, maxlen=5):
    L = rng.choice([0, 1, 1, 2, 2, 3, 3, 4, 5][:maxlen + 4])
    L = min(L, maxlen)
    w = []
    for _ in range(L):
        if w and rng.random() < 0.3:      # repeated orbital: a a, a a+, number operators
            o = rng.choice(w)[0]
        else:
            o = rng.randrange(nmodes)
        w.append([o, rng.randrange(2)])
    return w


def gen_coef(rng):
    den = rng.choice([1, 2, 4, 8])
    re = rng.choice([-1, 1]) * rng.randint(1, 12)
    if rng.random() < 0.25:
        im = rng.choice([-1, 1]) * rng.randint(1, 12)
    else:
        im = 0
    from fractions import Fraction
    a, b = Fraction(re, den), Fraction(im, den)
    return [a.numerator, a.denominator, b.numerator, b.denominator]


def gen_sent(rng, nmodes, maxterms=4, maxlen=4):
    terms, seen = [], set()
    for _ in range(rng.randint(1, maxterms)):
        w = gen_word(rng, nmodes, maxlen)
        key = json.dumps(w)
        if key in seen:
            continue
        seen.add(key)
        terms.append([w, gen_coef(rng)])
    if rng.random() < 0.3 and terms:       # force cancellations between terms: same word twice is impossible in a
        w = terms[0][0]                    # dict, so add the adjoint-ordered / duplicated-operator variants
        if len(w) >= 2 and w[0] != w[1]:
            w2 = [w[1], w[0]] + w[2:]
            if json.dumps(w2) not in seen:
                terms.append([w2, terms[0][1]])
    return terms


def max_orb(x):
    ws = [x] if (not x or not isinstance(x[0][0], list)) else [t[0] for t in x]
    return max([o + 1 for w in ws for o, _ in w], default=0)


def g_word(w):
    return glist(w, lambda l: f"({gnat(l[0])}, {gbool(l[1])})")


def g_c(c):
    return f"(({c[0]} # {c[1]})%Q, ({c[2]} # {c[3]})%Q)"


def g_sent(s):
    return glist(s, lambda t: f"({g_word(t[0])}, {g_c(t[1])})")


def g_case(c):
    x = f"(FW {g_word(c['w'])})" if "w" in c else f"(FS {g_sent(c['s'])})"
    return f"({c['m']}, {gnat(c['n'])}, {x})"


def g_out(o):
    if o == "ERR":
        return "None"
    term = lambda t: f"({glist(t[0], lambda p: f'({gnat(p[0])}, {PAULI[p[1]]})')}, {g_c(t[1])})"
    return f"(Some {glist(o, term)})"


def run(ctx):
    ctx.coq_props()
    rng = ctx.rng
    quick = ctx.tier == "quick"
    n_map = 700 if quick else 8000
    n_orc = 220 if quick else 3000
    cases = [  # corpus first
        {"kind": "map", "m": "JW", "n": 0, "w": [[0, 1], [1, 0]]},
        {"kind": "map", "m": "PT", "n": 6, "w": [[0, 1], [1, 0]]},
        {"kind": "map", "m": "BK", "n": 6, "w": [[0, 1], [1, 0]]},
        {"kind": "map", "m": "BK", "n": 6, "w": [[5, 1], [3, 0], [1, 1]]},
        {"kind": "map", "m": "BK", "n": 5, "w": [[3, 1], [4, 0]]},
        {"kind": "map", "m": "JW", "n": 0, "w": []},
        {"kind": "map", "m": "PT", "n": 0, "w": []},
        {"kind": "map", "m": "BK", "n": 0, "w": []},
        {"kind": "map", "m": "BK", "n": 1, "w": [[0, 0], [0, 1]]},
        {"kind": "map", "m": "PT", "n": 2, "w": [[2, 1]]},
        {"kind": "map", "m": "BK", "n": 3, "w": [[1, 1], [3, 0]]},
        {"kind": "map", "m": "JW", "n": 0, "w": [[2, 0], [2, 0]]},
        {"kind": "map", "m": "JW", "n": 0, "s": [[[[0, 1], [1, 0]], [1, 2, 0, 1]], [[[1, 0], [0, 1]], [1, 2, 0, 1]]]},
        {"kind": "map", "m": "PT", "n": 3, "s": [[[[0, 1], [0, 0]], [1, 1, 0, 1]], [[[0, 0], [0, 1]], [1, 1, 0, 1]]]},
    ]
    if getattr(ctx, "replay", None) and isinstance(ctx.replay.get("replay", {}).get("case"), dict):
        cases.insert(0, ctx.replay["replay"]["case"])
    while len(cases) < n_map:
        m = rng.choice(MAPS)
        nm = rng.choice([1, 2, 3, 3, 4, 4, 5, 6, 6])
        c = {"kind": "map", "m": m}
        if rng.random() < 0.6:
            c["w"] = gen_word(rng, nm)
            mo = max_orb(c["w"])
        else:
            c["s"] = gen_sent(rng, nm)
            mo = max_orb(c["s"])
        r = rng.random()
        if m == "JW":
            c["n"] = 0
        elif r < 0.12:                      # malformed stream: register too small (incl. n = 0)
            c["n"] = rng.randrange(0, mo + 1)
        else:
            c["n"] = rng.randint(max(mo, 1) if r < 0.95 else mo, 6 if r < 0.9 else 8)
        nq = mo if m == "JW" else c["n"]
        if nq > 0 and rng.random() < 0.3:
            perm = list(range(10, 10 + max(nq, mo)))
            rng.shuffle(perm)
            c["wm"] = [[i, perm[i]] for i in range(max(nq, mo))]
        cases.append(c)
    n_maps = len(cases)
    # direct-oracle cases (valid registers only)
    for m in MAPS:
        for n in ([1, 2, 3, 4, 5, 6] if quick else [1, 2, 3, 4, 5, 6, 7, 8]):
            cases.append({"kind": "car", "m": m, "n": n})
    while len(cases) < n_maps + n_orc:
        m = rng.choice(MAPS)
        nm = rng.choice([2, 3, 4, 4, 5, 6])
        n = rng.randint(nm, 6)
        r = rng.random()
        if r < 0.25:
            cases.append({"kind": "hom", "m": m, "n": n, "u": gen_word(rng, nm, 3), "v": gen_word(rng, nm, 3)})
        elif r < 0.45:
            c = {"kind": "adj", "m": m, "n": n}
            if rng.random() < 0.6:
                c["w"] = gen_word(rng, nm)
            else:
                c["s"] = gen_sent(rng, nm)
            cases.append(c)
        elif r < 0.7:
            w = gen_word(rng, nm)
            while len(w) < 2:
                w = gen_word(rng, nm)
            cases.append({"kind": "shift", "m": m, "n": n, "w": w, "i": rng.randrange(len(w)), "j": rng.randrange(len(w))})
        elif r < 0.85:
            cases.append({"kind": "lin", "m": m, "n": n, "s": gen_sent(rng, nm), "t": gen_sent(rng, nm), "c": gen_coef(rng)})
        else:
            n4 = rng.randint(2, 4)
            cases.append({"kind": "spec", "n": n4, "s": gen_sent(rng, n4, 3, 4)})
    # sentence products (appended last so that the streams above stay as they were)
    one = [1, 1, 0, 1]
    cases.append({"kind": "shom", "m": "JW", "n": 4, "s": [[[], one], [[[0, 1], [0, 0]], one]],
                  "t": [[[], one], [[[0, 1], [0, 0]], one]]})                    # (1 + n0)^2: two pairs give n0
    cases.append({"kind": "shom", "m": "BK", "n": 4, "s": [[[[0, 1]], one], [[[0, 1], [1, 0]], [2, 1, 0, 1]]],
                  "t": [[[[1, 0], [2, 0]], [3, 1, 0, 1]], [[[2, 0]], [1, 2, 0, 1]]]})
    cases.append({"kind": "shom", "m": "PT", "n": 4, "s": [[[], one], [[[0, 1], [0, 0]], one]],
                  "t": [[[], one], [[[0, 1], [0, 0]], one]]})
    for _ in range(40 if quick else 400):
        m = rng.choice(MAPS)
        nm = rng.choice([2, 3, 4])
        s1, s2 = gen_sent(rng, nm, 3, 2), gen_sent(rng, nm, 3, 2)
        if rng.random() < 0.5:                 # force colliding word products: an identity term on both sides
            s1, s2 = [[[], gen_coef(rng)]] + [t for t in s1 if t[0]], [[[], gen_coef(rng)]] + [t for t in s2 if t[0]]
            if rng.random() < 0.5 and len(s1) > 1:
                s2 = s2[:1] + [s1[1]] + [t for t in s2[1:] if t[0] != s1[1][0]]
        cases.append({"kind": "shom", "m": m, "n": rng.randint(nm, 5), "s": s1, "t": s2})
    obs = ctx.run_impl("c53_impl.py", {"cases": cases})

    hdr = "From PLV Require Import Disc.FermiModel.\nRequire Import QArith."
    mcases = [(c, o) for c, o in zip(cases, obs) if c["kind"] == "map"]
    terms = [f"({g_case(c)}, {g_out(o['out'])})" for c, o in mcases]
    bad = ctx.coq_eval_cases("cases", hdr, terms, "check_case", chunk=120)
    for i in bad:
        c, o = mcases[i]
        ctx.violation("corr:" + json.dumps(c, sort_keys=True), {"case": c, "implementation": o},
                      what="qp.fermi mapping output differs from the proved model (exact term list)")
    # FermiWord arithmetic tie (adjoint / product) for the words used by the oracles
    fc = []
    for c, o in zip(cases, obs):
        if c["kind"] == "hom" and o.get("items") is not None:
            fc.append((c, f"(FMul {g_word(c['u'])} {g_word(c['v'])}, {g_word(o['items'])})"))
        if c["kind"] == "adj" and o.get("items") is not None:
            fc.append((c, f"(FAdj {g_word(c['w'])}, {g_word(o['items'])})"))
    if fc:
        for i in ctx.coq_eval_cases("fcases", hdr, [t for _, t in fc], "check_fcase"):
            ctx.violation("fcorr:" + json.dumps(fc[i][0], sort_keys=True), {"case": fc[i][0]},
                          what="FermiWord product/adjoint differs from the model")
    hist = {k: 0 for k in ["map_word", "map_sent", "errors", "wire_map", "hom", "adj", "shift", "shift_multi", "lin", "car", "spec", "shom"]}
    hist.update({m: 0 for m in MAPS})
    distinct = set()
    WHAT = {"map": "wire_map/tol changes the image", "hom": "map(u*v) != map(u) @ map(v)",
            "adj": "map(adjoint) != adjoint(map)",
            "shom": "map(S*T) != map(S) @ map(T) for Fermi sentences (or S**2, S*word)", "shift": "anticommutation rewriting (shift_operator) changes the image",
            "lin": "mapping is not linear", "car": "canonical anticommutation relations violated",
            "spec": "the three mappings give different spectra"}
    for c, o in zip(cases, obs):
        k = c["kind"]
        if k == "map":
            hist["map_word" if "w" in c else "map_sent"] += 1
            hist[c["m"]] += 1
            hist["wire_map"] += 1 if c.get("wm") else 0
            if o["out"] == "ERR":
                hist["errors"] += 1
                continue
            if len(o["out"]) > 1:
                distinct.add(json.dumps(c, sort_keys=True))
            if o["ok"] is not True:
                ctx.violation("direct:" + json.dumps(c, sort_keys=True), {"case": c, "observed": o}, what=WHAT[k])
        else:
            hist[k] += 1
            if k == "shift" and o.get("nterms", 0) > 1:
                hist["shift_multi"] += 1
            if o.get("ok") is not True:
                ctx.violation("direct:" + json.dumps(c, sort_keys=True), {"case": c, "observed": o}, what=WHAT[k])
    ctx.coverage.update({"evaluations": len(cases), "distinct_nontrivial": len(distinct),
                         "rule": "seeded generator: Fermi words (len<=5, repeated orbitals forced 30%) and sentences "
                                 "(<=5 distinct words, dyadic real/complex coefficients) on <=6 modes, mapping uniform in "
                                 "JW/PT/BK, register n in [max orbital+1, 8] with ~12% too-small registers (error path); "
                                 "30% of cases also run with a random wire_map and tol=1e-8; non-trivial = image with >1 term; "
                                 "direct-oracle stream: CAR for every n, hom/adj/shift/lin/spec/shom (sentence products with colliding word pairs)",
                         "input_distribution": hist})
    for c, o in list(zip(cases, obs))[:3] + list(zip(cases, obs))[n_maps + 20:n_maps + 22]:
        ctx.sample({"case": c, "observed": o})
