"""C28 Noisy evolution stays physical and matches the Kraus definition."""
from vlib import *

PID = "C28"
META = {
    "level": "proof",
    "engine": "qsym-translator",
    "technique": "Coq reflection proofs (exact Laurent-polynomial matrices over Q(zeta_8)/Q(zeta_24)) of Kraus completeness for every built-in channel extracted from /repo by symbolic execution under p = sin^2(theta/2); numeric completeness on grids with endpoints; default.mixed against an independent Kraus-sum simulation with physicality checks",
    "design_ref": "DESIGN.md §3 C28",
    "text": "compute_kraus_matrices of AmplitudeDamping, PhaseDamping, BitFlip, PhaseFlip, DepolarizingChannel, GeneralizedAmplitudeDamping, ResetError and PauliError (two words) is executed on formal parameters with every probability written as a squared sine/cosine of a formal angle (nested angles for two-parameter channels), so the square roots in the source become polynomials; Coq proves sum K^dagger K = I as an identity of normal forms, hence for every parameter value of the documented domain (kraus_complete_forall). The real code (with its 1e-14 stabiliser) is checked numerically on parameter grids including both endpoints (ThermalRelaxationError and DepolarizingChannel, whose Kraus operators need sqrt 3, only numerically). default.mixed is run on a fixed corpus (every operator with a dedicated kernel in devices/qubit_mixed/apply_operation.py -- Identity, GlobalPhase, PauliX, PauliZ, S, T, PhaseShift, the real symmetric controlled gates incl. a 9-wire MultiControlledX, the diagonal-in-Z family, QubitDensityMatrix, StatePrep, Snapshot -- and the generic einsum/tensordot paths, applied to entangled superpositions with complex amplitudes, pure and mixed, unbatched and broadcast, natural and permuted wire order) and on random noisy circuits with random wire orders (which also draw these gates) and its density matrix compared (1e-9) with an independent numpy Kraus-sum simulation; Hermiticity, unit trace and positive semidefiniteness (1e-9) of the returned state are asserted.",
    "note": "Trusted: Coq kernel + stdlib real axioms; translator (incl. harness-declared square roots sqrt(sin^2)=sin on [0,pi] and the substitution of the stabilising epsilon by 0 for the symbolic run); the default.mixed comparison is numeric differential testing against a harness implementation of the Kraus sum, not a theorem; QubitChannel (user-supplied Kraus) and readout errors are not covered.",
    "assumptions": ["0 <= theta <= pi so that sqrt(sin^2(theta/2)) = sin(theta/2) and sqrt(cos^2(theta/2)) = cos(theta/2)"],
    "trusted": ["translator harness/qsym.py (SQRT_TABLE declarations in impl/c28_impl.py)", "independent Kraus-sum simulation in impl/c28_impl.py"],
}
HEADER = """From Coq Require Import List ZArith QArith Bool.
From PLV Require Import Alg.Poly Lin.Vec Lin.PVec.
Import ListNotations.
Open Scope Q_scope.
"""


def run(ctx):
    ctx.coq_props()
    out = ctx.run_impl("c28_impl.py", {"tier": ctx.tier, "seed": ctx.seed, "outdir": str(ctx.gen_dir)}, timeout=3000)
    obl = json.loads((ctx.gen_dir / "obligations.json").read_text())
    failed = ctx.coq_obligations("kraus", HEADER, [(o["name"], o["stmt"], "vm_compute. reflexivity.") for o in obl], chunk=4)
    by = {o["name"]: o for o in obl}
    numbad = {}
    for x in out["numeric"]:
        if isinstance(x["err"], str) or x["err"] > 1e-9:
            numbad.setdefault(x["channel"], x)
            ctx.violation(f"kraus-numeric:{x['channel']}:{x['params']}", x, what=f"Kraus operators of {x['channel']} are not complete at parameters {x['params']}")
    for name, detail in failed:
        o = by.get(name)
        if o is None:
            ctx.broken_obligation("coq", name, detail); continue
        wit = numbad.get(o["channel"].split("[")[0])
        ctx.violation(f"kraus:{o['channel']}", {"channel": o["channel"], "obligation": name, "witness": wit}, found_input=bool(wit),
                      what=f"sum K^dagger K != I for channel {o['channel']}")
    NUMERIC_ONLY = {"DepolarizingChannel"}       # needs sqrt(3): not in Q(zeta_8); checked on the numeric grid only
    for i in out["items"]:
        if i["status"] != "ok" and i["name"] not in NUMERIC_ONLY:
            ctx.violation(f"tie:{i['name']}", {"channel": i["name"], "detail": i["detail"], "no_longer_checks": "symbolic extraction of the Kraus matrices"},
                          found_input=False, what=f"Kraus matrices of {i['name']} can no longer be extracted ({i['status']})")
    for r in out["runs"]:
        if r["err"] > 1e-9 or r["herm"] > 1e-9 or r["trace"] > 1e-9 or r["min_eig"] < -1e-9:
            ctx.violation("mixed:" + json.dumps(r["ops"])[:300], r, what="default.mixed state is not physical or differs from the Kraus-sum simulation")
    ctx.coverage.update({"evaluations": len(out["numeric"]) + len(out["runs"]) + len(obl), "distinct_nontrivial": len(obl) + len(out["runs"]),
                         "rule": "one completeness obligation per channel (universal in parameters); grid points incl. endpoints; fixed dedicated-kernel corpus + random noisy circuits on default.mixed",
                         "channels_proved": [o["channel"] for o in obl], "grid_points": len(out["numeric"]), "noisy_circuits": len(out["runs"]), "fixed_circuits": sum(1 for r in out["runs"] if r.get("fixed")),
                         "worst_mixed_err": max((r["err"] for r in out["runs"]), default=0)})
    for r in out["runs"][:2]:
        ctx.sample({"ops": r["ops"], "wire_order": r["order"], "err": r["err"]})
