"""C56 Arithmetic templates compute their documented functions."""
import itertools
import math
from concurrent.futures import ThreadPoolExecutor

from vlib import *

PID = "C56"
META = {
    "level": "proof",
    "technique": "Coq classical-reversible-circuit model with induction over register size (ripple-carry invariants) + "
                 "in-Coq simulation of the exported real decompositions + exhaustive small-size default.qubit enumeration",
    "design_ref": "DESIGN.md §3 C56",
    "text": "Kernel-checked theorems (Props/C56.v) over a classical reversible-circuit model (X/CNOT/Toffoli/MCX with control "
            "values, SWAP, TemporaryAND with its domain): for ALL register sizes and wire layouts the transcribed SemiAdder "
            "decomposition maps (x, y, work=0) to (x, x+y mod 2^|y|, work=0), the elbow-ladder Incrementer adds one mod 2^n, "
            "TemporaryAND/QubitSum/QubitCarry implement their documented bit functions, work wires are restored. "
            "Tie, re-run on every check against the working tree: (a) every applicable decomposition rule of every template "
            "named in the property (plus the device's own path) is run on default.qubit's gate kernels on EVERY basis input of "
            "the documented domain of small register sizes (random moduli/constants/polynomials/wire layouts/work-wire "
            "counts, signed and modular variants, controlled variants); the final state must be the documented basis state "
            "(|amp|^2 = 1 within 1e-9, work wires 0); (b) every rule that expands into classical gates is exported (names, "
            "wires, control values) and simulated INSIDE Coq on all those inputs against the documented function evaluated "
            "in Coq, and for the transcribed templates the exported gate list must be syntactically equal to the model's "
            "circuit; (c) qp.matrix(op) columns on the domain equal the decomposition's outputs.",
    "note": "Proved for ALL sizes/layouts: SemiAdder (with >= |y|-1 given work wires), elbow-ladder and MCX-ladder Incrementer, QubitSum, QubitCarry; "
            "TemporaryAND's classical meaning is the model's primitive (GAnd, None outside the domain), so temporary_and_spec is "
            "close to definitional - its real H/T and Toffoli decompositions and its matrix are tied numerically on the domain. "
            "IntegerComparator: model transcribed and tied; only the finite family n<=4 (canonical layout) is decided by evaluation "
            "(comparator_spec_partial), no all-n theorem.  Tie only (exhaustive small sizes, registers <= 3-4 qubits): the QFT-based "
            "rules (PhaseAdder, Adder/QFT, OutAdder, Multiplier, ModExp, OutPoly, OutMultiplier/QFT), the composite SemiAdder-based "
            "rules (OutMultiplier adder/caddsub/cache, OutSquare, SignedOutSquare, SignedOutMultiplier, Adder arithmetic rule), "
            "controlled variants C(SemiAdder)/C(Incrementer), dynamically allocated work wires, the mid-circuit-measurement rule of "
            "Adjoint(TemporaryAND) (probabilities only).  The SemiAdder/Incrementer models are nested recursions (L_i ++ rest ++ R_i; MCX ladder over the wire list) "
            "instead of the two Python loops; their gate lists are compared syntactically with the real decomposition on every "
            "generated size.  Phases are not modelled classically; absence of relative phases on the domain is only checked "
            "numerically (qp.matrix columns entrywise to 1e-9; state probabilities).  default.qubit is driven through its "
            "preprocessing program once per circuit and its apply_operation kernels on the batch of all inputs.  1-bit signed "
            "registers (SignedOutSquare/SignedOutMultiplier) are excluded (the templates raise IndexError there).  The "
            "Incrementer fallback rule (MCX ladder, fewer than n-1 work wires) is proved for all n (incrementer_fallback_adds_one). "
            "The tie shows SignedOutMultiplier returning -2^(k-1) for 0 * negative and "
            "ignoring the documented mod 2^k wrap of the sign bit (registered known finding, keys "
            "(dq|corr-sem|matrix):SignedOutMultiplier[negzero+overflow]...; failures on any other input get the tag 'other').",
    "assumptions": ["basis inputs inside the documented domain (x < mod, work wires |0>, TemporaryAND target |0>, "
                    "PhaseAdder with mod != 2^n restricted to mod <= 2^(n-1))",
                    "register sizes <= 4 qubits and <= 14 wires in the exhaustive tie"],
    "trusted": ["hand transcription coq/Disc/ArithModel.v tied to /repo by gate-list equality and simulation on generated sizes",
                "exporter harness/impl/c56_impl.py mapping PennyLane operators to classical gates (names, wires, control values)",
                "numpy / default.qubit kernels for the numerical (1e-9) part of the tie"],
}

# ------------------------------------------------------------------ templates: value registers, domain, oracle
VREGS = {
    "SemiAdder": ["x", "y"], "Incrementer": ["x"], "IntegerComparator": ["x", "tgt"], "TemporaryAND": ["x", "tgt"],
    "AdjTemporaryAND": ["x", "tgt"], "QubitCarry": ["a", "b", "c", "d"], "QubitSum": ["a", "b", "c"],
    "Adder": ["x"], "PhaseAdder": ["x"], "OutAdder": ["x", "y", "out"], "Multiplier": ["x"],
    "OutMultiplier": ["x", "y", "out"], "SignedOutMultiplier": ["x", "y", "out"], "ModExp": ["x", "out"],
    "OutSquare": ["x", "out"], "SignedOutSquare": ["x", "out"], "OutPoly": None,
}


def vregs(c):
    base = list(c["vars"]) + ["out"] if c["t"] == "OutPoly" else VREGS[c["t"]]
    return (["ctrl"] if c.get("ctrl") else []) + base


def signed(x, n):
    return x - (1 << n) if x >= (1 << (n - 1)) else x


def cv_int(vals):
    v = 0
    for b in vals:
        v = 2 * v + int(b)
    return v


def oracle_base(c, v, size):
    """documented function: list of register values -> list of register values (order = VREGS)"""
    t = c["t"]
    if t == "SemiAdder":
        return [v[0], (v[0] + v[1]) % (1 << size[1])]
    if t == "Incrementer":
        return [(v[0] + 1) % (1 << size[0])]
    if t == "IntegerComparator":
        hit = (v[0] >= c["k"]) if c["geq"] else (v[0] < c["k"])
        return [v[0], v[1] ^ int(hit)]
    if t in ("TemporaryAND", "AdjTemporaryAND"):
        return [v[0], v[1] ^ int(v[0] == cv_int(c["cv"]))]
    if t == "QubitCarry":
        a, b, cc, d = v
        return [a, b, b ^ cc, (b & cc) ^ d ^ ((b ^ cc) & a)]
    if t == "QubitSum":
        return [v[0], v[1], v[0] ^ v[1] ^ v[2]]
    if t in ("Adder", "PhaseAdder"):
        return [(v[0] + c["k"]) % c["mod"]]
    if t == "OutAdder":
        return [v[0], v[1], (v[2] + v[0] + v[1]) % c["mod"]]
    if t == "Multiplier":
        return [(v[0] * c["k"]) % c["mod"]]
    if t == "OutMultiplier":
        return [v[0], v[1], (v[2] + v[0] * v[1]) % c["mod"]]
    if t == "SignedOutMultiplier":
        return [v[0], v[1], (v[2] + signed(v[0], size[0]) * signed(v[1], size[1])) % (1 << size[2])]
    if t == "ModExp":
        return [v[0], (v[1] * pow(c["k"], v[0], c["mod"])) % c["mod"]]
    if t == "OutSquare":
        return [v[0], (v[1] + v[0] * v[0]) % (1 << size[1])]
    if t == "SignedOutSquare":
        return [v[0], (v[1] + signed(v[0], size[0]) ** 2) % (1 << size[1])]
    if t == "OutPoly":
        xs = v[:-1]
        f = sum(co * math.prod(x ** e for x, e in zip(xs, ex)) for co, ex in c["poly"])
        return xs + [(v[-1] + f) % c["mod"]]
    raise KeyError(t)


def oracle(c, v):
    size = [len(c["regs"][r]) for r in vregs(c)]
    if c.get("ctrl"):
        if v[0] != cv_int(c["ctrl"]["v"]):
            return list(v)
        return [v[0]] + oracle_base(c, list(v[1:]), size[1:])
    return oracle_base(c, list(v), size)


def domain(c):
    """all basis inputs of the documented domain, as lists of register values"""
    t = c["t"]
    names = vregs(c)
    base = names[1:] if c.get("ctrl") else names
    size = [len(c["regs"][r]) for r in base]
    full = [range(1 << n) for n in size]
    mod = c.get("mod")
    if t in ("Adder", "PhaseAdder", "Multiplier"):
        rs = [range(min(mod, 1 << size[0]))]
    elif t in ("OutAdder", "OutMultiplier"):
        rs = [range(min(mod, 1 << n)) for n in size]
        if c.get("zeroed"):
            rs[-1] = range(1)
    elif t == "ModExp":
        rs = [range(min(mod, 1 << size[0])), range(min(mod, 1 << size[1]))]
    elif t == "OutPoly":
        rs = [range(min(mod, 1 << n)) for n in size]
    elif t == "TemporaryAND":
        rs = [full[0], range(1)]
    elif t in ("SignedOutMultiplier", "OutSquare", "SignedOutSquare"):
        rs = list(full)
        if c.get("zeroed"):
            rs[-1] = range(1)
    else:
        rs = list(full)
    dom = [list(v) for v in itertools.product(*rs)]
    if t == "AdjTemporaryAND":      # documented domain: the target is |0> AFTER the uncomputation
        dom = [v for v in dom if v[1] == int(v[0] == cv_int(c["cv"]))]
    if c.get("ctrl"):
        k = len(c["regs"]["ctrl"])
        dom = [[cvv] + v for cvv in range(1 << k) for v in dom]
    return dom


def to_int(c, vals):
    n = len(c["order"])
    x = 0
    for r, v in zip(vregs(c), vals):
        ws = c["regs"][r]
        for j, w in enumerate(ws):
            if (v >> (len(ws) - 1 - j)) & 1:
                x |= 1 << (n - 1 - c["order"].index(w))
    return x


# ------------------------------------------------------------------ generator
def layout(rng, sizes, idle=0):
    n = sum(sizes.values()) + idle
    labels = list(range(n))
    rng.shuffle(labels)
    regs, k = {}, 0
    for name, sz in sizes.items():
        regs[name] = labels[k:k + sz]
        k += sz
    return regs, list(range(n))


def coprime(rng, mod, lo=1, hi=None):
    hi = hi or 3 * mod
    while True:
        k = rng.randint(lo, hi)
        if math.gcd(k % mod, mod) == 1:
            return k


def rand_mod(rng, n, pmax=0.4):
    return (1 << n) if rng.random() < pmax or n == 0 else rng.randint(2, (1 << n))


def gen_case(rng, t, big=False):
    c = {"t": t}
    sz = lambda lo, hi: rng.randint(lo, hi)
    idle = 1 if rng.random() < 0.25 else 0
    if t == "SemiAdder":
        nx, ny = sz(1, 4 if big else 3), sz(1, 4 if big else 3)
        nw = rng.choice([ny - 1, ny - 1, ny, 0, max(ny - 2, 0)])
        sizes = {"x": nx, "y": ny, "work": nw}
        if rng.random() < 0.3:
            sizes["ctrl"] = sz(1, 2)
    elif t == "Incrementer":
        n = sz(1, 5 if big else 4)
        nw = rng.choice([n - 1, n, max(n - 1, 0), 0, max(n - 2, 0)])
        sizes = {"x": n, "work": nw}
        if rng.random() < 0.3:
            sizes["ctrl"] = sz(1, 2)
    elif t == "IntegerComparator":
        n = sz(1, 5 if big else 4)
        sizes = {"x": n, "tgt": 1, "work": rng.choice([0, 0, 1])}
        c["k"] = rng.choice([0, (1 << n) - 1, 1 << n, (1 << n) + 1, rng.randint(0, (1 << n))] + [rng.randint(1, (1 << n) - 1 if n > 0 else 1)] * 4)
        c["geq"] = rng.random() < 0.5
        c["matrix"] = True
    elif t in ("TemporaryAND", "AdjTemporaryAND"):
        sizes = {"x": 2, "tgt": 1}
        c["cv"] = [rng.randint(0, 1), rng.randint(0, 1)]
        c["matrix"] = True
    elif t == "QubitCarry":
        sizes = {"a": 1, "b": 1, "c": 1, "d": 1}
        c["matrix"] = True
    elif t == "QubitSum":
        sizes = {"a": 1, "b": 1, "c": 1}
        c["matrix"] = True
    elif t == "Adder":
        n = sz(1, 4)
        c["mod"] = rand_mod(rng, n)
        c["k"] = rng.randint(-6, 2 * (1 << n))
        sizes = {"x": n, "work": 0 if (c["mod"] == 1 << n and rng.random() < 0.7) else 2}
    elif t == "PhaseAdder":
        n = sz(1, 4)
        c["mod"] = (1 << n) if (rng.random() < 0.4 or n == 1) else rng.randint(2, 1 << (n - 1)) if n > 1 else 2
        c["k"] = rng.randint(-6, 2 * (1 << n))
        sizes = {"x": n, "work": 0 if c["mod"] == 1 << n else 1}
    elif t == "OutAdder":
        nx, ny, no = sz(1, 3), sz(1, 3), sz(1, 3)
        c["mod"] = rand_mod(rng, no)
        sizes = {"x": nx, "y": ny, "out": no, "work": 0 if c["mod"] == 1 << no else 2}
    elif t == "Multiplier":
        n = sz(1, 3)
        c["mod"] = rand_mod(rng, n)
        c["k"] = coprime(rng, c["mod"])
        sizes = {"x": n, "work": n + (0 if c["mod"] == 1 << n else 2)}
    elif t == "OutMultiplier":
        nx, ny, no = sz(1, 3), sz(1, 3), sz(1, 3)
        while nx + ny + no > (8 if big else 7):
            nx, ny, no = sz(1, 3), sz(1, 3), sz(1, 3)
        c["zeroed"] = rng.random() < 0.5
        nw = rng.choice([0, 2, no, no + 1, 2 * no - 1, 2 * no + 1])
        c["mod"] = rand_mod(rng, no, 0.65)
        if c["mod"] != 1 << no:
            nw = max(nw, 2)
        sizes = {"x": nx, "y": ny, "out": no, "work": nw}
    elif t == "SignedOutMultiplier":
        nx, ny, no = sz(2, 3), sz(2, 3), sz(2, 4 if big else 3)
        while nx + ny + no > 7:
            nx, ny, no = sz(2, 3), sz(2, 3), sz(2, 3)
        c["zeroed"] = rng.random() < 0.5
        nw = rng.choice([2, 2 + no, 2 + no + 1]) if c["zeroed"] else 2 * no + 1 + rng.choice([0, 0, 1])
        sizes = {"x": nx, "y": ny, "out": no, "work": nw}
    elif t == "ModExp":
        nx, no = sz(1, 2), sz(1, 3)
        c["mod"] = rand_mod(rng, no)
        c["k"] = coprime(rng, c["mod"])
        sizes = {"x": nx, "out": no, "work": no + (0 if c["mod"] == 1 << no else 2)}
    elif t == "OutSquare":
        n, m = sz(1, 3), sz(1, 4)
        c["zeroed"] = rng.random() < 0.5
        need = min(n + 1, m) if c["zeroed"] else m
        sizes = {"x": n, "out": m, "work": need + rng.choice([0, 0, 1, 2])}
    elif t == "SignedOutSquare":
        n, m = sz(2, 3), sz(1, 4)
        c["zeroed"] = rng.random() < 0.5
        need = min(n, m) if c["zeroed"] else m
        sizes = {"x": n, "out": m, "work": need + rng.choice([0, 0, 1, 2])}
    elif t == "OutPoly":
        nv = sz(1, 2)
        c["vars"] = ["x", "y"][:nv]
        no = sz(1, 3)
        c["mod"] = rand_mod(rng, no)
        sizes = {v: sz(1, 2) for v in c["vars"]}
        sizes["out"] = no
        sizes["work"] = 0 if c["mod"] == 1 << no else 2
        nt = sz(1, 3)
        c["poly"] = [[rng.randint(-3, 4), [rng.randint(0, 2) for _ in range(nv)]] for _ in range(nt)]
    else:
        raise KeyError(t)
    if sizes.get("work", 1) == 0:
        del sizes["work"]
    c["regs"], c["order"] = layout(rng, sizes, idle)
    if "ctrl" in c["regs"]:
        cw = c["regs"]["ctrl"]
        c["ctrl"] = {"w": cw, "v": [rng.randint(0, 1) for _ in cw]}
    n = len(c["order"])
    if n <= 8 and t not in ("PhaseAdder",):
        c["matrix"] = True
    return c


CORPUS = [
    # regression / hand-picked: the documentation examples scaled down, both comparator polarities, edge values
    {"t": "SemiAdder", "regs": {"x": [0, 1, 2], "y": [3, 4], "work": [5]}, "order": list(range(6)), "matrix": True},
    {"t": "SemiAdder", "regs": {"x": [0, 1], "y": [2, 3, 4, 5], "work": [6, 7, 8]}, "order": list(range(9))},
    {"t": "SemiAdder", "regs": {"x": [0], "y": [1]}, "order": list(range(2)), "matrix": True},
    {"t": "SemiAdder", "regs": {"x": [0, 1], "y": [2, 3], "work": [4]}, "order": list(range(5)), "matrix": True},
    {"t": "SemiAdder", "regs": {"x": [5, 1, 3], "y": [0, 2, 4], "work": [6, 7]}, "order": list(range(8)), "matrix": True},
    {"t": "Incrementer", "regs": {"x": [0, 1, 2], "work": [3, 4]}, "order": list(range(5)), "matrix": True},
    {"t": "Incrementer", "regs": {"x": [4, 2, 0, 1], "work": [3, 5, 6]}, "order": list(range(7)), "matrix": True},
    # controlled Incrementer with two and three controls (own registered rule, ladder over the control wires)
    {"t": "Incrementer", "regs": {"x": [0, 1, 2], "work": [3, 4, 5, 6], "ctrl": [7, 8]}, "ctrl": {"w": [7, 8], "v": [1, 1]}, "order": list(range(9))},
    {"t": "Incrementer", "regs": {"x": [1, 0], "work": [2, 3, 4, 5], "ctrl": [6, 7, 8]}, "ctrl": {"w": [6, 7, 8], "v": [1, 0, 1]}, "order": list(range(9))},
    {"t": "IntegerComparator", "k": 4, "geq": True, "regs": {"x": [0, 1, 2], "tgt": [3]}, "order": list(range(4)), "matrix": True},
    {"t": "IntegerComparator", "k": 3, "geq": False, "regs": {"x": [0, 1, 2], "tgt": [3]}, "order": list(range(4)), "matrix": True},
    {"t": "IntegerComparator", "k": 5, "geq": True, "regs": {"x": [2, 0, 3], "tgt": [1]}, "order": list(range(4)), "matrix": True},
    {"t": "IntegerComparator", "k": 5, "geq": False, "regs": {"x": [0, 1], "tgt": [2]}, "order": list(range(3)), "matrix": True},
    {"t": "TemporaryAND", "cv": [1, 1], "regs": {"x": [0, 1], "tgt": [2]}, "order": list(range(3)), "matrix": True},
    {"t": "AdjTemporaryAND", "cv": [1, 0], "regs": {"x": [0, 1], "tgt": [2]}, "order": list(range(3)), "matrix": True},
    {"t": "QubitCarry", "regs": {"a": [0], "b": [1], "c": [2], "d": [3]}, "order": list(range(4)), "matrix": True},
    {"t": "QubitSum", "regs": {"a": [0], "b": [1], "c": [2]}, "order": list(range(3)), "matrix": True},
    {"t": "Adder", "k": 5, "mod": 15, "regs": {"x": [0, 1, 2, 3], "work": [4, 5]}, "order": list(range(6)), "matrix": True},
    # constants outside [0, mod): every rule has to reduce k itself (the constructor stores it unreduced)
    {"t": "Adder", "k": 6, "mod": 5, "regs": {"x": [0, 1, 2], "work": [3, 4]}, "order": list(range(5)), "matrix": True},
    {"t": "Adder", "k": -1, "mod": 7, "regs": {"x": [0, 1, 2], "work": [3, 4]}, "order": list(range(5)), "matrix": True},
    {"t": "Adder", "k": 13, "mod": 5, "regs": {"x": [2, 0, 1], "work": [4, 3]}, "order": list(range(5))},
    {"t": "PhaseAdder", "k": 5, "mod": 7, "regs": {"x": [0, 1, 2, 3], "work": [4]}, "order": list(range(5))},
    {"t": "OutAdder", "mod": 7, "regs": {"x": [0, 1], "y": [3, 4], "out": [7, 8, 2], "work": [6, 5]}, "order": list(range(9))},
    {"t": "Multiplier", "k": 4, "mod": 7, "regs": {"x": [0, 1, 2], "work": [3, 4, 5, 6, 7]}, "order": list(range(8))},
    {"t": "OutMultiplier", "mod": 8, "regs": {"x": [0, 1], "y": [2], "out": [4, 5, 6], "work": [7, 8, 9, 10, 3]}, "order": list(range(11))},
    {"t": "SignedOutMultiplier", "zeroed": True, "regs": {"x": [0, 1], "y": [2, 3], "out": [4, 5, 6], "work": [7, 8]}, "order": list(range(9))},
    {"t": "SignedOutMultiplier", "zeroed": False, "regs": {"x": [0, 1], "y": [2, 3], "out": [4, 5, 6], "work": [7, 8, 9, 10, 11, 12, 13]}, "order": list(range(14))},
    {"t": "ModExp", "k": 2, "mod": 7, "regs": {"x": [0, 1], "out": [2, 3, 4], "work": [5, 6, 7, 8, 9]}, "order": list(range(10))},
    {"t": "OutSquare", "regs": {"x": [0, 1], "out": [2, 3, 4], "work": [5, 6, 7]}, "order": list(range(8)), "matrix": True},
    {"t": "SignedOutSquare", "regs": {"x": [0, 1, 2], "out": [3, 4, 5], "work": [6, 7, 8]}, "order": list(range(9))},
    # boundary register sizes: output of exactly 2n-1 and 2n wires (the last correction step is guarded by m >= 2n-1)
    {"t": "SignedOutSquare", "regs": {"x": [0, 1], "out": [2, 3, 4], "work": [5, 6, 7]}, "order": list(range(8))},
    {"t": "SignedOutSquare", "zeroed": True, "regs": {"x": [0, 1], "out": [2, 3, 4], "work": [5, 6]}, "order": list(range(7))},
    {"t": "SignedOutSquare", "regs": {"x": [0, 1], "out": [2, 3, 4, 5], "work": [6, 7, 8, 9]}, "order": list(range(10))},
    # comparator boundary values 2^n - 1 and 2^n
    {"t": "IntegerComparator", "k": 3, "geq": True, "regs": {"x": [0, 1], "tgt": [2]}, "order": list(range(3)), "matrix": True},
    {"t": "IntegerComparator", "k": 4, "geq": True, "regs": {"x": [0, 1], "tgt": [2]}, "order": list(range(3)), "matrix": True},
    {"t": "IntegerComparator", "k": 7, "geq": True, "regs": {"x": [1, 2, 0], "tgt": [3]}, "order": list(range(4)), "matrix": True},
    {"t": "OutPoly", "mod": 7, "vars": ["x", "y"], "poly": [[1, [2, 0]], [1, [0, 1]]],
     "regs": {"x": [0, 1], "y": [2, 3], "out": [4, 5, 6], "work": [7, 8]}, "order": list(range(9))},
]

TEMPLATES = ["SemiAdder", "Incrementer", "IntegerComparator", "TemporaryAND", "AdjTemporaryAND", "QubitCarry", "QubitSum",
             "Adder", "PhaseAdder", "OutAdder", "Multiplier", "OutMultiplier", "SignedOutMultiplier", "ModExp",
             "OutSquare", "SignedOutSquare", "OutPoly"]
WEIGHT = {"SemiAdder": 4, "Incrementer": 3, "IntegerComparator": 4, "OutMultiplier": 3, "Adder": 2, "OutSquare": 2,
          "SignedOutSquare": 2, "SignedOutMultiplier": 2, "TemporaryAND": 1, "AdjTemporaryAND": 1, "QubitCarry": 1, "QubitSum": 1}


# ------------------------------------------------------------------ Gallina printers
def g_nats(ws):
    return glist(ws, gnat)


def g_ctrls(g):
    return glist(list(zip(g["c"], g["v"])), lambda cv: f"({gnat(cv[0])}, {gbool(cv[1])})")


def g_gate(g):
    k = g["k"]
    if k == "X":
        return f"GX {g_ctrls(g)} {gnat(g['t'][0])}"
    if k == "SWAP":
        return f"GSwap {g_ctrls(g)} {gnat(g['t'][0])} {gnat(g['t'][1])}"
    if k == "AND":
        return f"GAnd {g_ctrls(g)} {gnat(g['t'][0])}"
    if k == "ANDADJ":
        return f"GAndAdj {g_ctrls(g)} {gnat(g['t'][0])}"
    raise KeyError(k)


def g_spec(c):
    t = c["t"]
    s = {"SemiAdder": "SSemiAdd", "Incrementer": "SInc", "QubitCarry": "SCarry", "QubitSum": "SSum",
         "SignedOutMultiplier": "SSOutMul", "OutSquare": "SOutSq", "SignedOutSquare": "SSOutSq"}.get(t)
    if t == "IntegerComparator":
        s = f"SCmp {gz(c['k'])} {gbool(c['geq'])}"
    elif t in ("TemporaryAND", "AdjTemporaryAND"):
        s = f"SAnd {gz(cv_int(c['cv']))}"
    elif t in ("Adder", "PhaseAdder"):
        s = f"SAddC {gz(c['k'])} {gz(c['mod'])}"
    elif t == "OutAdder":
        s = f"SOutAdd {gz(c['mod'])}"
    elif t == "Multiplier":
        s = f"SMulC {gz(c['k'])} {gz(c['mod'])}"
    elif t == "OutMultiplier":
        s = f"SOutMul {gz(c['mod'])}"
    elif t == "ModExp":
        s = f"SModExp {gz(c['k'])} {gz(c['mod'])}"
    if s is None:
        return None
    if c.get("ctrl"):
        s = f"SCtrl {gz(cv_int(c['ctrl']['v']))} ({s})"
    return s


def g_model(c, rule):
    """the transcribed circuit the exported gate list of `rule` must coincide with (MNone: semantic check only)"""
    if c.get("ctrl"):
        return "MNone"
    t, r = c["t"], c["regs"]
    pos = lambda ws: g_nats([c["order"].index(w) for w in ws])
    p1 = lambda ws: gnat(c["order"].index(ws[0]))
    if t == "SemiAdder" and rule in ("_semi_adder", "<decomposition()>") and len(r.get("work", [])) >= len(r["y"]) - 1:
        return f"MSemiAdder {pos(r['x'])} {pos(r['y'])} {pos(r.get('work', []))}"
    if t == "Incrementer" and rule == "_incrementer_decomposition":
        return f"MIncrementer {pos(r['x'])} {pos(r.get('work', []))}"
    if t == "Incrementer" and rule == "_incrementer_fallback_decomposition":
        return f"MIncFallback {pos(r['x'])}"
    if t == "IntegerComparator" and rule in ("_integer_comparator_lt_decomposition", "_integer_comparator_ge_decomposition", "<decomposition()>"):
        return f"MComparator {gz(c['k'])} {gbool(c['geq'])} {pos(r['x'])} {p1(r['tgt'])}"
    if t == "QubitCarry":
        return f"MCarry {p1(r['a'])} {p1(r['b'])} {p1(r['c'])} {p1(r['d'])}"
    if t == "QubitSum":
        return f"MSum {p1(r['a'])} {p1(r['b'])} {p1(r['c'])}"
    if t == "TemporaryAND" and rule == "_temporary_and_to_toffoli":
        return None   # the Toffoli rule is X-conjugated Toffoli, not the elbow itself: semantic check only
    return "MNone"


def tag(c):
    t = c["t"]
    if t == "Incrementer":
        return "work" if len(c["regs"].get("work", [])) + 1 >= len(c["regs"]["x"]) + len(c["regs"].get("ctrl", [])) else "nowork"
    if c.get("ctrl"):
        return "ctrl"
    if t == "IntegerComparator" and c["k"] > (1 << len(c["regs"]["x"])):
        return "overrange"       # value beyond 2^n: decomposition defined (always / never flip)
    return ""


NATIVE_MATRIX = ("IntegerComparator", "TemporaryAND", "AdjTemporaryAND", "QubitCarry", "QubitSum")


def fail_class(c, d, got, expect):
    """classification of the failing inputs of SignedOutMultiplier (makes violation keys stable).  The known
    zeroed-rule defect (sign bit = sx xor sy, magnitude negated separately) shows up exactly on inputs whose
    product is 0 with a negative factor ("negzero") or does not fit k signed bits ("overflow"); all failures
    of that kind get the single tag "negzero+overflow", anything else is tagged "other"."""
    if c["t"] != "SignedOutMultiplier" or c.get("ctrl"):
        return ""
    nx, ny, k = (len(c["regs"][r]) for r in ("x", "y", "out"))
    cls = set()
    for v, g, e in zip(d, got, expect):
        if g == e:
            continue
        sx, sy = signed(v[0], nx), signed(v[1], ny)
        if not (-(1 << (k - 1)) <= sx * sy < (1 << (k - 1))) or (sx * sy == 0 and (sx < 0 or sy < 0)):
            cls.add("negzero+overflow")
        else:
            cls.add("other")
    return "+".join(sorted(cls, reverse=True))      # "other" first if present: "other+negzero+overflow" / "other"


def case_key(c):
    d = {k: v for k, v in c.items() if k not in ("inputs", "matrix")}
    return json.dumps(d, sort_keys=True)


def run(ctx):
    import time as _t
    t0 = _t.time()
    ctx.coq_props()
    t_props = _t.time() - t0
    rng = ctx.rng
    quick = ctx.tier == "quick"
    per = 1 if quick else 5
    cases = [dict(c) for c in CORPUS]
    for t in TEMPLATES:
        for _ in range(per * WEIGHT.get(t, 1)):
            for _try in range(50):
                c = gen_case(rng, t, big=not quick)
                if len(c["order"]) <= (12 if quick else 14) and len(domain(c)) << len(c["order"]) <= (1 << (16 if quick else 19)):
                    break
            cases.append(c)
    doms = []
    for c in cases:
        d = domain(c)
        doms.append(d)
        c["inputs"] = [to_int(c, v) for v in d]
        if len(c["order"]) > 8:
            c.pop("matrix", None)
    # implementation runs (parallel worker processes; each imports pennylane once)
    nproc = 3 if quick else 6
    order_idx = sorted(range(len(cases)), key=lambda i: -len(cases[i]["inputs"]) * (1 << len(cases[i]["order"])))
    chunks = [order_idx[k::nproc] for k in range(nproc)]
    obs = [None] * len(cases)

    def work(idx):
        return idx, ctx.run_impl("c56_impl.py", {"cases": [cases[i] for i in idx]})
    with ThreadPoolExecutor(max_workers=nproc) as ex:
        for idx, res in ex.map(work, [ch for ch in chunks if ch]):
            for i, r in zip(idx, res):
                obs[i] = r
    t_impl = _t.time() - t0 - t_props
    hist = {"cases": len(cases), "basis_inputs": 0, "dq_runs": 0, "rules_run": {}, "classical_rules": 0, "nonclassical_rules": 0,
            "matrix_checked": 0, "syntactic_model_ties": 0, "controlled": 0, "with_modulus": 0, "dynamic_work_wires": 0,
            "per_template": {}}
    terms, term_meta = [], []
    for c, d, o in zip(cases, doms, obs):
        t = c["t"]
        key0 = case_key(c)
        hist["per_template"][t] = hist["per_template"].get(t, 0) + 1
        hist["basis_inputs"] += len(d)
        hist["controlled"] += 1 if c.get("ctrl") else 0
        hist["with_modulus"] += 1 if c.get("mod") and c["mod"] != 1 << len(c["regs"].get("out", c["regs"].get("x"))) else 0
        if o["err"]:
            ctx.violation(f"build:{t}:{key0}", {"case": c, "error": o["err"]}, what=f"{t}: template could not be built/run: {o['err']}")
            continue
        expect = [to_int(c, oracle(c, v)) for v in d]
        names = vregs(c)
        for ent in o["rules"]:
            rname = ent["name"]
            hist["rules_run"][f"{t}/{rname}"] = hist["rules_run"].get(f"{t}/{rname}", 0) + 1
            if ent["dq"] is None:
                ctx.violation(f"run:{t}[{tag(c)}]/{rname}:{key0}", {"case": c, "rule": rname, "error": ent["why"]},
                              what=f"{t} rule {rname} does not execute on default.qubit: {ent['why'][:200]}")
            else:
                hist["dq_runs"] += len(d)
                ent["cls"] = fail_class(c, d, ent["dq"], expect)
                for v, got, exp in zip(d, ent["dq"], expect):
                    if got != exp:
                        ctx.violation(f"dq:{t}[{tag(c) or ent['cls']}]/{rname}:{key0}",
                                      {"case": {k: x for k, x in c.items() if k != "inputs"}, "rule": rname,
                                       "registers": names, "input_values": v, "expected_values": oracle(c, v),
                                       "expected_basis_index": exp, "observed_basis_index": got},
                                      what=f"{t} via {rname}: basis input {dict(zip(names, v))} is not mapped to the documented output "
                                           f"{dict(zip(names, oracle(c, v)))} on default.qubit (observed index {got}, -1 = not a basis state)")
                        break
            if ent["gates"] is not None:
                hist["classical_rules"] += 1
                if ent["nw"] > len(c["order"]):
                    hist["dynamic_work_wires"] += 1
                sp = g_spec(c)
                if sp is not None:
                    mdl = g_model(c, rname) or "MNone"
                    hist["syntactic_model_ties"] += 0 if mdl == "MNone" else 1
                    regs = glist([g_nats([c["order"].index(w) for w in c["regs"][r]]) for r in names])
                    ins = glist([glist(v, gz) for v in d])
                    terms.append(f"{{| c_spec := {sp}; c_regs := {regs}; c_nw := {gnat(ent['nw'])}; "
                                 f"c_gates := {glist(ent['gates'], g_gate)}; c_model := {mdl}; c_inputs := {ins} |}}")
                    term_meta.append((c, rname, key0, ent.get("cls", "")))
            elif rname != "<device>":
                hist["nonclassical_rules"] += 1
        if o.get("mat_err") and t not in NATIVE_MATRIX:
            hist["matrix_unavailable"] = hist.get("matrix_unavailable", 0) + 1    # e.g. dynamically allocated work wires
        if o.get("mat_err") and t in NATIVE_MATRIX:
            ctx.violation(f"matrix-err:{t}[{tag(c)}]:{key0}", {"case": {k: x for k, x in c.items() if k != "inputs"}, "error": o["mat_err"]},
                          what=f"qp.matrix({t}) raises on a configuration whose decomposition is defined: {o['mat_err'][:200]}")
        if o.get("mat") is not None:
            hist["matrix_checked"] += 1
            for v, got, exp in zip(d, o["mat"], expect):
                if got != exp:
                    ctx.violation(f"matrix:{t}[{tag(c) or fail_class(c, d, o['mat'], expect)}]:{key0}", {"case": {k: x for k, x in c.items() if k != "inputs"},
                                  "input_values": v, "expected_basis_index": exp, "matrix_column_index": got},
                                  what=f"qp.matrix({t}) column for input {dict(zip(names, v))} is not the documented basis vector / differs from the decomposition")
                    break
    if terms:
        bad = ctx.coq_eval_cases("cases", "From PLV Require Import Disc.ArithModel.", terms, "check_case", chunk=40)
        if bad:
            bad_sem = set(ctx.coq_eval_cases("sem", "From PLV Require Import Disc.ArithModel.", [terms[i] for i in bad], "check_sem_only", chunk=40))
        for j, i in enumerate(bad):
            c, rname, key0, cls = term_meta[i]
            kind = "sem" if j in bad_sem else "syn"
            ctx.violation(f"corr-{kind}:{c['t']}[{tag(c) or cls}]/{rname}:{key0}", {"case": {k: x for k, x in c.items() if k != "inputs"}, "rule": rname,
                          "kind": kind},
                          what=(f"{c['t']} rule {rname}: exported classical gate list, simulated in Coq, does not compute the documented function / leaves work wires dirty"
                                if kind == "sem" else
                                f"{c['t']} rule {rname}: real gate list differs from the transcribed model circuit (model no longer describes the code)"))
    ctx.notes.append(f"stage seconds: props {t_props:.1f}, implementation runs {t_impl:.1f}, coq simulation {_t.time() - t0 - t_props - t_impl:.1f}")
    ctx.coverage.update({"evaluations": hist["dq_runs"] + hist["basis_inputs"], "distinct_nontrivial": len({case_key(c) for c in cases}),
                         "rule": "every template of the property x random sizes (<=4 qubit registers), moduli, constants, coprime multipliers, "
                                 "polynomials, work-wire counts, zeroed flags, wire layouts (random permutation, optional idle wire), controlled variants; "
                                 "ALL basis inputs of the documented domain; every applicable decomposition rule + device path; corpus of doc examples first",
                         "input_distribution": hist})
    for c, o in list(zip(cases, obs))[:3]:
        ctx.sample({"case": {k: x for k, x in c.items() if k != "inputs"}, "rules": [(e["name"], e["gates"] is not None) for e in o["rules"]]})
