"""C30 Sample post-processing is exact."""
from fractions import Fraction
from collections import Counter

from vlib import *

PID = "C30"
META = {
    "level": "proof",
    "technique": "Coq proofs by induction over a Gallina transcription of process_samples/process_counts (exact integer arithmetic) + vm_compute correspondence against the real measurement processes on generated sample arrays",
    "design_ref": "DESIGN.md §3 C30",
    "text": "Kernel-checked theorems (Props/C30.v) state, for ALL sample arrays, wire orders and wire subsets: basis index = big-endian binary value (dot with powers of two = int(str,2), inverse of the bit-string formatter); the +-1 fast path equals eigenvalue lookup; expval numerator = direct sum of per-sample eigenvalues; var numerator = n*(n*sum x^2 - (sum x)^2) (i.e. mean(x^2)-mean(x)^2); probs = frequency of each index, length 2^k, summing to the number of shots; counts = multiplicity of every outcome with total = shots and every bit string listed under all_outcomes; MCM arithmetic = direct evaluation on the sampled bits; process_counts(counts s) agrees with process_samples s (counts, probs, expval). The executable model is evaluated inside Coq on the same generated arrays as ExpectationMP/VarianceMP/ProbabilityMP/CountsMP/SampleMP .process_samples/.process_counts and every output entry is compared exactly (integers after scaling by the dyadic eigenvalue unit and the shot count). A direct python oracle re-computes each statistic from the raw samples as well.",
    "note": "Trusted: Coq kernel; hand transcription in coq/Disc/SamplesModel.v tied to /repo only by the correspondence run. Operator eigvals()/wires of real observables (Pauli, Prod, SProd, Sum, Hermitian, Projector) are oracles recorded from the run; MeasurementValue branch values are computed by the model. Floats: eigenvalues are k/4, results are compared after multiplying by the exact denominators (exactly for power-of-two shot counts, else rounding with 1e-6 tolerance on an integer grid). Not modelled / never generated: NaN removal in counts, jax/abstract branches, dtype casting, batched arrays combined with bin_size for sample/counts, measurement processes without wires in process_counts, ExpectationMP without wires. Bin layout is transcribed as implemented (expval/var/sample: strided bins from reshape((bin_size,-1)), batches flattened together; probs/counts: consecutive bins) and theorems about bins only claim what holds for that layout. FIXED DEFECT: CountsMP(eigvals=<repeated values>, wires).process_samples used to overwrite instead of summing; repaired by a fix: commit in /repo, the model now sums (remap_merge) and the degenerate-eigvals stream is checked like any other. Observation (not checked, by instruction): CountsMP().process_counts (no wires) collapses all outcomes to the empty key.",
    "assumptions": ["sample arrays are rectangular 0/1 integer arrays whose last axis matches wire_order",
                    "eigenvalues are dyadic (multiples of 1/4) so that float results are exact or exactly roundable",
                    "MeasurementValue arithmetic restricted to + - * ~ == with integer constants"],
    "trusted": ["hand-written model coq/Disc/SamplesModel.v tied to /repo by correspondence only",
                "operator eigvals()/wires taken from the run as oracles"],
}

ONE = 4
FINDING_KEY = "finding:counts_eigvals_degenerate_overwrite"


# ------------------------------------------------------------------ generator
def gen_expr(rng, n):
    """random MeasurementValue arithmetic using every one of the n measurements"""
    e = ["v", 0]
    for i in range(1, n):
        op = rng.choice(["add", "add", "sub", "mul", "eq"])
        v = ["v", i]
        if rng.random() < 0.3:
            v = ["mul", ["c", rng.choice([2, 3, -1])], v]
        e = [op, e, v] if rng.random() < 0.7 else [op, v, e]
    for _ in range(rng.choice([0, 0, 1, 1, 2])):
        r = rng.random()
        c = ["c", rng.choice([1, 2, -1, 3, 0])]
        if r < 0.25:
            e = ["add", e, c] if rng.random() < 0.5 else ["add", c, e]
        elif r < 0.45:
            e = ["sub", c, e] if rng.random() < 0.6 else ["sub", e, c]
        elif r < 0.65:
            e = ["mul", c, e] if rng.random() < 0.5 else ["mul", e, c]
        elif r < 0.8:
            e = ["not", e]
        elif r < 0.9:
            e = ["eq", e, c]
        else:
            e = ["mul", e, ["v", rng.randrange(n)]]
    return e


def ev_expr(e, bits):
    t = e[0]
    if t == "v":
        return bits[e[1]]
    if t == "c":
        return e[1]
    if t == "not":
        return 1 if ev_expr(e[1], bits) == 0 else 0
    a, b = ev_expr(e[1], bits), ev_expr(e[2], bits)
    return {"add": a + b, "sub": a - b, "mul": a * b, "eq": int(a == b)}[t]


def gen_ev(rng, k, injective=False, degenerate=False):
    dim = 2 ** k
    if degenerate:
        vals = [rng.choice([4, -4, 2, 0]) for _ in range(dim)]
        if len(set(vals)) == dim:
            vals[-1] = vals[0]
        return vals
    if injective:
        return rng.sample(range(-12, 13), dim)
    return [rng.randint(-12, 12) for _ in range(dim)]


def gen_obs(rng, kind, order, pc, malformed):
    W = len(order)
    k = rng.choice([1, 1, 2, 2, 3]) if W >= 3 else rng.randint(1, W)
    k = min(k, W)
    ws = rng.sample(order, k)
    types = {"expval": ["eig", "op", "op", "mv"], "var": ["eig", "op", "op", "mv"],
             "probs": ["wires", "wires", "mvlist", "eig", "op", "mv"],
             "counts": ["wires", "wires", "mvlist", "eig", "eig", "op", "op", "mv"],
             "sample": ["wires", "wires", "mvlist", "eig", "op", "op", "mv"]}[kind]
    t = rng.choice(types)
    if pc is not None and t == "mvlist":
        t = "wires"
    if t == "wires":
        if pc is None and rng.random() < 0.25:
            ws = []
        return {"t": "wires", "ws": ws}
    if t == "mvlist":
        return {"t": "mvlist", "ws": ws}
    if t == "eig":
        r = rng.random()
        if r < 0.15 and not (kind == "counts" and pc is None):
            ws = ws[:1]
            return {"t": "eig", "ws": ws, "ev": [ONE, -ONE], "float": rng.random() < 0.5}      # fast path
        if malformed == "short_ev":
            ev = gen_ev(rng, len(ws), injective=True)[:-1]
            return {"t": "eig", "ws": ws, "ev": ev, "float": True}
        if malformed == "pm1_two_wires" and W >= 2:
            return {"t": "eig", "ws": rng.sample(order, 2), "ev": [ONE, -ONE], "float": True}
        # CountsMP(eigvals=..).process_samples with repeated eigenvalues is the known defect: its own stream
        inj = kind == "counts" and pc is None
        return {"t": "eig", "ws": ws, "ev": gen_ev(rng, len(ws), injective=inj), "float": True}
    if t == "mv":
        return {"t": "mv", "ws": ws, "e": gen_expr(rng, len(ws))}
    name = rng.choice(["Z", "X", "Y", "H", "prodZ", "prodZ", "sprod", "sumZ", "herm", "herm", "proj"])
    if name in ("Z", "X", "Y", "H"):
        return {"t": "op", "name": name, "ws": ws[:1]}
    if name == "prodZ":
        return {"t": "op", "name": name, "ws": ws}
    if name == "sprod":
        return {"t": "op", "name": name, "ws": ws, "coef": rng.choice([2, 6, -4, 1, 8])}
    if name == "sumZ":
        return {"t": "op", "name": name, "ws": ws, "coefs": [rng.choice([4, 2, -4, 6, 1]) for _ in ws]}
    if name == "herm":
        return {"t": "op", "name": name, "ws": ws, "diag": gen_ev(rng, len(ws))}
    return {"t": "op", "name": "proj", "ws": ws, "state": [rng.randint(0, 1) for _ in ws]}


def py_slice_len(n, rng_):
    return n if rng_ is None else len(range(n)[slice(*rng_)])


def gen_case(rng, tier, force=None):
    big = tier != "quick"
    W = rng.choice([1, 2, 2, 3, 3, 3, 4] + ([5] if big else []))
    order = rng.sample(range(0, 8), W)
    N = rng.choice([1, 2, 3, 4, 4, 5, 6, 7, 8, 8, 10, 12, 16, 16, 32] + ([24, 64] if big else []))
    kind = rng.choice(["expval", "var", "probs", "counts", "counts", "sample"])
    pc = rng.choice([True, False]) if rng.random() < 0.25 else None
    malformed = None
    if rng.random() < 0.08:
        malformed = rng.choice(["bad_wire", "short_ev", "pm1_two_wires", "bad_bin"])
    batched = pc is None and rng.random() < 0.25
    B = rng.choice([1, 2, 2, 3]) if batched else 1
    p = rng.choice([0.5, 0.5, 0.2, 0.8, 0.05])
    data = [[[1 if rng.random() < p else 0 for _ in range(W)] for _ in range(N)] for _ in range(B)]
    obs = gen_obs(rng, kind, order, pc, malformed)
    c = {"one": ONE, "kind": kind, "ao": kind == "counts" and rng.random() < 0.5, "obs": obs, "batched": batched,
         "data": data, "order": order, "range": None, "bin": None, "pc": pc}
    if malformed == "bad_wire" and obs["ws"]:
        obs["ws"] = list(obs["ws"])
        obs["ws"][rng.randrange(len(obs["ws"]))] = 9
        if obs["t"] == "op" and obs["name"] == "proj":
            pass
    if pc is None:
        if rng.random() < 0.3 and N >= 2:
            r = rng.random()
            if r < 0.8:
                lo = rng.randint(0, N - 1)
                hi = rng.randint(lo + 1, N + 2)
            elif r < 0.9:
                lo, hi = -rng.randint(1, N), N
            else:
                lo, hi = 0, -rng.randint(1, N - 1)
            c["range"] = [lo, hi]
        ns = py_slice_len(N, c["range"])
        allow_bin = (not batched) or kind in ("expval", "var", "probs")
        if allow_bin and rng.random() < 0.3:
            divs = [d for d in range(1, ns + 1) if ns % d == 0]
            c["bin"] = rng.choice(divs)
            if malformed == "bad_bin":
                nd = [d for d in range(1, ns + 2) if ns % d != 0]
                if nd:
                    c["bin"] = rng.choice(nd)
    return c


def degenerate_counts_case(rng):
    W = rng.choice([2, 3])
    order = rng.sample(range(0, 8), W)
    k = rng.choice([1, 2, 2, W])
    ws = rng.sample(order, k)
    N = rng.choice([4, 8, 8, 10, 16])
    data = [[[rng.randint(0, 1) for _ in range(W)] for _ in range(N)]]
    return {"one": ONE, "kind": "counts", "ao": rng.random() < 0.5,
            "obs": {"t": "eig", "ws": ws, "ev": gen_ev(rng, k, degenerate=True), "float": True},
            "batched": False, "data": data, "order": order, "range": None, "bin": None, "pc": None}


CORPUS = [
    # the documented defect: CountsMP(eigvals=[1,1,-1,-1], wires=[0,1]).process_samples
    {"one": ONE, "kind": "counts", "ao": False, "obs": {"t": "eig", "ws": [0, 1], "ev": [4, 4, -4, -4], "float": True},
     "batched": False, "data": [[[0, 0], [0, 1], [0, 1], [1, 0], [1, 1], [1, 1], [1, 1], [0, 0]]], "order": [0, 1],
     "range": None, "bin": None, "pc": None},
    {"one": ONE, "kind": "expval", "ao": False, "obs": {"t": "eig", "ws": [1, 0], "ev": [2, 8, 12, -4], "float": True},
     "batched": False, "data": [[[0, 0], [0, 1], [0, 1], [1, 0], [1, 1], [1, 1], [1, 1], [0, 0]]], "order": [0, 1],
     "range": None, "bin": 4, "pc": None},
    {"one": ONE, "kind": "expval", "ao": False, "obs": {"t": "mv", "ws": [0, 1], "e": ["sub", ["add", ["v", 0], ["mul", ["c", 2], ["v", 1]]], ["c", 1]]},
     "batched": False, "data": [[[0, 0, 1], [0, 1, 1], [1, 1, 0], [1, 0, 0]]], "order": [2, 1, 0],
     "range": None, "bin": None, "pc": None},
    {"one": ONE, "kind": "sample", "ao": False, "obs": {"t": "mv", "ws": [0], "e": ["sub", ["c", 1], ["mul", ["c", 2], ["v", 0]]]},
     "batched": False, "data": [[[0, 0, 1], [0, 1, 1], [1, 1, 0], [1, 0, 0]]], "order": [2, 1, 0],
     "range": None, "bin": None, "pc": None},
    {"one": ONE, "kind": "counts", "ao": True, "obs": {"t": "wires", "ws": []},
     "batched": True, "data": [[[0, 0], [1, 0], [1, 0]], [[1, 1], [1, 1], [0, 1]]], "order": [5, 3],
     "range": [1, 3], "bin": None, "pc": None},
    {"one": ONE, "kind": "probs", "ao": False, "obs": {"t": "wires", "ws": [3, 5]},
     "batched": True, "data": [[[0, 0], [1, 0], [1, 0], [0, 0]], [[1, 1], [1, 1], [0, 1], [0, 0]]], "order": [5, 3],
     "range": None, "bin": 2, "pc": None},
    {"one": ONE, "kind": "var", "ao": False, "obs": {"t": "op", "name": "prodZ", "ws": [1, 0]},
     "batched": False, "data": [[[0, 1], [1, 1], [0, 0]]], "order": [0, 1], "range": None, "bin": None, "pc": True},
    {"one": ONE, "kind": "counts", "ao": True, "obs": {"t": "op", "name": "prodZ", "ws": [1, 0]},
     "batched": False, "data": [[[0, 1], [1, 1], [0, 0]]], "order": [0, 1], "range": None, "bin": None, "pc": False},
    {"one": ONE, "kind": "sample", "ao": False, "obs": {"t": "wires", "ws": [1]},
     "batched": False, "data": [[[0, 1], [1, 1], [0, 0], [1, 0]]], "order": [0, 1], "range": None, "bin": 2, "pc": None},
]


# ------------------------------------------------------------------ Gallina printers
def g_expr(e):
    t = e[0]
    if t == "v":
        return f"(MVar {gnat(e[1])})"
    if t == "c":
        return f"(MConst {gz(e[1])})"
    if t == "not":
        return f"(MNot {g_expr(e[1])})"
    return f"({ {'add': 'MAdd', 'sub': 'MSub', 'mul': 'MMul', 'eq': 'MEq'}[t]} {g_expr(e[1])} {g_expr(e[2])})"


def scaled_int(x, scale=ONE):
    v = Fraction(x) * scale
    return int(v) if v.denominator == 1 else None


def g_obs(c, o):
    ob = c["obs"]
    t = ob["t"]
    if t in ("wires", "mvlist"):
        return f"(OWires {glist(ob['ws'], gz)})"
    if t == "eig":
        return f"(OEig {glist(ob['ws'], gz)} {glist(ob['ev'], gz)})"
    if t == "mv":
        return f"(OMV {glist(ob['ws'], gz)} {g_expr(ob['e'])})"
    # operator: wires and eigvals() are oracles recorded from the run
    ev = [scaled_int(x) for x in o["ev"]]
    if any(v is None for v in ev):
        raise RuntimeError(f"C30 harness: non-dyadic operator eigenvalues {o['ev']} for {ob}")
    return f"(OObs {glist(o['wires'], gz)} {glist(ev, gz)})"


def g_kind(c):
    return {"expval": "KExp", "var": "KVar", "probs": "KProbs", "sample": "KSample",
            "counts": f"(KCounts {gbool(c['ao'])})"}[c["kind"]]


def g_case(c, o):
    data = glist(c["data"], lambda b: glist(b, lambda r: glist(r, lambda x: gbool(x))))
    rng_ = gopt(c["range"], lambda r: f"({gz(r[0])}, {gz(r[1])})")
    return (f"(mkCase {gz(c['one'])} {g_kind(c)} {g_obs(c, o)} {gbool(c['batched'])} {data} "
            f"{glist(c['order'], gz)} {rng_} {gopt(c['bin'], gz)} {gopt(c['pc'], gbool)})")


class Inexact(Exception):
    pass


def to_int(x, scale, exact):
    v = Fraction(x) * scale
    if v.denominator == 1:
        return int(v)
    if exact:
        raise Inexact(f"{x!r} * {scale} is not an integer although the denominator is a power of two")
    r = round(v)
    if abs(v - r) > Fraction(1, 10 ** 6):
        raise Inexact(f"{x!r} * {scale} = {float(v)} is not within 1e-6 of an integer")
    return r


def g_tens(a, f):
    if isinstance(a, list):
        return "(TL " + glist(a, lambda x: g_tens(x, f)) + ")"
    return f"(TZ {gz(f(a))})"


def is_pow2(n):
    return n > 0 and (n & (n - 1)) == 0


def denominators(c):
    """(shots used, denominator of the statistic) computed independently of the model"""
    N = len(c["data"][0])
    if c["pc"] is not None:
        return N, N
    ns = py_slice_len(N, c["range"])
    if c["kind"] in ("expval", "var"):
        return ns, (c["bin"] if c["bin"] is not None else ns)
    if c["kind"] == "probs":
        return ns, (c["bin"] or ns)
    return ns, ns


def g_dict(d):
    items = []
    for kt, k, v in d:
        if kt == "b":
            items.append(f"(inl {glist(k, lambda ch: gbool(ch == '1'))}, {gz(v)})")
        else:
            items.append(f"(inr {gz(to_int(k, ONE, True))}, {gz(v)})")
    return "[" + "; ".join(items) + "]"


def g_expected(c, o):
    r = o["r"]
    if r == "ERR":
        return "RErr"
    try:
        if r["t"] == "dict":
            return f"(RD {g_dict(r['v'])})"
        if r["t"] == "dicts":
            return f"(RDs {glist(r['v'], g_dict)})"
        ns, den = denominators(c)
        k = c["kind"]
        ex = is_pow2(den)
        if k == "sample":
            raw = c["obs"]["t"] in ("wires", "mvlist")
            return "(RT " + g_tens(r["v"], lambda x: to_int(x, 1 if raw else ONE, True)) + ")"
        if k == "expval":
            return "(RQ " + g_tens(r["v"], lambda x: to_int(x, ONE * den, ex)) + f" {gz(den)})"
        if k == "probs":
            return "(RQ " + g_tens(r["v"], lambda x: to_int(x, den, ex)) + f" {gz(den)})"
        if k == "var":
            if c["pc"] is not None:       # model: n*sum(c e^2) - (sum c e)^2 over n^2
                return "(RQ " + g_tens(r["v"], lambda x: to_int(x, ONE * ONE * den * den, ex)) + f" {gz(den * den)})"
            # model: sum (n x_i - S)^2 = n * (n^2 one^2 var)
            return "(RQ " + g_tens(r["v"], lambda x: den * to_int(x, ONE * ONE * den * den, ex)) + f" {gz(den)})"
    except Inexact:
        return "RUnsup"           # never equal to a model result: reported as a violation
    raise RuntimeError("unreachable")


# ------------------------------------------------------------------ direct oracle (the property itself)
def obs_wires(c, o):
    return o["wires"] if c["obs"]["t"] == "op" else c["obs"]["ws"]


def row_value(c, o, bits):
    """eigenvalue (scaled by ONE) of one sample by DIRECT arithmetic"""
    ob = c["obs"]
    if ob["t"] == "mv":
        return ONE * ev_expr(ob["e"], bits)
    ev = ob["ev"] if ob["t"] == "eig" else [scaled_int(x) for x in o["ev"]]
    return ev[int("".join(map(str, bits)), 2)]


def flat(a):
    if isinstance(a, list):
        for x in a:
            yield from flat(x)
    else:
        yield a


def direct_oracle(c, o):
    """returns None if fine / not applicable, else (key_kind, message)"""
    r = o["r"]
    if r == "ERR":
        return None
    ob, kind = c["obs"], c["kind"]
    ws = obs_wires(c, o)
    order = c["order"]
    idxs = [order.index(w) for w in ws] if ws else list(range(len(order)))
    rng_ = c["range"]
    batches = []
    for b in c["data"]:
        rows = b if rng_ is None else b[slice(*rng_)]
        batches.append([[row[i] for i in idxs] for row in rows])
    raw = ob["t"] in ("wires", "mvlist")
    ns, den = denominators(c)
    k = len(idxs)
    try:
        if kind in ("expval", "var"):
            vals = [[row_value(c, o, row) for row in rows] for rows in batches]
            got = list(flat(r["v"]))
            if c["bin"] is None:
                if kind == "expval":
                    want = [sum(v) for v in vals]
                    gotn = [to_int(x, ONE * den, False) for x in got]
                else:
                    want = [den * sum(x * x for x in v) - sum(v) ** 2 for v in vals]
                    gotn = [to_int(x, ONE * ONE * den * den, False) for x in got]
                if gotn != want:
                    return "direct", f"{kind}: implementation {gotn} != direct arithmetic {want}"
            elif kind == "expval":
                tot = sum(to_int(x, ONE * den, False) for x in got)
                if tot != sum(sum(v) for v in vals):
                    return "direct", "expval bins do not partition the samples (sum of bin sums != total sum)"
            return None
        if kind == "probs":
            bs = den
            want = []
            for rows in batches:
                ix = [int("".join(map(str, row)), 2) for row in rows]
                bins = [ix[j:j + bs] for j in range(0, len(ix), bs)]
                want.append([[bn.count(p) for bn in bins] for p in range(2 ** k)])
            want = [x for x in flat(want)]
            gotn = [to_int(x, den, False) for x in flat(r["v"])]
            if gotn != want:
                return "direct", f"probs: implementation {gotn} != frequencies {want}"
            return None
        if kind == "counts":
            dicts = [r["v"]] if r["t"] == "dict" else r["v"]
            if c["pc"] is not None or c["bin"] is None:
                groups = batches
            else:
                rows = batches[0]
                groups = [rows[j:j + c["bin"]] for j in range(0, len(rows), c["bin"])]
            if len(dicts) != len(groups):
                return "direct", "counts: wrong number of dictionaries"
            for d, rows in zip(dicts, groups):
                if raw:
                    want = Counter("".join(map(str, row)) for row in rows)
                    allk = [format(i, f"0{k}b") for i in range(2 ** k)]
                    gotd = {kk: v for kt, kk, v in d}
                else:
                    want = Counter(row_value(c, o, row) for row in rows)
                    if ob["t"] == "mv":
                        allk = [ONE * ev_expr(ob["e"], [int(ch) for ch in format(i, f"0{k}b")]) for i in range(2 ** k)]
                    else:
                        allk = ob["ev"] if ob["t"] == "eig" else [scaled_int(x) for x in o["ev"]]
                    gotd = {to_int(kk, ONE, True): v for kt, kk, v in d}
                wantd = {kk: want.get(kk, 0) for kk in allk} if c["ao"] else dict(want)
                if gotd != wantd or sum(gotd.values()) != len(rows):
                    degenerate = False   # the overwrite defect was repaired in /repo (fix: commit); any recurrence is a violation
                    return ("finding" if degenerate else "direct",
                            f"counts: implementation {gotd} != multiset of outcomes {wantd} (shots {len(rows)})")
            return None
        if kind == "sample":
            if c["bin"] is not None:
                return None
            want = [[(row if raw else row_value(c, o, row)) for row in rows] for rows in batches]
            if raw and len(idxs) == 1 and c["pc"] is not None:
                want = [[row[0] for row in rows] for rows in want]
            want = list(flat(want))
            gotn = [to_int(x, 1 if raw else ONE, True) for x in flat(r["v"])]
            if c["pc"] is not None:
                # process_counts returns the samples grouped by outcome: compare as multisets of rows
                w = k if raw and len(idxs) > 1 else 1
                grp = lambda l: sorted(tuple(l[j:j + w]) for j in range(0, len(l), w))
                if grp(gotn) != grp(want):
                    return "direct", "sample.process_counts is not a permutation of the samples"
            elif gotn != want:
                return "direct", f"sample: implementation {gotn} != direct {want}"
            return None
    except Inexact as ex:
        return "direct", f"result is not on the exact grid: {ex}"
    except (IndexError, KeyError):
        return None          # malformed stream: the direct statement does not apply
    return None


# ------------------------------------------------------------------ run
def run(ctx):
    ctx.coq_props()
    n = 1600 if ctx.tier == "quick" else 14000
    rng = ctx.rng
    cases = [json.loads(json.dumps(c)) for c in CORPUS]
    while len(cases) < n:
        if rng.random() < 0.03:
            cases.append(degenerate_counts_case(rng))
        else:
            cases.append(gen_case(rng, ctx.tier))
    obs = ctx.run_impl("c30_impl.py", {"cases": cases})
    for c, o in zip(cases, obs):
        if o.get("stage") == "build" and c["obs"]["t"] == "op":
            # cannot even construct the operator (e.g. malformed wire 9 is fine for operators) -> oracle missing
            o["ev"], o["wires"] = [ONE, -ONE], c["obs"]["ws"]
    terms = [f"({g_case(c, o)}, {g_expected(c, o)})" for c, o in zip(cases, obs)]
    bad = ctx.coq_eval_cases("cases", "From PLV Require Import Disc.SamplesModel.", terms, "check_case", chunk=200)
    hist = Counter()
    distinct = set()
    for c, o in zip(cases, obs):
        hist["kind:" + c["kind"]] += 1
        hist["obs:" + c["obs"]["t"]] += 1
        err = o["r"] == "ERR"
        hist["errors"] += err
        hist["batched"] += c["batched"]
        hist["shot_range"] += c["range"] is not None
        hist["bin_size"] += c["bin"] is not None
        hist["process_counts"] += c["pc"] is not None
        hist["all_outcomes"] += bool(c["ao"])
        ws = obs_wires(c, o) if not (o.get("stage") == "build") else c["obs"]["ws"]
        if ws and not err:
            pos = [c["order"].index(w) for w in ws if w in c["order"]]
            hist["wires_not_in_device_order"] += pos != sorted(pos)
            hist["proper_subset"] += len(ws) < len(c["order"])
        if not err and o.get("ev") is not None and [scaled_int(x) for x in o["ev"]] == [ONE, -ONE]:
            hist["fast_path_pm1"] += 1
        if not err and c["kind"] == "counts" and c["ao"]:
            ds = [o["r"]["v"]] if o["r"]["t"] == "dict" else o["r"]["v"]
            hist["all_outcomes_with_zero_entries"] += any(v == 0 for d in ds for _, _, v in d)
        if not err and len(c["data"][0]) > 1:
            distinct.add(json.dumps(c, sort_keys=True))
        res = direct_oracle(c, o)
        if res is not None:
            kk, msg = res
            if kk == "finding":
                hist["degenerate_counts_defect_hits"] += 1
                ctx.violation(FINDING_KEY, {"case": c, "observed": o["r"], "message": msg,
                                            "repro": "CountsMP(eigvals=[1,1,-1,-1],wires=[0,1]).process_samples(s,[0,1])"},
                              what="CountsMP(eigvals with repeated values).process_samples overwrites counts instead of summing")
            else:
                ctx.violation("direct:" + json.dumps(c, sort_keys=True), {"case": c, "observed": o, "message": msg},
                              what="post-processed statistic differs from direct arithmetic on the samples: " + msg)
    for i in bad:
        c, o = cases[i], obs[i]
        ctx.violation("corr:" + json.dumps(c, sort_keys=True),
                      {"case": c, "implementation": o, "model": "evaluate `run` of coq/Disc/SamplesModel.v on the case (coq/Gen/C30)"},
                      found_input=True, what="implementation differs from the proved model of sample post-processing")
    ctx.coverage.update({"evaluations": len(cases), "distinct_nontrivial": len(distinct),
                         "rule": "seeded generator: 1-4(5) wires with random labels/order, 1-32(64) shots, biased bits, batch 25%, shot_range 30% (incl. negative/clamped), bin_size 30% (divisors; non-divisors in malformed stream), process_counts round trip 25%, malformed stream 8% (wire not in order, short eigvals, +-1 eigvals on two wires, bad bin), observables: wires/all wires/MCM lists/eigvals/Pauli/Prod/SProd/Sum/Hermitian/Projector/MCM arithmetic; non-trivial = accepted case with > 1 shot",
                         "input_distribution": dict(hist)})
    for c, o in list(zip(cases, obs))[1:5]:
        ctx.sample({"case": {k: v for k, v in c.items() if k != "data"}, "shots": len(c["data"][0]), "observed": o["r"]})
