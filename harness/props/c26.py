"""C26 default.qubit simulates every circuit exactly."""
from vlib import *
import exactsim
import numpy as np

PID = "C26"
META = {
    "level": "proof",
    "engine": "qsym-translator",
    "technique": "Coq reflection proofs that every apply_operation kernel (executed symbolically on formal basis columns and formal gate parameters) equals the reference linear map + exact differential: whole circuits simulated by vm_compute over Q(zeta_8) inside Coq and compared with default.qubit's results",
    "design_ref": "DESIGN.md §3 C26, §2.5",
    "text": "(a) For each supported operation and several register sizes / wire positions the real kernel pennylane.devices.qubit.apply_operation is run on object arrays holding formal basis columns and formal parameters; Coq proves that its output on every basis column equals the reference map (operator matrix embedded on the listed wires, first wire most significant) for ALL parameter values (kernel_matches_matrix_forall). (b) Random circuits (1-5 wires quick, 6 thorough; random wire labels and device wire orders; numpy/autograd/jax/torch interfaces; controlled, adjoint, GlobalPhase, leading BasisState/StatePrep on wire subsets in any order, referenced by X gates / a Householder unitary on |0..0>) with angles whose half-angle cosines are rational are executed on default.qubit; the same circuit is simulated EXACTLY inside Coq (theorem reference_run_denotes ties the polynomial run to the complex-number semantics) and state, probabilities (any wire subset/order), expectation values, variances, reduced density matrices, purities, von Neumann entropies and mutual information (natural and explicit log_base) are compared with the exact values (1e-9).",
    "note": "Trusted: Coq kernel + stdlib real axioms; translator qsym/qx (spot-checked); kernels the translator cannot run symbolically (GroverOperator shortcut, sparse / large-matrix paths) are covered only by (b)/not at all and listed in the evidence; broadcasting through whole executions only via C07's batched-kernel obligations.",
    "assumptions": ["float error of default.qubit for <= 6 wires and <= 20 gates is below 1e-9"],
    "trusted": ["translator harness/qsym.py, qx.py", "exact post-processing of the reference state in harness/exactsim.py (numpy on the exact amplitudes)"],
}
HEADER = """From Coq Require Import List ZArith QArith Bool.
From PLV Require Import Alg.Poly Lin.Vec Lin.PVec Props.C26.
Import ListNotations.
Open Scope Q_scope.
"""
PAULI = {"X": np.array([[0, 1], [1, 0]], dtype=complex), "Y": np.array([[0, -1j], [1j, 0]]), "Z": np.array([[1, 0], [0, -1]], dtype=complex)}


def arr(j):
    a = np.array(j["re"], dtype=float)
    return a + 1j * np.array(j["im"], dtype=float) if "im" in j else a


def expected(state, n, dev_wires, m):
    idx = lambda ws: [dev_wires.index(w) for w in ws]
    if m["kind"] == "state":
        return state
    if m["kind"] == "probs":
        return exactsim.probs(state, n, idx(m["wires"]))
    if m["kind"] in ("expval", "var"):
        O = np.array([[1]], dtype=complex)
        for ch in m["word"]:
            O = np.kron(O, PAULI[ch])
        e = exactsim.expval(state, n, O, idx(m["wires"]))
        return e if m["kind"] == "expval" else 1.0 - e * e      # Pauli words square to the identity
    if m["kind"] in ("vn_entropy", "mutual_info"):
        def entropy(ws):                      # von Neumann entropy of the reduced state on ws, in the requested base
            psi = np.moveaxis(state.reshape([2] * n), ws, range(len(ws))).reshape(2 ** len(ws), -1)
            p = np.linalg.svd(psi, compute_uv=False) ** 2
            p = p[p > 1e-300]
            return float(-(p * np.log(p)).sum() / (np.log(m["log_base"]) if m["log_base"] else 1.0))
        if m["kind"] == "vn_entropy":
            return entropy(idx(m["wires"]))
        a, b = idx(m["wires0"]), idx(m["wires1"])
        return entropy(a) + entropy(b) - entropy(a + b)
    ws = idx(m["wires"])
    psi = np.moveaxis(state.reshape([2] * n), ws, range(len(ws))).reshape(2 ** len(ws), -1)
    rho = psi @ psi.conj().T
    return rho if m["kind"] == "dm" else float(np.real(np.trace(rho @ rho)))


def run(ctx):
    ctx.coq_props()
    out = ctx.run_impl("c26_impl.py", {"tier": ctx.tier, "seed": ctx.seed, "outdir": str(ctx.gen_dir)}, timeout=3000)
    items, runs = out["items"], out["runs"]
    obl = json.loads((ctx.gen_dir / "obligations.json").read_text())
    failed = ctx.coq_obligations("kernels", HEADER, [(o["name"], o["stmt"], "vm_compute. reflexivity.") for o in obl], chunk=12, par=16)
    by = {o["name"]: o for o in obl}
    for name, detail in failed:
        o = by.get(name)
        if o is None:
            ctx.broken_obligation("coq", name, detail); continue
        ctx.violation(f"kernel:{o['op']}:{o['n']}:{o['wires']}", {"operation": o["op"], "register_wires": o["n"], "op_wires": o["wires"], "obligation": name,
                      "meaning": "apply_operation(op, |c>) differs from (matrix of op on those wires)|c> for some basis column / parameter value"},
                      found_input=True, what=f"default.qubit kernel for {o['op']} on wires {o['wires']} of {o['n']} does not implement the operator's matrix")
    for r in runs:
        if r.get("fixed") and r["status"] == "notex":      # a fixed-corpus case must always reach the exact reference
            ctx.broken_obligation("fixed-corpus", json.dumps(r["ops"])[:200], r.get("detail", ""))
    okruns = [r for r in runs if r["status"] == "ok"]
    states = exactsim.exact_states(ctx, "ref", [(r["n"], r["circuit"]) for r in okruns])
    worst = 0.0
    for r, st in zip(okruns, states):
        for m, res in zip(r["meas"], r["results"]):
            got, exp = arr(res), expected(st, r["n"], r["dev_wires"], m)
            err = float(np.abs(np.asarray(got).reshape(-1) - np.asarray(exp).reshape(-1)).max()) if np.asarray(got).size == np.asarray(exp).size else 9.9
            worst = max(worst, err if err < 9 else 0)
            if err > 1e-9:
                ctx.violation("run:" + json.dumps([r["ops"], m])[:400], {"ops": r["ops"], "device_wires": r["dev_wires"], "interface": r["interface"],
                              "measurement": m, "device_result": res, "exact": np.asarray(exp).astype(complex).view(float).tolist() if np.iscomplexobj(exp) else np.asarray(exp).tolist(), "max_abs_err": err},
                              what=f"default.qubit result of {m['kind']} differs from the exact simulation")
    errs = [r for r in runs if r["status"] == "error"]
    for r in errs[:3]:
        ctx.violation("run-error:" + json.dumps(r["ops"])[:300], {"ops": r["ops"], "detail": r.get("detail")}, what="default.qubit raised on a supported circuit")
    base_p = VERIF / "harness" / "expected_c26.json"
    okset = sorted({(i["op"],) for i in items if i["status"] == "ok"})
    if os.environ.get("VERIF_WRITE_BASELINE") and not failed:
        base_p.write_text(json.dumps(sorted({i["op"] for i in items if i["status"] == "ok"})))
    if base_p.exists():
        for opn in json.loads(base_p.read_text()):
            its = [i for i in items if i["op"] == opn]
            if its and all(i["status"] != "ok" for i in its):
                ctx.violation(f"tie:kernel:{opn}", {"operation": opn, "detail": its[0]["detail"], "no_longer_checks": "symbolic execution of this kernel"},
                              found_input=False, what=f"kernel for {opn} can no longer be executed symbolically")
    kinds = {}
    for r in okruns:
        for m in r["meas"]:
            kinds[m["kind"]] = kinds.get(m["kind"], 0) + 1
    ctx.coverage.update({"evaluations": len(items) + len(runs), "distinct_nontrivial": len(obl) + len(okruns),
                         "rule": "kernel obligations per (operation, register size, wire positions), universal in parameters; exact differential runs on random circuits with rationally representable angles",
                         "kernel_obligations": len(obl), "exact_runs": len(okruns), "measurement_kinds": kinds, "worst_abs_err": worst,
                         "interfaces": {k: sum(1 for r in okruns if r["interface"] == k) for k in ("numpy", "autograd", "jax", "torch")},
                         "not_symbolic": [(i["op"], i["detail"][:60]) for i in items if i["status"] != "ok"][:10],
                         "runs_not_exact": sum(1 for r in runs if r["status"] == "notex"),
                         "fixed_corpus_cases": sum(1 for r in okruns if r.get("fixed")),
                         "runs_with_leading_state_prep": sum(1 for r in okruns if r["ops"] and r["ops"][0].startswith(("StatePrep", "BasisState")))})
    for r in okruns[:2]:
        ctx.sample({"ops": r["ops"], "meas": r["meas"], "interface": r["interface"]})
