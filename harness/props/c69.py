"""C69 Spin-model Hamiltonians match their textbook sums; lattices have the documented neighbour relations."""
import ast
import math
from fractions import Fraction

from vlib import *

PID = "C69"
META = {
    "level": "proof",
    "technique": "Coq proofs (induction over lists, exact integer squared distances) about a Gallina transcription of "
                 "Lattice edge generation and the Hamiltonian assembly loops + vm_compute correspondence against "
                 "pennylane.spin on all 11 lattice shapes",
    "design_ref": "DESIGN.md §3 C69",
    "text": "13 kernel-checked theorems (Props/C69.v).  For ALL sizes and boundary conditions at neighbour order 1: the "
            "model's chain edge set is exactly {(i,i+1)} plus (0,n-1) when periodic (with the edge count and irreflexivity "
            "for n>=2), its square/rectangle edge set is exactly grid adjacency with wrap-around; for EVERY shape/size/"
            "boundary/order the edge list is duplicate-free with ordered endpoints and tags in [0,order); for every edge "
            "list and every coupling (per-order vector or per-edge matrix) the transverse-Ising / Heisenberg / Hubbard(JW) "
            "term lists produced by the transcribed accumulation loops are exactly the textbook comprehensions (0*I, one ZZ "
            "resp. XX,YY,ZZ term per edge with that edge's coupling, one X term per site), composed for the chain into the "
            "closed textbook sum (Permutation); every Ising/Heisenberg term is a rational multiple of a well-formed Pauli "
            "word (Hermitian term by term).  Bounded vm_compute statements: coordination numbers of all regular shapes at "
            "size 3 (periodic) and edge counts of 13 shape/size/order combinations.  Tie: the model is evaluated inside Coq "
            "on the same shape/size/boundary/order/coupling inputs as the real generate_lattice/Lattice and the real "
            "builders (transverse_ising, heisenberg, fermi_hubbard[JW], kitaev, spin_hamiltonian) and n_sites, the sorted "
            "edge list with tags and the sorted exact Pauli term list are compared; direct oracles on the implementation's "
            "output: networkx grid graphs (chain/square/rectangle), textbook sums recomputed from lattice.edges, "
            "Hermiticity of qp.matrix(H) for small systems, real coefficients, endpoints in range, no duplicated edge, "
            "lattice_dict geometry vs the model's integer table.",
    "note": "Universally quantified lattice theorems cover chain/square/rectangle at neighbour_order 1 only; the other "
            "shapes and orders >= 2 are covered per size by the correspondence run and by the bounded vm_compute theorems "
            "(sizes stated in the statements).  Coordinates are modelled exactly (integers in per-axis units 1, 1/2, 1/4, "
            "sqrt3/2, sqrt3/4, sqrt3/6) so the floating-point KD-tree query with distance_tol=1e-5 and the rounding of "
            "distances to 4 decimals are replaced by exact comparison of squared distances.  The neighbour tag is modelled "
            "as the number of distinct smaller distances present among grid points (incl. hidden periodic images) within "
            "the cutoff, which is what sorted(dict) yields; the order of lattice.edges depends on the KD-tree traversal "
            "and is not compared (sorted lists are).  Quirks reproduced by the model, not judged: self-loops when a "
            "periodic direction has n <= order cells (e.g. 1-site periodic chain: edge (0,0), H gets a -J*I term; networkx "
            "agrees), tag k means the k-th distance PRESENT in the finite lattice (a 1x3 square strip at order 2 links "
            "sites at distance 2, not sqrt2), custom node index == n_sites is accepted.  fermi_hubbard is modelled by the "
            "closed textbook Jordan-Wigner images of hopping and n_up*n_down terms (not through FermiWord / "
            "qubit_observable; parity and Bravyi-Kitaev mappings not covered; Hermiticity of the Hubbard words only by the "
            "numeric matrix oracle); emery and haldane are NOT covered (haldane has irrational complex phases); "
            "spin_hamiltonian/Lattice(custom_edges) only with XX/YY/ZZ edge operators, distinct (operator, coefficient) "
            "labels and single-letter node terms; add_edge is not covered.  Coefficients are dyadic rationals (exact in "
            "binary floating point).  Hermiticity is stated at the term-list level (rational coefficient, Pauli word with "
            "strictly increasing sites), not as a matrix identity.",
    "assumptions": ["distinct exact inter-site distances of the built-in lattices differ by more than 1e-4 (so KD-tree "
                    "tolerance and rounding to 4 decimals act as exact comparison)",
                    "couplings are dyadic rationals of small magnitude, so float arithmetic in the builders is exact"],
    "trusted": ["hand-written model coq/Disc/LatticeModel.v tied to /repo by correspondence only",
                "scipy KDTree.query_ball_tree returns exactly the pairs within the cutoff (its traversal order is irrelevant)"],
}

SHAPES = ["chain", "square", "rectangle", "triangle", "honeycomb", "kagome", "lieb", "cubic", "bcc", "fcc", "diamond"]
DIM = {"chain": 1, "square": 2, "rectangle": 2, "triangle": 2, "honeycomb": 2, "kagome": 2, "lieb": 2,
       "cubic": 3, "bcc": 3, "fcc": 3, "diamond": 3}
NSL = {"chain": 1, "square": 1, "rectangle": 1, "triangle": 1, "honeycomb": 2, "kagome": 3, "lieb": 3,
       "cubic": 1, "bcc": 2, "fcc": 4, "diamond": 2}
S3 = math.sqrt(3)
UNITS = {"chain": [1], "square": [1, 1], "rectangle": [1, 1], "triangle": [.5, S3 / 2], "honeycomb": [.5, S3 / 6],
         "kagome": [.25, S3 / 4], "lieb": [.5, .5], "cubic": [1] * 3, "bcc": [.5] * 3, "fcc": [.5] * 3,
         "diamond": [.25] * 3}
CONS = {s: s.capitalize() for s in SHAPES}
LETC = {1: "LX", 2: "LY", 3: "LZ"}
OPC = {"XX": "OpXX", "YY": "OpYY", "ZZ": "OpZZ"}


def bcl(c):
    bc = c["bc"]
    return [bc] * len(c["n_cells"]) if isinstance(bc, bool) else bc


def npoints(c):
    n = NSL[c["shape"]]
    b = bcl(c)
    for i, k in enumerate(c["n_cells"]):
        n *= max(k, 0) + (2 * c["order"] if i < len(b) and b[i] else 0)
    return n


def nsites(c):
    n = NSL[c["shape"]]
    for k in c["n_cells"]:
        n *= k
    return n


# ---------------------------------------------------------------- generators
def dy(rng, nz=False):
    while True:
        k = rng.choice([-24, -16, -12, -8, -5, -4, -3, -2, -1, 1, 2, 3, 4, 6, 8, 12, 16, 20, 0, rng.randint(-40, 40)])
        if k != 0 or not nz:
            return [k, 16] if k % 16 else [k // 16, 1]


def gen_coupling(rng, order, n, force=None):
    kind = force or ("vec" if rng.random() < 0.6 or n > 12 else "mat")
    if kind == "vec":
        return {"vec": [dy(rng) for _ in range(order)]}
    return {"mat": [[dy(rng) for _ in range(n)] for _ in range(n)]}


def gen_lattice(rng, maxpts):
    while True:
        shape = rng.choice(SHAPES + ["chain", "square", "rectangle", "triangle", "honeycomb"])
        d = DIM[shape]
        hi = {1: 8, 2: 4, 3: 2}[d]
        if shape in ("kagome", "lieb"):
            hi = 3
        n_cells = [rng.randint(1, hi) for _ in range(d)]
        r = rng.random()
        bc = True if r < 0.2 else False if r < 0.35 else [rng.random() < 0.55 for _ in range(d)]
        order = rng.choice([1, 1, 1, 2, 2, 3])
        c = {"shape": shape, "n_cells": n_cells, "bc": bc, "order": order}
        if npoints(c) <= maxpts:
            return c


def gen_ham(rng, c):
    n, order = nsites(c), c["order"]
    r = rng.random()
    if r < 0.12:
        return {"kind": "none"}
    if r < 0.47:
        return {"kind": "ising", "J": gen_coupling(rng, order, n), "h": dy(rng)}
    if r < 0.80:
        k = "vec" if rng.random() < 0.6 or n > 12 else "mat"
        return {"kind": "heis", "J": [gen_coupling(rng, order, n, k) for _ in range(3)],
                "flat": order == 1 and rng.random() < 0.3}
    if n <= 6:
        U = {"scalar": dy(rng)} if rng.random() < 0.5 else {"vec": [dy(rng) for _ in range(n)]}
        return {"kind": "hubbard", "t": gen_coupling(rng, order, n), "U": U}
    return {"kind": "ising", "J": gen_coupling(rng, order, n), "h": dy(rng)}


def gen_custom(rng):
    if rng.random() < 0.3:
        n_cells = [rng.randint(1, 4), rng.randint(1, 4)]
        r = rng.random()
        bc = True if r < 0.25 else False if r < 0.5 else [rng.random() < 0.5, rng.random() < 0.5]
        return {"shape": "honeycomb", "n_cells": n_cells, "bc": bc, "order": 1,
                "ham": {"kind": "kitaev", "c": [dy(rng) for _ in range(3)]}}
    shape = rng.choice(["chain", "square", "triangle", "honeycomb", "kagome", "lieb", "cubic", "rectangle"])
    d = DIM[shape]
    n_cells = [rng.randint(1, {1: 6, 2: 3, 3: 2}[d]) for _ in range(d)]
    r = rng.random()
    bc = True if r < 0.25 else False if r < 0.5 else [rng.random() < 0.5 for _ in range(d)]
    c = {"shape": shape, "n_cells": n_cells, "bc": bc, "order": 1}
    n = nsites(c)
    ks = rng.sample(range(-30, 31), 8)
    edges = []
    for k in ks[:rng.randint(1, 4)]:
        if k == 0:
            continue
        e1, e2 = rng.randrange(n), rng.randrange(n) if rng.random() < 0.9 else n + rng.randint(0, 2)
        edges.append([e1, e2, rng.choice(["XX", "YY", "ZZ"]), [k, 16]])
    nodes = [[rng.randrange(n) if rng.random() < 0.9 else n + rng.randint(0, 1), rng.choice([1, 2, 3]), dy(rng)]
             for _ in range(rng.choice([0, 0, 1, 2, 3]))]
    c["ham"] = {"kind": "custom", "edges": edges or [[0, 0, "ZZ", [3, 16]]], "nodes": nodes}
    return c


def malform(rng, c):
    c = json.loads(json.dumps(c))
    r = rng.random()
    h = c["ham"]
    if r < 0.25:
        c["n_cells"][rng.randrange(len(c["n_cells"]))] = rng.choice([0, -1])
    elif r < 0.45:
        c["n_cells"] = c["n_cells"] + [2] if rng.random() < 0.5 or len(c["n_cells"]) == 1 else c["n_cells"][:-1]
        if isinstance(c["bc"], list):
            c["bc"] = [True] * len(c["n_cells"])
    elif r < 0.6:
        c["bc"] = [True] * (len(c["n_cells"]) + 1)
    elif h["kind"] == "ising" and "vec" in h["J"]:
        h["J"]["vec"].append([1, 2])
    elif h["kind"] == "ising":
        h["J"]["mat"] = [row + [[1, 1]] for row in h["J"]["mat"]]
    elif h["kind"] == "heis" and "vec" in h["J"][0]:
        for k in range(3):
            h["J"][k]["vec"].append([1, 4])
        h["flat"] = False
    elif h["kind"] == "hubbard" and "vec" in h["t"]:
        h["t"]["vec"] = h["t"]["vec"][:-1]
    else:
        c["n_cells"][0] = 0
    return c


# ---------------------------------------------------------------- Gallina printers
def g_coup(c):
    if "vec" in c:
        return f"(CVec {glist(c['vec'], lambda x: gq(Fraction(*x)))})"
    return f"(CMat {glist(c['mat'], lambda r: glist(r, lambda x: gq(Fraction(*x))))})"


def g_ham(c):
    h = c["ham"]
    k = h["kind"]
    if k == "none":
        return "HNone"
    if k == "ising":
        return f"(HIsing {g_coup(h['J'])} {gq(Fraction(*h['h']))})"
    if k == "heis":
        return f"(HHeis {g_coup(h['J'][0])} {g_coup(h['J'][1])} {g_coup(h['J'][2])})"
    if k == "hubbard":
        U = h["U"]
        Ul = [U["scalar"]] * max(nsites(c), 0) if "scalar" in U else U["vec"]
        return f"(HHubbard {g_coup(h['t'])} {glist(Ul, lambda x: gq(Fraction(*x)))})"
    if k == "kitaev":
        return "(HKitaev " + " ".join(gq(Fraction(*x)) for x in h["c"]) + ")"
    es = glist(h["edges"], lambda e: f"(CE {gz(e[0])} {gz(e[1])} {OPC[e[2]]} {gq(Fraction(*e[3]))})")
    ns = glist(h["nodes"], lambda v: f"(ND {gz(v[0])} {LETC[v[1]]} {gq(Fraction(*v[2]))})")
    return f"(HCustom {es} {ns})"


def g_case(c):
    return (f"(mkCase {CONS[c['shape']]} {glist(c['n_cells'], gz)} {glist(bcl(c), gbool)} {gz(c['order'])} {g_ham(c)})")


def g_obs(o):
    if o == "ERR":
        return "None"
    es = glist(o["edges"], lambda e: f"(ED {gz(e[0])} {gz(e[1])} {gz(e[2])})")
    ts = glist(o["terms"], lambda t: f"(TM {gq(Fraction(*t[1]))} {glist(t[0], lambda sl: f'(SL {gz(sl[0])} {LETC[sl[1]]})')})")
    return f"(RS {gz(o['nsites'])} {es} {ts})"


# ---------------------------------------------------------------- direct oracles
def textbook_from_edges(c, o):
    """the property's own statement: sum over the implementation's neighbour pairs (ising / heisenberg)"""
    h = c["ham"]
    acc = {}

    def add(w, x):
        acc[w] = acc.get(w, Fraction(0)) + x

    def at(cp, i, j, t):
        return Fraction(*(cp["vec"][t] if "vec" in cp else cp["mat"][i][j]))
    for i, j, t in o["edges"]:
        if h["kind"] == "ising":
            add(((i, 3), (j, 3)) if i != j else (), -at(h["J"], i, j, t))
        else:
            for k, l in enumerate((1, 2, 3)):
                add(((i, l), (j, l)) if i != j else (), at(h["J"][k], i, j, t))
    if h["kind"] == "ising":
        for v in range(o["nsites"]):
            add(((v, 1),), -Fraction(*h["h"]))
    return sorted([[[list(x) for x in w], [v.numerator, v.denominator], [0, 1]] for w, v in acc.items() if v != 0],
                  key=lambda t: t[0])


def direct_oracle(c, o):
    if o == "ERR":
        return None
    k = c["ham"]["kind"]
    if any(t[2][0] != 0 for t in o["terms"]):
        return "non-real coefficient in the Hamiltonian"
    if o.get("herm") is False:
        return "qp.matrix(H) is not Hermitian"
    if o["nsites"] != nsites(c):
        return "n_sites differs from prod(n_cells) * sites per cell"
    if any(not (0 <= e[0] < o["nsites"] and 0 <= e[1] < o["nsites"]) for e in o["edges"]):
        return "edge endpoint outside the lattice"
    if k in ("none", "ising", "heis", "hubbard"):
        if o.get("dup_edges"):
            return "duplicated edge in lattice.edges"
        if any(e[2] >= c["order"] for e in o["edges"]):
            return "edge tag >= neighbour_order"
    if "nx_edges" in o:
        if sorted(e[:2] for e in o["edges"]) != o["nx_edges"]:
            return "nearest-neighbour edges differ from the networkx grid graph"
        if o["terms"] != o["nx_terms"]:
            return "Hamiltonian differs from the textbook sum over the networkx grid graph"
    if k in ("ising", "heis") and o["terms"] != textbook_from_edges(c, o):
        return "Hamiltonian differs from the textbook sum over lattice.edges"
    return None


def check_geometry(ctx, obs_by_shape):
    """lattice_dict (vectors, positions as stored on the real Lattice) vs the model's integer table"""
    shapes = sorted(obs_by_shape)
    if not shapes:
        return
    outs = ctx.coq_eval_terms("spec", "From PLV Require Import Disc.LatticeModel.\nRequire Import List ZArith. Import ListNotations.",
                              [f"(vecs (spec_of {CONS[s]}), poss (spec_of {CONS[s]}), wts (spec_of {CONS[s]}))" for s in shapes])
    for s, out in zip(shapes, outs):
        vecs, poss, wts = ast.literal_eval(out.replace(";", ","))
        o = obs_by_shape[s]
        u = UNITS[s]
        ok = len(vecs) == len(o["vectors"]) and len(poss) == len(o["positions"])
        ok = ok and all(abs(m * u[k] - x) < 1e-12 for mv, rv in zip(vecs, o["vectors"]) for k, (m, x) in enumerate(zip(mv, rv)))
        ok = ok and all(abs(m * u[k] - x) < 1e-12 for mv, rv in zip(poss, o["positions"]) for k, (m, x) in enumerate(zip(mv, rv)))
        ok = ok and all(abs(wts[k] / u[k] ** 2 - wts[0] / u[0] ** 2) < 1e-9 for k in range(len(u)))
        if not ok:
            ctx.violation("geometry:" + s, {"shape": s, "model": [vecs, poss, wts], "implementation": [o["vectors"], o["positions"]]},
                          what="primitive vectors / basis positions differ from the modelled lattice table")


def corpus():
    cs = []
    for n in (1, 2, 3, 4, 5):
        for bc in (False, True):
            for order in (1, 2):
                cs.append({"shape": "chain", "n_cells": [n], "bc": bc, "order": order,
                           "ham": {"kind": "ising", "J": {"vec": [[1, 2], [3, 4]][:order]}, "h": [1, 4]}})
    for n1, n2 in ((1, 1), (1, 3), (2, 2), (2, 3), (3, 3), (3, 2), (4, 2)):
        for bc in (False, True, [True, False], [False, True]):
            cs.append({"shape": "square", "n_cells": [n1, n2], "bc": bc, "order": 1,
                       "ham": {"kind": "heis", "J": [{"vec": [[1, 2]]}, {"vec": [[-3, 4]]}, {"vec": [[5, 8]]}], "flat": True}})
            cs.append({"shape": "rectangle", "n_cells": [n1, n2], "bc": bc, "order": 2,
                       "ham": {"kind": "ising", "J": {"vec": [[1, 2], [-1, 4]]}, "h": [3, 8]}})
    for s in SHAPES[3:]:
        for bc in (False, True):
            for order in (1, 2):
                n_cells = [2] * DIM[s] if not (DIM[s] == 3 and bc and order == 2) else [1, 2, 1]
                cs.append({"shape": s, "n_cells": n_cells, "bc": bc, "order": order, "ham": {"kind": "none"}})
    cs.append({"shape": "chain", "n_cells": [2], "bc": True, "order": 1,
               "ham": {"kind": "hubbard", "t": {"vec": [[1, 2]]}, "U": {"scalar": [3, 4]}}})
    cs.append({"shape": "chain", "n_cells": [1], "bc": True, "order": 1,
               "ham": {"kind": "hubbard", "t": {"vec": [[1, 2]]}, "U": {"scalar": [3, 4]}}})
    cs.append({"shape": "honeycomb", "n_cells": [2, 2], "bc": False, "order": 1, "ham": {"kind": "kitaev", "c": [[1, 2], [3, 4], [5, 8]]}})
    cs.append({"shape": "honeycomb", "n_cells": [2, 2], "bc": True, "order": 1, "ham": {"kind": "kitaev", "c": [[1, 2], [3, 4], [5, 8]]}})
    cs.append({"shape": "square", "n_cells": [3, 3], "bc": False, "order": 1,
               "ham": {"kind": "custom", "edges": [[0, 1, "XX", [1, 16]], [0, 3, "YY", [2, 16]], [0, 4, "ZZ", [3, 16]]],
                       "nodes": [[0, 1, [1, 2]], [8, 3, [1, 4]]]}})
    return cs


def run(ctx):
    ctx.coq_props()
    quick = ctx.tier == "quick"
    n = 220 if quick else 1500
    maxpts = 330 if quick else 700
    rng = ctx.rng
    cases = corpus()
    while len(cases) < n:
        r = rng.random()
        if r < 0.3:
            c = gen_custom(rng)
        else:
            c = gen_lattice(rng, maxpts)
            c["ham"] = gen_ham(rng, c)
            if rng.random() < 0.08:
                c = malform(rng, c)
        cases.append(c)
    for c in cases:
        c["herm_max"] = 6 if quick else 8
        c["nx"] = True
    obs = ctx.run_impl("c69_impl.py", {"cases": cases})
    terms = [f"(CR {g_case(c)} {g_obs(o)})" for c, o in zip(cases, obs)]
    bad = ctx.coq_eval_cases("cases", "From PLV Require Import Disc.LatticeModel.\nRequire Import QArith.", terms,
                             "check_case", chunk=(len(terms) + 7) // 8)
    hist = {"errors": 0, "periodic": 0, "order>=2": 0, "self_loops": 0, "multi_tag_pairs": 0, "nx_oracle": 0,
            "herm_matrix": 0, "matrix_coupling": 0}
    kinds, shapes = {}, {}
    distinct = set()
    by_shape = {}
    for c, o in zip(cases, obs):
        k = c["ham"]["kind"]
        kinds[k] = kinds.get(k, 0) + 1
        shapes[c["shape"]] = shapes.get(c["shape"], 0) + 1
        if o == "ERR":
            hist["errors"] += 1
        else:
            if "vectors" in o:
                by_shape.setdefault(c["shape"], o)
            hist["periodic"] += any(bcl(c))
            hist["order>=2"] += c["order"] >= 2
            hist["self_loops"] += any(e[0] == e[1] for e in o["edges"])
            pairs = [tuple(e[:2]) for e in o["edges"]]
            hist["multi_tag_pairs"] += len(set(pairs)) < len(pairs)
            hist["nx_oracle"] += "nx_edges" in o
            hist["herm_matrix"] += "herm" in o
            hist["matrix_coupling"] += "mat" in json.dumps(c["ham"])
            if len(o["edges"]) > 1:
                distinct.add(json.dumps(c, sort_keys=True))
        w = direct_oracle(c, o)
        if w:
            ctx.violation("direct:" + json.dumps(c, sort_keys=True), {"case": c, "observed": o}, what=w)
    check_geometry(ctx, by_shape)
    for i in bad:
        c, o = cases[i], obs[i]
        ctx.violation("corr:" + json.dumps(c, sort_keys=True),
                      {"case": c, "implementation": o, "model": "evaluate `run` of Disc/LatticeModel.v on the case (coq/Gen/C69)"},
                      found_input=True, what="implementation differs from the proved model of the lattice / Hamiltonian builders")
    hist["kinds"] = kinds
    hist["shapes"] = shapes
    ctx.coverage.update({"evaluations": len(cases), "distinct_nontrivial": len(distinct),
                         "rule": "corpus (chain 1..5, square/rectangle small sizes x 4 boundary settings, every other shape at "
                                 "2^d, both orders) then seeded generator: 11 shapes, sizes up to 8 / 4x4 / 2x2x2 (grid incl. hidden "
                                 f"images <= {maxpts} points), boundary per direction, orders 1-3, random dyadic couplings "
                                 "(vectors per order and per-edge matrices), ~18% custom-edge lattices (kitaev, spin_hamiltonian), "
                                 "~6% malformed arguments; non-trivial = accepted case with > 1 edge",
                         "input_distribution": hist})
    for c, o in list(zip(cases, obs))[:3]:
        ctx.sample({"case": {k: v for k, v in c.items() if k not in ("herm_max", "nx")}, "observed": o})
