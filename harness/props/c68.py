"""C68 Kernel utilities return valid kernel matrices."""
from vlib import *
import math
from fractions import Fraction as Fr

import numpy as np

PID = "C68"
META = {
    "level": "proof",
    "technique": "Coq proofs (induction over lists / assignment sequences, exact linear algebra over Q on a spectral form) "
                 "about a Gallina transcription of pennylane.kernels + exact vm_compute correspondence on the real "
                 "functions' outputs (floats passed as exact rationals) + numeric direct oracles",
    "design_ref": "DESIGN.md §3 C68",
    "text": "26 kernel-checked theorems (Props/C68.v, closed under the global context), all for arbitrary sizes, data and "
            "kernel functions X -> X -> Q: kernel_matrix has shape N x M and entry (i,j) = kernel(X1[i], X2[j]) (no symmetry "
            "needed; empty input raises); square_kernel_matrix, transcribed as the program's sequence of list assignments "
            "followed by stack/reshape/moveaxis, has entry kernel(x_i,x_j) above the diagonal, the COPIED value "
            "kernel(x_j,x_i) below it and 1 / kernel(x_i,x_i) on the diagonal, hence is symmetric for EVERY kernel, has unit "
            "diagonal when assume_normalized_kernel or kernel(x,x)=1, and reproduces the kernel entrywise exactly when the "
            "kernel is symmetric (and normalised if assumed) on the data; polarity = sum_ij K_ij y_i y_j and "
            "target_alignment = polarity / sqrt((sum K_ij^2)(sum (y_i y_j)^2)) (squared normalisation kept in Q); the "
            "label rescaling y/n_plus (y == 1) resp. y/n_minus with non-zero divisors; for K = V diag(w) V^T: "
            "x^T V diag(c) V^T x = sum_j c_j (x^T V)_j^2 >= 0 for every rational x when c >= 0 (no orthogonality needed), "
            "threshold/flip/displace_matrix return V f(w) V^T with f = max(.,0) / abs / (. - w_min if w_min < 0) "
            "(displace needs V V^T = I) and are therefore PSD over Q, displace is K - w_min I entry by entry, inputs without "
            "negative eigenvalue are returned unchanged.  Tie (every run, current /repo): the real kernel_matrix, "
            "square_kernel_matrix, polarity, target_alignment are run on pools of points with table / integer-polynomial "
            "(dyadic, non-symmetric) / rbf / non-symmetric float / AngleEmbedding-QNode kernels; the reference table "
            "kernel(P[a],P[b]) is computed by direct calls and the outputs are compared inside Coq with the model: matrices "
            "EXACTLY (every float as a rational), polarity exactly where float arithmetic is exact (dyadic kernels, class "
            "sizes powers of two or no rescaling) and within 1e-9 otherwise, alignment through r^2 * normsq = p^2 (1e-9) "
            "and sign.  threshold/displace/flip/closest_psd_matrix(fix_diagonal=False) run on symmetric matrices with a "
            "KNOWN rational spectral form (products of rational Householder reflections/signed permutations, eigenvalues "
            "k/4 incl. negative, zero, repeated); Coq first decides the theorem hypotheses on the case (K = V diag(w) V^T, "
            "V V^T = I, w ascending) and then compares every output entry with the exact model output at 1e-9.  Direct "
            "oracles on the implementation outputs: entrywise kernel reproduction, exact symmetry, unit diagonal, the "
            "polarity/alignment formulas in floats, min eigenvalue >= -1e-9, symmetry, PSD input unchanged, vector-valued "
            "(batched) kernels entrywise, closest_psd_matrix(fix_diagonal=True) via cvxpy (PSD, unit diagonal, not farther "
            "from K than two feasible candidates), mitigate_depolarizing_noise inverts the global/split depolarizing "
            "noise model and raises ValueError for too small diagonals / unknown methods.",
    "note": "Trusted: Coq kernel; the hand transcription coq/Num/KernelsModel.v (tied by correspondence only). "
            "np.linalg.eigh/eigvalsh are ORACLES of the model: the spectral theorems assume an exact decomposition "
            "(K = V diag(w) V^T, w[0] minimal, V V^T = I for displace) which the tie supplies from the generator's exact "
            "rational construction, not from numpy; the floating-point implementation is compared with the exact model at "
            "1e-9 (not bit-exact), so positive semidefiniteness of the FLOAT output is checked numerically only "
            "(eigvalsh >= -1e-9), and near-degenerate branches (w[0] = -1e-17) are covered by continuity, not by the model. "
            "Not modelled in Coq: vector-valued/batched kernels, non-numpy interfaces (torch/jax/tf), len(Y) != N, "
            "labels other than +-1 in the tie (the theorems cover arbitrary rational labels), closest_psd_matrix with "
            "fix_diagonal=True (SDP; numeric oracle only, solver tolerance 1e-6) and mitigate_depolarizing_noise (numeric "
            "oracle only). The alignment's square root is not modelled: the model returns (inner, normsq). "
            "DOCUMENTATION DISCREPANCY reported under the stable key finding:doc:target_alignment-docstring-denominator: "
            "the target_alignment docstring writes the denominator sqrt(sum_ij y_i y_j) where the code (and the "
            "literature, and frobenius_inner_product's own documentation) use sqrt(sum_ij (y_i y_j)^2); the documented "
            "expression is 0 for balanced classes.  The code is what the theorems describe.",
    "assumptions": ["scalar-valued kernels; numpy interface",
                    "spectral theorems: exact eigendecomposition supplied as data (np.linalg.eigh is an oracle)",
                    "tolerances: 1e-9 for inexact float paths, 1e-6 for the cvxpy SDP"],
    "trusted": ["hand-written model coq/Num/KernelsModel.v tied to /repo by correspondence only",
                "float.as_integer_ratio / Fraction(float) are exact",
                "numpy eigvalsh in the harness's direct PSD oracle"],
}

DOC_KEY = "finding:doc:target_alignment-docstring-denominator"


# ------------------------------------------------------------------ generators
def dy(rng, lo=-16, hi=16, den=8, nonzero=False):
    while True:
        v = rng.randint(lo, hi)
        if v or not nonzero:
            return v / den


def gen_kernel(rng, kind, p):
    if kind == "table":
        T = [[dy(rng) for _ in range(p)] for _ in range(p)]
        for i in range(p):
            T[i][i] = dy(rng, nonzero=True)
        if rng.random() < 0.25:           # a symmetric normalised table (an embedding-kernel look-alike)
            for i in range(p):
                T[i][i] = 1.0
                for j in range(i):
                    T[i][j] = T[j][i] = rng.randint(0, 8) / 8
        return {"kind": "table", "T": T}
    dim = rng.randint(1, 3)
    if kind == "qnode":
        dim = 2
    P = []
    while len(P) < p:
        q = [rng.randint(-8, 8) / 4 for _ in range(dim)]
        if q not in P:
            P.append(q)
    if kind == "poly":
        return {"kind": "poly", "P": P, "a": [rng.randint(-4, 4) / 2 for _ in range(dim)], "c": rng.randint(1, 4) / 2,
                "deg": rng.randint(1, 3), "s": rng.choice([0, 0, 0.5, -0.25, 1])}
    if kind == "rbf":
        return {"kind": "rbf", "P": P, "gamma": rng.choice([0.1, 0.5, 1.0, 0.37])}
    return {"kind": kind, "P": P}


def gen_kernel_case(rng, fn, kind, tier):
    p = rng.randint(1, 4 if kind == "qnode" else 6)
    ker = gen_kernel(rng, kind, p)
    nmax = 4 if kind == "qnode" else 7
    c = {"fn": fn, "kernel": ker, "xform": rng.choice(["list", "array", "nested"]),
         "ret": rng.choice(["pyfloat", "np64", "np0d"])}
    if kind == "table":
        c["xform"] = rng.choice(["list", "array"])

    def idx(lo):
        n = rng.choice([lo] * 1 + list(range(max(lo, 1), nmax + 1)) * 3) if rng.random() < 0.97 else 0
        return [rng.randrange(p) for _ in range(n)]
    if fn == "km":
        c["X1"], c["X2"] = idx(1), idx(1)
    else:
        c["xs"] = idx(1)
        if fn == "pol" and len(c["xs"]) < 3 and rng.random() < 0.7:
            c["xs"] = [rng.randrange(p) for _ in range(rng.randint(3, nmax))]
        c["an"] = rng.random() < 0.5
    if fn == "pol":
        n = len(c["xs"])
        r = rng.random()
        if r < 0.1:
            Y = [1] * n
        elif r < 0.2:
            Y = [-1] * n
        else:
            pp = rng.choice([0.5, 0.5, 0.25, 0.75, 0.1])
            Y = [1 if rng.random() < pp else -1 for _ in range(n)]
        c["Y"] = Y
        c["yform"] = rng.choice(["list", "array", "floatlist"])
        c["rescale"] = rng.random() < 0.6
        c["normalize"] = rng.random() < 0.5
        c["alias"] = rng.random() < 0.5
    return c


def householder(v):
    n = len(v)
    vv = sum(x * x for x in v)
    return [[Fr(int(i == j)) - Fr(2 * v[i] * v[j], vv) for j in range(n)] for i in range(n)]


def matmul(A, B):
    return [[sum((A[i][k] * B[k][j] for k in range(len(B))), Fr(0)) for j in range(len(B[0]))] for i in range(len(A))]


def gen_post_case(rng, which, n=None, spectrum=None):
    n = n or rng.choice([1, 2, 2, 3, 3, 4, 4, 5, 6])
    V = [[Fr(int(i == j)) for j in range(n)] for i in range(n)]
    for _ in range(rng.choice([0, 1, 1, 2, 2, 3])):
        while True:
            v = [rng.randint(-3, 3) for _ in range(n)]
            if any(v):
                break
        V = matmul(V, householder(v))
    perm = list(range(n)); rng.shuffle(perm)
    sg = [rng.choice([1, -1]) for _ in range(n)]
    V = [[V[i][perm[j]] * sg[j] for j in range(n)] for i in range(n)]
    spectrum = spectrum or rng.choice(["indef", "indef", "indef", "psd", "psd0", "negdef", "repeated", "tiny"])
    if spectrum == "indef":
        w = [Fr(rng.randint(-12, 12), 4) for _ in range(n)]
        w[0] = -abs(w[0]) - Fr(1, 4)
    elif spectrum == "psd":
        w = [Fr(rng.randint(1, 12), 4) for _ in range(n)]
    elif spectrum == "psd0":
        w = [Fr(rng.randint(0, 12), 4) for _ in range(n)]
        w[0] = Fr(0)
    elif spectrum == "negdef":
        w = [Fr(-rng.randint(1, 12), 4) for _ in range(n)]
    elif spectrum == "repeated":
        vals = [Fr(rng.randint(-8, 8), 4) for _ in range(2)]
        w = [rng.choice(vals) for _ in range(n)]
    else:
        w = [Fr(rng.randint(-3, 3), 1000) for _ in range(n)]
    w.sort()
    K = [[sum((V[a][j] * w[j] * V[b][j] for j in range(n)), Fr(0)) for b in range(n)] for a in range(n)]
    return {"which": which, "spectrum": spectrum, "w": [str(x) for x in w], "V": [[str(x) for x in r] for r in V],
            "K": [[str(x) for x in r] for r in K]}


def rand_orth(nrng, n):
    q, r = np.linalg.qr(nrng.normal(size=(n, n)))
    return q


def gen_closest_case(rng):
    n = rng.choice([2, 3, 4])
    nrng = np.random.default_rng(rng.randint(0, 10 ** 9))
    A = nrng.uniform(-1, 1, size=(n, n))
    K = (A + A.T) / 2
    np.fill_diagonal(K, 1.0)
    return {"K": K.tolist()}


def gen_mitigate_case(rng):
    nrng = np.random.default_rng(rng.randint(0, 10 ** 9))
    nw = rng.choice([1, 2, 3])
    dim = 2 ** nw
    n = rng.choice([1, 2, 3, 4])
    S = nrng.normal(size=(n, dim)) + 1j * nrng.normal(size=(n, dim))
    S /= np.linalg.norm(S, axis=1, keepdims=True)
    K0 = np.abs(S @ S.conj().T) ** 2                     # noiseless embedding kernel: unit diagonal
    method = rng.choice(["single", "average", "split_channel", "split_channel", "bogus", "toosmall"])
    c = {"num_wires": nw, "K0": K0.tolist()}
    if method in ("single", "average"):
        lam = rng.uniform(0.0, 0.6)
        K = (1 - lam) * K0 + lam / dim
        c.update({"method": method, "K": K.tolist(), "lam": lam})
        if rng.random() < 0.5:
            c["use_entries"] = [rng.randrange(n)] if method == "single" else sorted(rng.sample(range(n), rng.randint(1, n)))
    elif method == "split_channel":
        lam = nrng.uniform(0.0, 0.5, size=n)
        keep = np.outer(1 - lam, 1 - lam)
        K = keep * K0 + (1 - keep) / dim
        c.update({"method": method, "K": K.tolist(), "lam": lam.tolist()})
    elif method == "bogus":
        c.update({"method": "averge", "K": K0.tolist(), "expect": "VALUEERROR"})
    else:
        K = K0.copy()
        K[0, 0] = 1 / dim - rng.choice([0.0, 0.01])
        m = rng.choice(["single", "split_channel"] + (["average"] if n == 1 else []))
        c.update({"method": m, "K": K.tolist(), "expect": "VALUEERROR"})
    return c


# ------------------------------------------------------------------ Gallina printers
def gq2(r):
    return f"({r[0]} # {r[1]})%Q" if r[0] >= 0 else f"(({r[0]}) # {r[1]})%Q"


def gfr(s):
    f = Fr(s)
    return gq2([f.numerator, f.denominator])


def g_rmat(m):
    return glist(m, lambda row: glist(row, gq2))


def g_omat(o):
    return "None" if o == "ERR" else f"(Some {g_rmat(o)})"


def g_kernel_case(c, o):
    T = g_rmat(o["tref"])
    if c["fn"] == "km":
        return f"CKm {T} {glist(c['X1'], gnat)} {glist(c['X2'], gnat)} {g_omat(o['out'])}"
    if c["fn"] == "sq":
        return f"CSq {T} {glist(c['xs'], gnat)} {gbool(c['an'])} {g_omat(o['out'])}"
    out = "None" if o["out"] == "ERR" else f"(Some {gq2(o['out'])})"
    return (f"CPol {T} {glist(c['xs'], gnat)} {glist(c['Y'], lambda y: gq2([y, 1]))} {gbool(c['an'])} "
            f"{gbool(c['rescale'])} {gbool(c['normalize'])} {gbool(pol_exact(c))} {out}")


def g_post_case(c, o):
    which = 0 if c["which"] == 3 else c["which"]
    return (f"CPost {gnat(which)} {glist(c['w'], gfr)} {glist(c['V'], lambda r: glist(r, gfr))} "
            f"{glist(c['K'], lambda r: glist(r, gfr))} {g_rmat(o['out'])}")


def pow2(n):
    return n == 0 or (n & (n - 1)) == 0


def pol_exact(c):
    """float arithmetic of polarity is exact: dyadic kernel values, label divisors powers of two, no sqrt"""
    if c["kernel"]["kind"] not in ("table", "poly") or c["normalize"]:
        return False
    if not c["rescale"]:
        return True
    nplus = sum(1 for y in c["Y"] if y == 1)
    return pow2(nplus) and pow2(len(c["Y"]) - nplus)


# ------------------------------------------------------------------ direct oracles
def fl(r):
    return r[0] / r[1]


def direct_kernel(c, o):
    """the property's own statements on the implementation's output; returns failure strings"""
    T = [[Fr(*e) for e in row] for row in o["tref"]]
    fails = []
    if isinstance(o["out"], str) and o["out"].startswith("BADSHAPE"):
        return [f"result is not a rank-2 array: {o['out']}"]
    if c["fn"] == "km":
        n, m = len(c["X1"]), len(c["X2"])
        if o["out"] == "ERR":
            return [] if n == 0 or m == 0 else [f"raised {o.get('exc')} on non-empty data"]
        M = [[Fr(*e) for e in row] for row in o["out"]]
        if len(M) != n or any(len(r) != m for r in M):
            return [f"shape is not {n} x {m}"]
        for i in range(n):
            for j in range(m):
                if M[i][j] != T[c["X1"][i]][c["X2"][j]]:
                    fails.append(f"entry ({i},{j}) = {float(M[i][j])} but kernel(X1[{i}], X2[{j}]) = {float(T[c['X1'][i]][c['X2'][j]])}")
                    return fails
        return fails
    xs, n = c["xs"], len(c["xs"])
    if c["fn"] == "sq":
        if o["out"] == "ERR":
            return [] if n == 0 else [f"raised {o.get('exc')} on non-empty data"]
        M = [[Fr(*e) for e in row] for row in o["out"]]
        if len(M) != n or any(len(r) != n for r in M):
            return [f"shape is not {n} x {n}"]
        for i in range(n):
            if c["an"] and M[i][i] != 1:
                fails.append(f"diagonal entry {i} = {float(M[i][i])} with assume_normalized_kernel"); break
            if not c["an"] and M[i][i] != T[xs[i]][xs[i]]:
                fails.append(f"diagonal entry {i} is not kernel(x_i, x_i)"); break
            for j in range(i + 1, n):
                if M[i][j] != M[j][i]:
                    fails.append(f"not symmetric at ({i},{j})"); break
                if M[i][j] != T[xs[i]][xs[j]]:
                    fails.append(f"entry ({i},{j}) is not kernel(x_i, x_j)"); break
        return fails
    # polarity / target alignment, in floats
    if o["out"] == "ERR":
        return [] if n == 0 else [f"raised {o.get('exc')} on non-empty data"]
    K = np.array([[float(T[xs[min(i, j)]][xs[max(i, j)]]) if i != j else (1.0 if c["an"] else float(T[xs[i]][xs[i]]))
                   for j in range(n)] for i in range(n)])
    if o["out"] == "NAN":             # 0/0: the normalisation of an all-zero kernel matrix (outside the property)
        return [] if c["normalize"] and not np.any(K) else ["result is not finite"]
    Y = np.array(c["Y"], dtype=float)
    if c["rescale"]:
        npl = int(np.sum(Y == 1)); nmi = n - npl
        Y = np.array([y / npl if y == 1 else y / nmi for y in Y])
    p = float(Y @ K @ Y)
    if c["normalize"]:
        p = p / math.sqrt(float(np.sum(K * K)) * float(np.sum(Y * Y)) ** 2)
    r = fl(o["out"])
    if abs(p - r) > 1e-9 * (1 + abs(p)):
        fails.append(f"{'target_alignment' if c['normalize'] else 'polarity'} = {r!r}, formula gives {p!r}")
    return fails


def direct_post(c, o):
    if o["out"] == "ERR" or isinstance(o["out"], str):
        return [f"raised / bad result: {o.get('exc', o['out'])}"]
    K = np.array([[float(Fr(s)) for s in row] for row in c["K"]])
    w = [Fr(s) for s in c["w"]]
    M = np.array([[fl(e) for e in row] for row in o["out"]])
    fails = []
    if M.shape != K.shape:
        return [f"shape {M.shape}"]
    scale = 1 + float(np.max(np.abs(K)))
    if np.max(np.abs(M - M.T)) > 1e-9 * scale:
        fails.append("result is not symmetric")
    lam = float(np.linalg.eigvalsh((M + M.T) / 2)[0])
    if lam < -1e-9 * scale:
        fails.append(f"result has eigenvalue {lam!r} < 0: not positive semidefinite")
    if w[0] >= 0 and np.max(np.abs(M - K)) > 1e-9 * scale:
        fails.append("input without negative eigenvalue was changed")
    if c["which"] == 1 and w[0] < 0 and np.max(np.abs(M - (K - float(w[0]) * np.eye(len(K))))) > 1e-9 * scale:
        fails.append("displace_matrix is not K - w_min * identity")
    return fails


def direct_batched(c, o):
    if o["out"] == "ERR":
        return [f"raised {o.get('exc')}"]
    ref = np.array(o["ref"])
    out = np.array(o["out"])
    B = len(c["mults"])
    if c["fn"] == "km":
        exp = np.array([[[ref[a][b][t] for b in c["X2"]] for a in c["X1"]] for t in range(B)])
    else:
        xs, n = c["xs"], len(c["xs"])
        exp = np.zeros((B, n, n))
        for i in range(n):
            for j in range(n):
                if i == j:
                    exp[:, i, j] = 1.0 if c["an"] else ref[xs[i]][xs[i]]
                else:
                    exp[:, i, j] = ref[xs[min(i, j)]][xs[max(i, j)]]
    if list(out.shape) != list(exp.shape):
        return [f"batched shape {list(out.shape)} expected {list(exp.shape)}"]
    if not np.array_equal(out, exp):
        return ["batched kernel values are not reproduced entrywise"]
    return []


def direct_closest(c, o):
    if o["out"] == "NOCVXPY":
        return None
    if isinstance(o["out"], str):
        return [f"closest_psd_matrix(fix_diagonal=True) failed: {o.get('exc')} {o.get('msg')}"]
    K = np.array(c["K"]); M = np.array(o["out"])
    fails = []
    if M.shape != K.shape:
        return [f"shape {M.shape}"]
    if np.max(np.abs(M - M.T)) > 1e-6:
        fails.append("result not symmetric")
    if np.max(np.abs(np.diag(M) - 1)) > 1e-6:
        fails.append("diagonal not fixed to 1")
    lam = float(np.linalg.eigvalsh((M + M.T) / 2)[0])
    if lam < -1e-6:
        fails.append(f"eigenvalue {lam!r} < 0")
    # optimality against two feasible candidates: identity, and the thresholded matrix rescaled to unit diagonal
    w, v = np.linalg.eigh(K)
    Th = (v * np.clip(w, 0, None)) @ v.T
    cands = [np.eye(len(K))]
    dg = np.diag(Th)
    if np.all(dg > 1e-9):
        cands.append(Th / np.sqrt(np.outer(dg, dg)))
    dist = np.linalg.norm(M - K)
    best = min(np.linalg.norm(C - K) for C in cands)
    if dist > best + 1e-5:
        fails.append(f"not closest: distance {dist!r} > feasible candidate at {best!r}")
    return fails


def direct_mitigate(c, o):
    if c.get("expect") == "VALUEERROR":
        return [] if o["out"] == "VALUEERROR" else [f"expected ValueError, got {str(o['out'])[:60]}"]
    if isinstance(o["out"], str):
        return [f"unexpected {o['out']}: {o.get('msg')}"]
    K0 = np.array(c["K0"]); M = np.array(o["out"])
    if M.shape != K0.shape or np.max(np.abs(M - K0)) > 1e-9:
        return [f"mitigate_depolarizing_noise({c['method']}) does not invert the depolarizing noise model "
                f"(max deviation {float(np.max(np.abs(M - K0))) if M.shape == K0.shape else 'shape'})"]
    return []


# ------------------------------------------------------------------ run
CORPUS_DOC = {"fn": "pol", "kernel": {"kind": "table", "T": [[1.0, 0.5, 0.25], [0.5, 1.0, 0.5], [0.25, 0.5, 1.0]]},
              "xs": [0, 1, 2], "an": False, "xform": "list", "ret": "np64", "Y": [1, 1, -1], "yform": "list",
              "rescale": False, "normalize": True, "alias": True}


def corpus_kernel():
    T3 = {"kind": "table", "T": [[1.0, 2.0, 3.0], [4.0, 5.0, 6.0], [7.0, 8.0, 9.0]]}
    base = {"xform": "list", "ret": "np64"}
    return [
        dict(base, fn="km", kernel=T3, X1=[0, 1, 2], X2=[0, 1]),
        dict(base, fn="km", kernel=T3, X1=[2], X2=[1, 1, 0, 2]),
        dict(base, fn="km", kernel=T3, X1=[], X2=[1]),
        dict(base, fn="sq", kernel=T3, xs=[0, 1, 2], an=False),
        dict(base, fn="sq", kernel=T3, xs=[0, 1, 2], an=True),
        dict(base, fn="sq", kernel=T3, xs=[2], an=True),
        dict(base, fn="sq", kernel=T3, xs=[2], an=False),
        dict(base, fn="sq", kernel=T3, xs=[1, 0], an=True),
        dict(base, fn="sq", kernel=T3, xs=[], an=False),
        dict(base, fn="sq", kernel=T3, xs=[], an=True),
        dict(base, fn="sq", kernel={"kind": "qnode", "P": [[0.25, 0.5], [0.5, 1.5], [1.0, 2.0]]}, xs=[0, 1, 2], an=False),
        dict(base, fn="pol", kernel=T3, xs=[0, 1, 2], an=False, Y=[-1, -1, 1], yform="list", rescale=True,
             normalize=False, alias=False),
        dict(base, fn="pol", kernel=T3, xs=[0, 1, 2], an=False, Y=[-1, -1, 1], yform="array", rescale=True,
             normalize=True, alias=True),
        dict(base, fn="pol", kernel=T3, xs=[0, 1, 2, 1], an=True, Y=[1, 1, 1, 1], yform="list", rescale=True,
             normalize=False, alias=False),
        dict(CORPUS_DOC),
    ]


def corpus_post():
    """fixed rational spectral forms: rotation (3/5, 4/5) with spectrum (-1, 2); a 1x1 negative matrix; the zero matrix"""
    out = []
    for which in (0, 1, 2, 3):
        out.append({"which": which, "spectrum": "indef", "w": ["-1", "2"], "V": [["3/5", "4/5"], ["-4/5", "3/5"]],
                    "K": [["23/25", "36/25"], ["36/25", "2/25"]]})
        out.append({"which": which, "spectrum": "negdef", "w": ["-3/2"], "V": [["1"]], "K": [["-3/2"]]})
        out.append({"which": which, "spectrum": "psd0", "w": ["0", "0"], "V": [["1", "0"], ["0", "1"]],
                    "K": [["0", "0"], ["0", "0"]]})
    return out


def ckey(prefix, c):
    return prefix + ":" + hashlib.sha1(json.dumps(c, sort_keys=True).encode()).hexdigest()[:12]


def run(ctx):
    rng = ctx.rng
    quick = ctx.tier == "quick"
    rp = getattr(ctx, "replay", None)
    rp = rp.get("replay", {}) if rp else {}
    payload = {"kernel": [], "post": [], "batched": [], "closest": [], "mitigate": []}
    if rp.get("stream") in payload:
        payload[rp["stream"]] = [rp["case"]]
    else:
        ker = corpus_kernel()
        nk = 110 if quick else 900
        for fn in ("km", "sq", "pol"):
            for _ in range(nk):
                kind = rng.choice(["table", "table", "table", "poly", "poly", "rbf", "asymf"])
                ker.append(gen_kernel_case(rng, fn, kind, ctx.tier))
            for _ in range(3 if quick else 15):
                ker.append(gen_kernel_case(rng, fn, "qnode", ctx.tier))
        post = corpus_post()
        for which in (0, 1, 2, 3):
            for _ in range(30 if quick else 250):
                post.append(gen_post_case(rng, which))
        batched = []
        for _ in range(12 if quick else 80):
            fn = rng.choice(["km", "sq"])
            c = gen_kernel_case(rng, fn, rng.choice(["poly", "rbf", "asymf", "table"]), ctx.tier)
            c["mults"] = [rng.randint(-4, 4) / 2 for _ in range(rng.randint(1, 3))]
            if fn == "km" and (not c["X1"] or not c["X2"]):
                c["X1"], c["X2"] = [0], [0]
            if fn == "sq" and (not c["xs"] or (len(c["xs"]) == 1 and c["an"])):
                c["xs"] = [0, 0]
            batched.append(c)
        payload = {"kernel": ker, "post": post, "batched": batched,
                   "closest": [gen_closest_case(rng) for _ in range(3 if quick else 20)],
                   "mitigate": [gen_mitigate_case(rng) for _ in range(25 if quick else 200)]}

    from concurrent.futures import ThreadPoolExecutor
    with ThreadPoolExecutor(max_workers=1) as pool:       # the implementation runs while Coq re-checks the theorems
        fut = pool.submit(ctx.run_impl, "c68_impl.py", payload)
        ctx.coq_props()
        res = fut.result()

    terms, owners = [], []
    hist = {"km": 0, "sq": 0, "pol": 0, "raises": 0, "assume_normalized": 0, "N1_shortcut": 0, "rescale": 0,
            "normalize": 0, "alias_target_alignment": 0, "pol_exact": 0, "imbalanced": 0, "one_class": 0,
            "nonsymmetric_ref_table": 0, "repeated_points": 0, "zero_matrix_nan": 0}
    kinds = {}
    nontrivial = 0
    # ---- kernel_matrix / square_kernel_matrix / polarity / target_alignment
    for c, o in zip(payload["kernel"], res["kernel"]):
        key = ckey("kernel", c)
        hist[c["fn"]] += 1
        kinds[c["kernel"]["kind"]] = kinds.get(c["kernel"]["kind"], 0) + 1
        hist["raises"] += o["out"] == "ERR"
        hist["zero_matrix_nan"] += o["out"] == "NAN"
        T = o["tref"]
        hist["nonsymmetric_ref_table"] += any(T[a][b] != T[b][a] for a in range(len(T)) for b in range(a))
        pts = c.get("xs", c.get("X1", []))
        hist["repeated_points"] += len(set(pts)) < len(pts)
        if c["fn"] != "km":
            hist["assume_normalized"] += c["an"]
            hist["N1_shortcut"] += c["an"] and len(c["xs"]) == 1
        if c["fn"] == "pol":
            hist["rescale"] += c["rescale"]; hist["normalize"] += c["normalize"]
            hist["alias_target_alignment"] += c["normalize"] and c["alias"]
            hist["pol_exact"] += pol_exact(c)
            npl = sum(1 for y in c["Y"] if y == 1)
            hist["imbalanced"] += 0 < npl < len(c["Y"]) and 2 * npl != len(c["Y"])
            hist["one_class"] += bool(c["Y"]) and npl in (0, len(c["Y"]))
        nontrivial += o["out"] != "ERR" and len(pts) > 1
        for f in direct_kernel(c, o):
            ctx.violation("direct:" + key, {"stream": "kernel", "case": c, "failure": f, "observed": o},
                          what=f"{c['fn']}: {f}")
        if isinstance(o["out"], str) and o["out"] not in ("ERR",):
            continue                       # NAN / BADSHAPE: reported by the direct oracle, not expressible as a term
        terms.append(g_kernel_case(c, o))
        owners.append(("corr:" + key, {"stream": "kernel", "case": c, "observed": o},
                       f"{c['fn']}: implementation differs from the proved model of pennylane.kernels"))

    # ---- spectral post-processing
    spec_hist = {}
    for c, o in zip(payload["post"], res["post"]):
        key = ckey("post", c)
        spec_hist[c["spectrum"]] = spec_hist.get(c["spectrum"], 0) + 1
        fails = direct_post(c, o)
        for f in fails:
            ctx.violation("direct:" + key, {"stream": "post", "case": c, "failure": f},
                          what=f"{['threshold_matrix', 'displace_matrix', 'flip_matrix', 'closest_psd_matrix'][c['which']]}: {f}")
        if isinstance(o["out"], str):
            continue
        nontrivial += 1
        terms.append(g_post_case(c, o))
        owners.append(("corr:" + key, {"stream": "post", "case": c, "observed": o},
                       f"{['threshold_matrix', 'displace_matrix', 'flip_matrix', 'closest_psd_matrix'][c['which']]}: "
                       "output differs from V f(w) V^T of the proved model (1e-9) or the generated spectral form is inconsistent"))

    if terms:
        bad = ctx.coq_eval_cases("cases", "From PLV Require Import Num.KernelsModel.\nFrom Coq Require Import QArith.\nOpen Scope Q_scope.",
                                 terms, "check_case", chunk=150)
        for i in bad:
            k, rep, what = owners[i]
            ctx.violation(k, rep, found_input=True, what=what)

    # ---- numeric-only streams
    for c, o in zip(payload["batched"], res["batched"]):
        for f in direct_batched(c, o):
            ctx.violation("direct:" + ckey("batched", c), {"stream": "batched", "case": c, "failure": f}, what=f)
    cvx = 0
    for c, o in zip(payload["closest"], res["closest"]):
        fails = direct_closest(c, o)
        if fails is None:
            ctx.notes.append("cvxpy not importable: closest_psd_matrix(fix_diagonal=True) raises ImportError as documented; not tested")
            continue
        cvx += 1
        for f in fails:
            ctx.violation("direct:" + ckey("closest", c), {"stream": "closest", "case": c, "failure": f, "observed": o},
                          what="closest_psd_matrix(fix_diagonal=True): " + f)
    mh = {}
    for c, o in zip(payload["mitigate"], res["mitigate"]):
        mh[c["method"]] = mh.get(c["method"], 0) + 1
        for f in direct_mitigate(c, o):
            ctx.violation("direct:" + ckey("mitigate", c), {"stream": "mitigate", "case": c, "failure": f, "observed": o}, what=f)

    ctx.coverage.update({
        "evaluations": len(payload["kernel"]) + len(payload["post"]) + len(payload["batched"]) + len(payload["closest"]) + len(payload["mitigate"]),
        "distinct_nontrivial": int(nontrivial),
        "rule": "corpus (docstring-like tables, N=0/1 edge cases, QNode kernel, the documentation witness, fixed rational "
                "spectral forms) + seeded random: pools of 1-6 points, index lists of length 0-7 with repetitions, kernels "
                "table(k/8, mostly non-symmetric)/integer polynomial with asymmetric term/rbf/non-symmetric float/"
                "AngleEmbedding QNode, X as list of arrays/2-D array/nested lists, kernel return type float/np.float64/0-d "
                "array, labels +-1 with class imbalance and one-class sets, all option combinations; spectral cases n=1-6, "
                "V = product of 0-3 rational Householder reflections and a signed permutation, spectra indefinite/PSD/"
                "PSD with zero/negative definite/repeated/tiny; non-trivial = accepted call on >1 point or a spectral case",
        "input_distribution": dict(hist, kernel_kinds=kinds, spectra=spec_hist, mitigate_methods=mh,
                                   batched=len(payload["batched"]), closest_cvxpy=cvx),
    })
    for c, o in list(zip(payload["kernel"], res["kernel"]))[3:5]:
        ctx.sample({"case": c, "out": o["out"] if isinstance(o["out"], str) else "matrix/value (exact rationals)"})
    for c, o in list(zip(payload["post"], res["post"]))[:1]:
        ctx.sample({"post_case": {k: c[k] for k in ("which", "w", "V", "K")}, "out_first_row": o["out"][0] if not isinstance(o["out"], str) else o["out"]})
