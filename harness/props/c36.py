"""C36 Finite-difference coefficients have their stated accuracy."""
from fractions import Fraction as F

from vlib import *

PID = "C36"
META = {
    "level": "proof",
    "technique": "Coq proof over Q (structural induction on the polynomial via Taylor/Hasse coefficients) that moment conditions imply exact differentiation + vm_compute of an exact-rational model of finite_diff_coeffs on the stated grid + correspondence of the real float output with the model's rationals evaluated inside Coq",
    "design_ref": "DESIGN.md §3 C36",
    "text": "Props/C36.v: moments_imply_exact (for ALL stencils, all polynomials of degree < D, all base points x0 and steps h != 0: "
            "sum_i c_i s_i^j = n![j=n] for j < D implies (sum_i c_i p(x0+h s_i))/h^n = p^(n)(x0); also the undivided form), "
            "coeffs_satisfy_moments (n<=4, approx<=6) and coeffs_satisfy_moments_ext (n<=8, approx<=10): the model's coefficients "
            "(source-faithful shift selection, exact Gaussian elimination of the Vandermonde system, 1e-10 pruning, |shift| sort) satisfy the "
            "moment conditions with D = n+approx for forward/backward/center (vm_compute, bounds in the statement), coeffs_defined, and the "
            "combination fd_coeffs_differentiate_exactly. Tie: on every run the real finite_diff_coeffs is called on the whole grid "
            "(plus rejected inputs); shifts must equal the model's exactly and every float coefficient must be within 1e-9*max(1,max|c|) "
            "of the model's rational, decided inside Coq (check_case). Direct oracle: the returned float stencil is applied in exact "
            "Fraction arithmetic to monomials and random integer polynomials of degree < n+approx at random x0, h and compared with the "
            "exact derivative.",
    "note": "The implementation computes in float64 (scipy LU of a Vandermonde matrix), so 'exactly' can only be tied up to a tolerance: "
            "1e-9 relative to the largest coefficient of the stencil. The tie grid is n<=4, approx<=6 (quick) and n<=6, approx<=8 restricted "
            "to forward/backward stencils of at most 10 points plus all centred ones (thorough): for forward/backward stencils with more "
            "points the float solve itself loses accuracy (measured every run and listed in notes, relative coefficient error up to ~7e-5 at "
            "14 points, not reported as a violation). Order of columns among equal |shift| (numpy argsort is not stable) is not compared; "
            "ascending |shift| is checked. Non-int n/approx_order (isinstance rejection) and the functools.cache wrapper are outside the model. "
            "vandermonde_unique (DESIGN) is not proved: the model's solver is not proved correct in general, its OUTPUT is checked against the "
            "moment conditions on the whole stated grid, which is what the property needs. Polynomials are coefficient lists over Q; "
            "smooth non-polynomial functions (the O(h^approx) error term) are outside the property.",
    "assumptions": ["n and approx_order are Python ints (other types are rejected by the implementation and not modelled)",
                    "float64 results are compared with the exact rationals up to 1e-9 * max(1, max|coefficient|)"],
    "trusted": ["hand-written model coq/Num/FiniteDiffModel.v tied to /repo by correspondence on the full grid",
                "Python fractions.Fraction arithmetic in the direct oracle"],
}

STRATS = {"forward": "Forward", "backward": "Backward", "center": "Center"}


def npoints(n, a, s):
    """number of sample points before pruning (used only to pick the tie grid, not for checking)"""
    num_points = a + 2 * ((n + 1) // 2) - 1
    if s == "center":
        return 2 * (num_points // 2) + 1
    return num_points + 1 if n % 2 == 0 else num_points


def canon(o):
    """impl observation -> list of (coeff, shift) Fractions, ties among equal |shift| ascending; None for ValueError"""
    if o == "ERR":
        return None
    if isinstance(o, str):
        return []          # unexpected exception: never equal to a model output
    cols = [(F(c[0], c[1]), F(c[2], c[3])) for c in o["cols"]]
    return sorted(cols, key=lambda cs: (abs(cs[1]), cs[1]))


def g_case(c, cols):
    s = STRATS.get(c["s"], "SUnknown")
    exp = "(@None (list (Q * Q)))" if cols is None else "(Some " + glist(cols, lambda cs: f"({gq(cs[0])}, {gq(cs[1])})") + ")"
    return f"(({gz(c['n'])}, {gz(c['a'])}, {s}), {exp})"


def peval(p, x):
    r = F(0)
    for a in reversed(p):
        r = r * x + a
    return r


def nderiv(p, n):
    for _ in range(n):
        p = [k * p[k] for k in range(1, len(p))]
    return p


def gen_polys(rng, n, a, extra):
    """(p, x0, h): all monomials of degree < n+a at x0=0,h=1 (= the moment conditions) then random ones"""
    D = n + a
    out = [([0] * j + [1], F(0), F(1)) for j in range(D)]
    for _ in range(extra):
        deg = rng.choice([D - 1, D - 1, rng.randint(0, D - 1)])
        p = [rng.randint(-9, 9) for _ in range(deg + 1)]
        if p[-1] == 0:
            p[-1] = rng.choice([-3, 1, 7])
        x0 = rng.choice([F(0), F(1), F(-2), F(rng.randint(-5, 5)), F(rng.randint(-9, 9), rng.choice([2, 3, 7]))])
        h = rng.choice([F(1), F(-1), F(1, 2), F(2), F(1, 10), F(rng.randint(1, 9), rng.choice([4, 5, 100]))])
        out.append((p, x0, h))
    return out


def direct_oracle(c, cols, polys):
    """the property itself on the implementation's float stencil, in exact arithmetic.
    returns None or a witness dict"""
    n = c["n"]
    shifts = [s for _, s in cols]
    if any(abs(shifts[i]) > abs(shifts[i + 1]) for i in range(len(shifts) - 1)):
        return {"what": "shifts not in ascending |shift| order", "shifts": [str(s) for s in shifts]}
    if len(set(shifts)) != len(shifts):
        return {"what": "repeated shift", "shifts": [str(s) for s in shifts]}
    cmax = max([abs(x) for x, _ in cols] + [F(1)])
    for p, x0, h in polys:
        vals = [peval(p, x0 + h * s) for _, s in cols]
        got = sum(cf * v for (cf, _), v in zip(cols, vals)) / h ** n
        want = peval(nderiv(p, n), x0)
        scale = cmax * sum(abs(v) for v in vals) / abs(h) ** n + 1
        if abs(got - want) > F(1, 10 ** 6) * scale:
            return {"what": "stencil does not differentiate the polynomial", "poly_low_to_high": p, "x0": str(x0), "h": str(h),
                    "stencil_value": float(got), "exact_derivative": float(want), "scale": float(scale)}
    return None


def run(ctx):
    ctx.coq_props()
    rng = ctx.rng
    thorough = ctx.tier != "quick"
    nmax, amax = (6, 8) if thorough else (4, 6)
    # ---- corpus: documented examples + regression cells first, then the exhaustive grid, then rejected inputs
    cases = [{"n": 1, "a": 1, "s": "forward"}, {"n": 1, "a": 2, "s": "center"}, {"n": 2, "a": 2, "s": "center"},
             {"n": 3, "a": 4, "s": "center"}, {"n": 2, "a": 3, "s": "backward"}]
    if getattr(ctx, "replay", None) and isinstance(ctx.replay.get("replay", {}).get("case"), dict):
        cases.insert(0, ctx.replay["replay"]["case"])
    seen = {json.dumps(c, sort_keys=True) for c in cases}
    observe = []      # cells where float64 LU is known to lose accuracy: measured, not judged
    for n in range(1, nmax + 1):
        for a in range(1, amax + 1):
            for s in ("forward", "backward", "center"):
                c = {"n": n, "a": a, "s": s}
                k = json.dumps(c, sort_keys=True)
                if k in seen:
                    continue
                if s != "center" and npoints(n, a, s) > 10:
                    observe.append(c)
                    continue
                seen.add(k)
                cases.append(c)
    if not thorough:
        observe = [{"n": n, "a": a, "s": s} for n in range(1, 7) for a in range(1, 9) for s in ("forward", "backward")
                   if 11 <= npoints(n, a, s) <= 14 and (n + a) % 2 == 0][:12]
    else:
        observe += [{"n": n, "a": a, "s": "center"} for n in range(1, 9) for a in (2, 4, 6, 8, 10) if n > nmax or a > amax]
    malformed = [{"n": 0, "a": 1, "s": "forward"}, {"n": -1, "a": 2, "s": "center"}, {"n": 1, "a": 0, "s": "backward"},
                 {"n": 2, "a": -3, "s": "forward"}, {"n": 1, "a": 1, "s": "centre"}, {"n": 2, "a": 2, "s": "Forward"},
                 {"n": 0, "a": 0, "s": "bogus"}]
    for _ in range(20 if thorough else 8):
        malformed.append({"n": rng.choice([0, -1, -5, 1, 2, 3]), "a": rng.choice([0, -2, 1, 3, 5]),
                          "s": rng.choice(["forward", "backward", "center", "center", "", "fwd", "central"])})
    for c in malformed:
        k = json.dumps(c, sort_keys=True)
        if k not in seen:
            seen.add(k)
            cases.append(c)

    obs = ctx.run_impl("c36_impl.py", {"cases": cases + observe})
    obs_main, obs_observe = obs[:len(cases)], obs[len(cases):]
    canons = [canon(o) for o in obs_main]
    terms = [g_case(c, cols) for c, cols in zip(cases, canons)]
    hdr = "From PLV Require Import Num.FiniteDiffModel.\nFrom Coq Require Import QArith List. Import ListNotations."
    bad = ctx.coq_eval_cases("cases", hdr, terms, "check_case", chunk=40)

    hist = {"forward": 0, "backward": 0, "center": 0, "rejected": 0, "unexpected_exception": 0,
            "zero_column_pruned": 0, "tie_order_not_ascending": 0, "max_points": 0, "polynomials": 0}
    nontrivial = 0
    extra = 40 if thorough else 6
    for c, o, cols in zip(cases, obs_main, canons):
        key = json.dumps(c, sort_keys=True)
        if o == "ERR":
            hist["rejected"] += 1
            continue
        if isinstance(o, str):
            hist["unexpected_exception"] += 1
            ctx.violation("direct:" + key, {"case": c, "observed": o}, what="finite_diff_coeffs raised an unexpected exception " + o)
            continue
        hist[c["s"]] += 1
        nontrivial += 1
        hist["max_points"] = max(hist["max_points"], len(cols))
        if len(cols) < npoints(c["n"], c["a"], c["s"]):
            hist["zero_column_pruned"] += 1
        raw = [(F(x[0], x[1]), F(x[2], x[3])) for x in o["cols"]]
        if raw != cols:
            hist["tie_order_not_ascending"] += 1
        polys = gen_polys(rng, c["n"], c["a"], extra)
        hist["polynomials"] += len(polys)
        w = direct_oracle(c, raw, polys)
        if w is not None:
            ctx.violation("direct:" + key, {"case": c, "witness": w, "columns_coeff_shift": [[float(a), float(b)] for a, b in raw]},
                          what="finite_diff_coeffs stencil is not exact on a polynomial of degree < n+approx_order: " + w["what"])
    if bad:
        shown = bad[:6]
        try:
            mods = ctx.coq_eval_terms("model_out", hdr, [
                f"fd_coeffs {gz(cases[i]['n'])} {gz(cases[i]['a'])} {STRATS.get(cases[i]['s'], 'SUnknown')}" for i in shown])
        except CoqError:
            mods = ["?"] * len(shown)
        modd = dict(zip(shown, mods))
        for i in bad:
            c, o = cases[i], obs_main[i]
            impl = o if isinstance(o, str) else [[float(F(x[0], x[1])), float(F(x[2], x[3]))] for x in o["cols"]]
            ctx.violation("corr:" + json.dumps(c, sort_keys=True),
                          {"case": c, "implementation_coeff_shift": impl, "model_coeff_shift_exact": modd.get(i, "(see coq/Gen/C36)")},
                          found_input=True, what="finite_diff_coeffs differs from the proved exact-rational model (shifts, or a coefficient by more than 1e-9 relative)")

    # ---- float-conditioning observation (no verdict): relative coefficient error of large stencils, computed in Coq
    if observe:
        oterms = []
        for c, o in zip(observe, obs_observe):
            cols = canon(o)
            oterms.append("case_err " + g_case(c, cols))
        res = ctx.coq_eval_terms("observe", hdr, oterms)
        lines = []
        for c, r in zip(observe, res):
            m = re.search(r"Some \((-?\d+)(?:%Z)?, (\d+)(?:%Z)?\)", r)
            tag = f"{c['s']} n={c['n']} approx={c['a']} points={npoints(c['n'], c['a'], c['s'])}"
            if m:
                e = F(int(m.group(1)), int(m.group(2)))
                if e > F(1, 10 ** 9):
                    lines.append(f"{tag}: rel.coeff.err {float(e):.2e}")
            else:
                lines.append(f"{tag}: shape/shifts differ from the exact stencil (pruning threshold 1e-10 below float error)")
        ctx.notes.append({"float64_conditioning_observation (not judged; tolerance 1e-9 exceeded in)": lines,
                          "cells_measured": len(observe)})

    ctx.coverage.update({
        "evaluations": len(cases) + hist["polynomials"], "distinct_nontrivial": nontrivial,
        "rule": f"exhaustive grid n<=`{nmax}`, approx<=`{amax}`, forward/backward/center (forward/backward limited to <=10 points: float64 LU accuracy), "
                "documented examples first, rejected inputs (n<1, approx<1, odd centre order, unknown strategy; fixed + seeded); "
                f"per accepted cell all monomials x^j, j<n+approx, plus {extra} seeded random integer polynomials at random rational x0,h; "
                "non-trivial = accepted cell (a stencil was returned and compared)",
        "input_distribution": hist})
    for c, o in list(zip(cases, obs_main))[:3]:
        ctx.sample({"case": c, "observed_coeff_shift": o if isinstance(o, str) else [[float(F(x[0], x[1])), float(F(x[2], x[3]))] for x in o["cols"]]})
