"""C52 Observable grouping partitions correctly."""
from vlib import *
import math
from collections import Counter

PID = "C52"
META = {
    "level": "proof",
    "technique": "Coq proofs (induction over words / colourings) about a Gallina transcription of the grouping code, "
                 "verified boolean checkers evaluated by vm_compute on the recorded output of the real "
                 "group_observables / compute_partition_indices / diagonalize_qwc_pauli_words (graph colouring = validated oracle)",
    "design_ref": "DESIGN.md §3 C52",
    "text": "13 kernel-checked theorems (Props/C52.v), all universally quantified over word lists / colourings: the symplectic "
            "adjacency computation of _adj_matrix_from_symplectic equals the negated direct definition of qwc / commuting / "
            "anticommuting entry by entry; the relations are symmetric; qwc implies commuting; binary_to_pauli inverts "
            "pauli_to_binary; ANY colouring accepted by the checker `properb` yields index groups that contain each index exactly "
            "once with pairwise related members; `valid_grouping` is sound; the find-and-pop routing of _partition_coeffs / "
            "_compute_partition_indices_rlf only rearranges the (word, coefficient|index) pairs and keeps group shapes; "
            "group_observables (rustworkx path) returns a partition into pairwise related groups whenever no wire-less observable "
            "meets grouping type anticommuting (that corner is REFUTED by a kernel-checked counterexample and reported as a "
            "finding on the real code); a pairwise qwc group always has a common basis and the per-wire rotations chosen for it "
            "conjugate every member to its Z/I word with sign +1 (coefficient unchanged), the conjugation table being derived "
            "from 2x2 Gaussian-integer matrices of sqrt2*RY(-pi/2), sqrt2*RX(pi/2) which are compared with qp.matrix on every run. "
            "Tie: random word sets (duplicates, identity on a wire, wire-less identity, int/str wire labels, explicit Identity "
            "factors) x 3 grouping types x 4 colouring methods go through the real group_observables, compute_partition_indices, "
            "PauliGroupingStrategy and diagonalize_qwc_pauli_words; Coq evaluates the model on the same inputs (binary matrix, both "
            "adjacency matrices, groups, coefficient groups, partition indices, strategy indices, diagonalising gates and words must "
            "all be equal) and evaluates the verified checkers on the implementation's own output and on the recorded colouring "
            "(rustworkx / rlf output validated, not trusted); a Python direct oracle re-checks partition / relation / coefficient "
            "multiset and, for <= 4 wires, numerically that U P U^dagger is diagonal and equals the returned Z-word with the same "
            "coefficient (also for scalar multiples of the members).",
    "note": "The colouring heuristics (rustworkx graph_greedy_color lf/dsatur/gis and the repo's recursive_largest_first) are "
            "NOT modelled: their recorded result is validated per case by the verified checker (so properness is checked, "
            "not proved, and optimality of the number of groups is not addressed). Wire labels -> positions (first appearance) "
            "is computed by the harness in Python and tied through the exported binary matrix. The word-level diagonalisation "
            "theorem treats conjugation of a tensor product factor-wise (standard; tied numerically for <= 4 wires only). "
            "int8 overflow in the adjacency computation is not modelled (entries are 0..3). coefficients=None call form and "
            "non-Pauli inputs are not exercised.",
    "assumptions": ["observables are single Pauli words (Identity/X/Y/Z products), coefficients real",
                    "graph colouring result is taken from the real run and validated, not derived"],
    "trusted": ["hand-written model coq/Disc/GroupingModel.v tied to /repo by correspondence only",
                "harness computation of the wire order (first appearance) and of words from factor lists"],
}

GTS = ["qwc", "commuting", "anticommuting"]
METHODS = ["lf", "rlf", "dsatur", "gis"]
F_WIRELESS = "finding:anticommuting-wireless-identity-joins-first-group"
F_SCALED_ID = "finding:diagonalize-scaled-identity-drops-coefficient"


# ------------------------------------------------------------------ generator
def gen_case(rng, tier):
    pool = [0, 1, 2, 3, 4, "a", "b", 7]
    nw = rng.choice([1, 2, 2, 3, 3, 4, 4, 5] + ([6] if tier == "thorough" else []))
    wires = rng.sample(pool, nw)
    m = rng.choice([1, 2, 3, 4, 5, 6, 7, 8, 9] + ([11, 14] if tier == "thorough" else []))
    pref = {w: rng.choice("XYZ") for w in wires}
    obs = []
    if rng.random() < 0.02:
        obs = [[] for _ in range(rng.randint(1, 3))]
    while len(obs) < m:
        r = rng.random()
        if obs and r < 0.2:
            o = list(rng.choice(obs))
            if rng.random() < 0.5:
                o.reverse()
            obs.append(o)
        elif r < 0.27:
            obs.append([["I", rng.choice(wires)]])
        elif r < 0.33:
            obs.append([])
        else:
            k = rng.randint(1, nw)
            ws = rng.sample(wires, k)
            o = []
            for w in ws:
                l = pref[w] if rng.random() < 0.55 else rng.choice("XYZ")
                if rng.random() < 0.08:
                    l = "I"
                o.append([l, w])
            obs.append(o)
    co = [(i + 1) * rng.choice([1, 1, 2, 3]) for i in range(len(obs))]
    if rng.random() < 0.3:
        co = [rng.choice([1, 2, 5, -3]) for _ in obs]
    c = {"gt": rng.choice(GTS), "method": rng.choice(METHODS), "obs": obs, "coeffs": co}
    if c["gt"] == "qwc" and rng.random() < 0.4:
        c["scal"] = [[rng.choice([1, 3, -1, 5, -7, 2]), rng.choice([1, 2, 4])] for _ in range(3)]
    return c


def wire_order(case):
    order = []
    for o in case["obs"]:
        for _, w in o:
            if w not in order:
                order.append(w)
    return order


def word_of_factors(o, order):
    d = {w: l for l, w in o}
    return [d.get(w, "I") for w in order]


def word_of_pw(pw, order):
    d = {}
    for w, l in pw:
        d[w] = l
    if any(w not in order for w in d):
        return None
    return [d.get(w, "I") for w in order]


# ------------------------------------------------------------------ direct definitions (python)
def lc(a, b):
    return a == "I" or b == "I" or a == b


def is_idw(w):
    return all(l == "I" for l in w)


def rel_py(gt, u, v):
    if gt == "qwc":
        return all(lc(a, b) for a, b in zip(u, v))
    par = sum(0 if lc(a, b) else 1 for a, b in zip(u, v)) % 2
    return par == 0 if gt == "commuting" else par == 1


# ------------------------------------------------------------------ Gallina printers
def g_word(w):
    return glist(w, lambda l: "P" + l)


def g_case(c, order, o):
    obs = glist(c["obs"], lambda f: f"({g_word(word_of_factors(f, order))}, {gbool(len(f) > 0)})")
    if c["method"] == "rlf":
        orc = "(ORlf " + glist(o.get("rlf", []), lambda g: glist(g, lambda r: glist(r, gz))) + ")"
    else:
        orc = "(ORx " + glist(o["cols"], gz) + ")"
    gt = {"qwc": "QWC", "commuting": "COMM", "anticommuting": "ANTI"}[c["gt"]]
    return (f"(mkCase {gt} {gbool(c['method'] == 'rlf')} {obs} {glist(c['coeffs'], gz)} {orc} "
            f"{glist(o['cols_all'], gz)})")


GATE = {("RY", -1): "GRYm", ("RX", 1): "GRXp"}


def diag_struct(d, order):
    """-> None (ERR) | (gates per position | None if unrepresentable, words | None)"""
    if d == "ERR":
        return None
    per = {}
    ok = True
    for name, w, ang in d["gates"]:
        s = 1 if abs(ang - math.pi / 2) < 1e-12 else (-1 if abs(ang + math.pi / 2) < 1e-12 else 0)
        if (name, s) not in GATE or w in per or w not in order:
            ok = False
        else:
            per[w] = GATE[(name, s)]
    words = [word_of_pw(op["pw"], order) for op in d["ops"]]
    if not ok or any(w is None for w in words):
        return ("BAD", None)
    return ([per.get(w, "GNone") for w in order], words)


def g_exp(c, order, o, notes):
    mat = lambda m, f: glist(m, lambda r: glist(r, f))
    if isinstance(o["groups"], str):
        groups, cg = "None", "[]"
    else:
        ws = [[word_of_pw(op["pw"], order) for op in g] for g in o["groups"]]
        if any(w is None for g in ws for w in g) or any(x is None for g in o["cgroups"] for x in g):
            notes.append("unrepresentable group output")
            groups, cg = "None", "[]"
        else:
            groups = "(Some " + glist(ws, lambda g: glist(g, g_word)) + ")"
            cg = mat(o["cgroups"], gz)
    pidx = "None" if isinstance(o["pidx"], str) else "(Some " + mat(o["pidx"], gnat) + ")"
    ds = []
    for d in o["diag"]:
        s = diag_struct(d, order)
        if s is None:
            ds.append("None")
        elif s[0] == "BAD":
            notes.append("unrepresentable diagonalisation output")
            ds.append("(Some ([], []))")
        else:
            ds.append(f"(Some ({glist(s[0])}, {glist(s[1], g_word)}))")
    return (f"(mkExp {mat(o['bin'], gz)} {mat(o['adj'], gbool)} {mat(o['adj_all'], gbool)} {groups} {cg} "
            f"{pidx} {mat(o['sidx'], gnat)} {glist(ds)})")


# ------------------------------------------------------------------ direct oracle on the implementation's output
def direct_oracle(c, order, o, stats):
    """returns (list of generic problems, list of finding keys)"""
    probs, finds = [], []
    gt = c["gt"]
    words = [word_of_factors(f, order) for f in c["obs"]]
    wireless = [len(f) == 0 for f in c["obs"]]
    m = len(words)
    if o["wires"] != order:
        probs.append(f"wire order {o['wires']} != first-appearance order {order}")
    # --- compute_partition_indices
    if isinstance(o["pidx"], str):
        probs.append("compute_partition_indices raised " + o["pidx"])
    else:
        flat = [i for g in o["pidx"] for i in g]
        if sorted(flat) != list(range(m)):
            probs.append(f"partition indices {o['pidx']} are not a partition of range({m})")
        else:
            for g in o["pidx"]:
                for x in range(len(g)):
                    for y in range(x + 1, len(g)):
                        if not rel_py(gt, words[g[x]], words[g[y]]):
                            if gt == "anticommuting" and any(wireless) and (is_idw(words[g[x]]) or is_idw(words[g[y]])):
                                finds.append(F_WIRELESS)
                            else:
                                probs.append(f"indices {g[x]},{g[y]} grouped by compute_partition_indices but not {gt}")
    # --- group_observables
    if isinstance(o["groups"], str):
        probs.append("group_observables raised " + o["groups"])
        return probs, finds
    gw = [[(word_of_pw(op["pw"], order), op["hw"], tuple(op["c"])) for op in g] for g in o["groups"]]
    if [len(g) for g in gw] != [len(g) for g in o["cgroups"]]:
        probs.append("coefficient groups have a different shape than the observable groups")
    else:
        got = Counter((tuple(w), cc) for g, cg in zip(gw, o["cgroups"]) for (w, _, _), cc in zip(g, cg))
        want = Counter((tuple(w), cc) for w, cc in zip(words, c["coeffs"]))
        if got != want:
            probs.append(f"(word, coefficient) multiset changed: {sorted(map(str, (got - want).items()))} vs {sorted(map(str, (want - got).items()))}")
    if any(cc != (64, 64) for g in gw for _, _, cc in g):
        probs.append("a returned observable carries a scalar factor")
    for g in gw:
        if len(g) > 1:
            stats["multi_groups"] += 1
        for x in range(len(g)):
            for y in range(x + 1, len(g)):
                if not rel_py(gt, g[x][0], g[y][0]):
                    if gt == "anticommuting" and any(wireless) and (is_idw(g[x][0]) or is_idw(g[y][0])):
                        finds.append(F_WIRELESS)
                    else:
                        probs.append(f"{g[x][0]} and {g[y][0]} grouped by group_observables but not {gt}")
    # --- diagonalisation
    for g, d in zip(gw, o["diag"]):
        pair_qwc = all(rel_py("qwc", g[x][0], g[y][0]) for x in range(len(g)) for y in range(x + 1, len(g)))
        if d == "ERR":
            stats["diag_err"] += 1
            if pair_qwc:
                probs.append("diagonalize_qwc_pauli_words rejected a pairwise qwc group")
            continue
        stats["diag_ok"] += 1
        if not pair_qwc:
            probs.append("diagonalize_qwc_pauli_words accepted a group that is not pairwise qwc")
            continue
        s = diag_struct(d, order)
        if s[0] == "BAD":
            probs.append(f"unexpected diagonalising gates {d['gates']}")
            continue
        gates, dwords = s
        basis = {}
        for w, _, _ in g:
            for k, l in enumerate(w):
                if l != "I":
                    basis[k] = l
        want_g = [{"X": "GRYm", "Y": "GRXp"}.get(basis.get(k), "GNone") for k in range(len(order))]
        if gates != want_g:
            probs.append(f"diagonalising gates {gates} != {want_g}")
        if dwords != [["I" if l == "I" else "Z" for l in w] for w, _, _ in g]:
            probs.append("diagonalised words are not the Z-images of the members")
        if any(tuple(op["c"]) != (64, 64) for op in d["ops"]):
            probs.append("diagonalised word has a coefficient != 1")
        if d["num"] is not None:
            stats["diag_numeric"] += 1
            if not d["num"]:
                probs.append("numerically U P U^dagger != returned diagonal observable")
    sd = o.get("sdiag")
    if sd is not None:
        stats["scaled_diag"] += 1
        if sd["out"] == "ERR":
            probs.append("diagonalize_qwc_pauli_words rejected scalar multiples of a qwc group")
        else:
            for a, b in zip(sd["in"], sd["out"]["ops"]):
                if a["c"] != b["c"]:
                    if all(l == "I" for l in word_of_pw(a["pw"], order)):
                        finds.append(F_SCALED_ID)
                    else:
                        probs.append(f"coefficient {a['c']} of a member became {b['c']} after diagonalisation")
            if sd["out"]["num"] is False and F_SCALED_ID not in finds:
                probs.append("numerically U (cP) U^dagger != returned diagonal observable (scaled members)")
    return probs, finds


CORPUS = [
    {"gt": "qwc", "method": "lf", "obs": [[["X", 0], ["Z", 1]], [["Z", 0]], [["X", 1]]], "coeffs": [1, 2, 3]},
    {"gt": "anticommuting", "method": "lf", "obs": [[["Y", 0]], [["X", 0], ["X", 1]], [["Z", 1]]], "coeffs": [143, 421, 97]},
    {"gt": "qwc", "method": "rlf", "obs": [[["X", 0], ["Y", 1]], [["Z", 0]], [["I", 0]], [], [["Y", 1], ["X", 0]], [["Y", "a"], ["I", 3]]],
     "coeffs": [1, 2, 3, 4, 5, 6], "scal": [[3, 2], [5, 4]]},
    {"gt": "commuting", "method": "dsatur", "obs": [[["X", 0], ["X", 1]], [["Y", 0], ["Y", 1]], [["Z", 0], ["Z", 1]], [["X", 0]]],
     "coeffs": [7, 7, 7, 7]},
    {"gt": "commuting", "method": "gis", "obs": [[], []], "coeffs": [1, 2]},
    {"gt": "qwc", "method": "gis", "obs": [[["X", "b"], ["Y", 2], ["Z", 0]], [["X", "b"]], [["Y", 2], ["X", "b"]], [["Z", 2]]],
     "coeffs": [1, 2, 3, 4], "scal": [[-1, 2]]},
    # the two corners reported as findings
    {"gt": "anticommuting", "method": "lf", "obs": [[["X", 0]], [["Z", 0]], []], "coeffs": [1, 2, 3]},
    {"gt": "qwc", "method": "lf", "obs": [[["X", 0]], [["I", 1]]], "coeffs": [1, 2], "scal": [[3, 1], [-1, 4]]},
]


def run(ctx):
    ctx.coq_props()
    rng = ctx.rng
    if getattr(ctx, "replay", None) and isinstance(ctx.replay.get("replay", {}).get("case"), dict):
        cases = [ctx.replay["replay"]["case"]]
    else:
        n = 400 if ctx.tier == "quick" else 6000
        cases = [dict(c) for c in CORPUS]
        while len(cases) < n:
            cases.append(gen_case(rng, ctx.tier))
    res = ctx.run_impl("c52_impl.py", {"cases": cases})
    if not res["gate_mats_ok"]:
        ctx.violation("direct:gate-matrices", {"what": "sqrt2*RY(-pi/2) / sqrt2*RX(pi/2) differ from the matrices used in the Coq proof"},
                      what="rotation matrices changed")
    obs = res["obs"]
    orders = [wire_order(c) for c in cases]
    notes_all, terms = [], []
    for c, od, o in zip(cases, orders, obs):
        notes = []
        terms.append(f"({g_case(c, od, o)}, {g_exp(c, od, o, notes)})")
        notes_all.append(notes)
    hdr = "From PLV Require Import Disc.GroupingModel."
    # one pass: model = implementation AND the verified checkers accept the implementation's output;
    # the (few) failing cases are re-evaluated to tell the two apart
    both = ctx.coq_eval_cases("cases", hdr, terms, "check_both", chunk=60)
    bad, badv = [], set()
    if both:
        sub = ctx.coq_eval_cases("recheck", hdr, [terms[i] for i in both], "check_case", chunk=90)
        bad = [both[k] for k in sub]
        subv = ctx.coq_eval_cases("revalid", hdr, [terms[i] for i in both], "check_valid", chunk=90)
        badv = set(both[k] for k in subv)
        ctx.coverage["correspondence_cases"] = len(terms)

    stats = Counter()
    hist = Counter()
    distinct = set()
    for i, (c, od, o) in enumerate(zip(cases, orders, obs)):
        key = json.dumps(c, sort_keys=True)
        hist["gt:" + c["gt"]] += 1
        hist["method:" + c["method"]] += 1
        words = [tuple(word_of_factors(f, od)) for f in c["obs"]]
        if len(set(words)) < len(words):
            hist["with_duplicate_words"] += 1
        if any(f and all(l == "I" for l in w) for f, w in zip(c["obs"], words)):
            hist["with_identity_on_wire"] += 1
        if any(not f for f in c["obs"]):
            hist["with_wireless_identity"] += 1
        if any(isinstance(w, str) for w in od):
            hist["with_string_wire_labels"] += 1
        if not isinstance(o["groups"], str) and len(o["groups"]) > 1 and any(len(g) > 1 for g in o["groups"]):
            distinct.add(key)
        probs, finds = direct_oracle(c, od, o, stats)
        for f in sorted(set(finds)):
            ctx.violation(f, {"case": c, "observed": {k: o[k] for k in ("groups", "cgroups", "pidx", "sdiag")}},
                          what={F_WIRELESS: "group_observables(grouping_type='anticommuting') appends wire-less Identity observables to the first group although they commute with its members",
                                F_SCALED_ID: "diagonalize_pauli_word drops the coefficient of a scalar multiple of the identity"}[f])
        if probs or notes_all[i]:
            ctx.violation("direct:" + key, {"case": c, "problems": probs + notes_all[i], "observed": o},
                          what="grouping output violates partition / relation / coefficient / diagonalisation clause: " + "; ".join((probs + notes_all[i])[:2]))
        if i in badv and not probs and F_WIRELESS not in finds:
            ctx.violation("valid:" + key, {"case": c, "observed": o},
                          what="verified Coq checker (valid_grouping / properb / valid_word_grouping) rejects the implementation's output or the recorded colouring")
        if i not in badv and F_WIRELESS in finds:
            ctx.notes.append("python oracle flagged the wire-less corner but the Coq checker accepted case " + key)
    detail = []
    if bad:
        try:
            detail = ctx.coq_eval_terms("detail", hdr + "\nRequire Import List ZArith. Import ListNotations.",
                                        [f"(let ce := {terms[i]} in corr_vector (fst ce) (snd ce))" for i in bad[:5]])
        except CoqError as ex:       # locating the differing component is a convenience only
            ctx.notes.append("detail evaluation failed: " + str(ex)[-300:])
    for k, i in enumerate(bad):
        ctx.violation("corr:" + json.dumps(cases[i], sort_keys=True),
                      {"case": cases[i], "implementation": obs[i],
                       "model_vs_impl [bin, adj, adj_all, groups, coeffs, partition_indices, strategy_idx, diag]": detail[k] if k < len(detail) else "n/a"},
                      what="implementation differs from the proved model of the grouping code")
    ctx.coverage.update({
        "evaluations": len(cases), "distinct_nontrivial": len(distinct),
        "rule": "seeded generator: 1-6 wires from a pool of int/str labels, 1-14 observables, per-wire preferred letter (55%) so that "
                "groups are non-trivial, 20% duplicates (factor order reversed half the time), explicit Identity factors, Identity on a wire, "
                "wire-less Identity, all-wire-less sets; gt and method uniform; coefficients distinct or repeated; non-trivial = more than one "
                "group and a group with > 1 member",
        "input_distribution": dict(hist), "oracle_stats": dict(stats),
        "coq_checker_rejections": len(badv)})
    for c, o in list(zip(cases, obs))[8:11]:
        ctx.sample({"case": c, "groups": o["groups"] if isinstance(o["groups"], str) else [[op["pw"] for op in g] for g in o["groups"]],
                    "cgroups": o["cgroups"], "pidx": o["pidx"]})
