"""C12 The decompose transform reaches the target gate set without changing the circuit."""
from vlib import *
import math, re
import numpy as np
import exactsim

PID = "C12"
META = {
    "level": "proof",
    "technique": "Coq proofs by induction on recursion fuel over a Gallina transcription of _operator_decomposition_gen / decompose with the graph solution, op.decomposition() and the gate-set predicate as oracles; vm_compute correspondence on traced real runs; exact (Q(zeta_8)) and numeric unitary comparison of input and output; resource_estimate compared with the gates emitted",
    "design_ref": "DESIGN.md §3 C12, §5 item 15",
    "text": "Theorems (Props/C12.v, for all operators, oracles, fuels, budgets): every emitted operator is accepted by the stopping condition (under its Conditional wrappers), or is an Allocate/Deallocate, or carries an explicit flag (max-depth reached / GlobalPhase warning / non-strict keep) - otherwise the run is an error (decompose_in_target, and its strict corollary without flags); if every decomposition the oracles return is semantics-preserving in an arbitrary monoid then the output denotes the input (decompose_sem); if every decomposition used matches the declared resources of its gate type, the emitted gate types are a permutation of the estimate obtained by summing declared resources along the chosen tree (estimate_matches); the work-wire budget of every emitting call is non-negative when the solution only returns feasible rules (budget_never_negative). Tie, re-run on /repo each time: generated circuits x gate sets x graph on/off x budgets are run through qp.transforms.decompose (and the generator directly with strict/custom_decomposer) under a call tracer; (a) every output operator is checked against the harness' own reading of the gate set / stopping condition; (b) the output unitary (work wires in |0>, mid-circuit measurements deferred) equals the input unitary including global phase, numerically at 1e-8 and against the input simulated exactly in Coq; (c) the Coq model is evaluated with oracle tables the harness computes independently (own execution of the rule the graph solution names, own op.decomposition()) and must emit the same operators with the same work-wire budgets and the same number of warnings; (d) DecompGraphSolution.resource_estimate equals the multiset of gate types emitted when all rules on the subtree declare exact resources.",
    "note": "Not proved: optimality/feasibility of the rustworkx graph search, correctness of individual decomposition rules (C10) and of their declared resources (C11) - these are hypotheses of decompose_sem / estimate_matches / budget_never_negative and are validated per generated instance by (b), by (d) (whose premise 'declared resources = operators produced' is itself checked per rule on the instance, at the level of gate-type names) and by the recorded budgets. The model's `expand` is tied to DecompGraphSolution.resource_estimate only through (d) (real estimate = real emission) plus the theorem (model emission = expand); gate types in (d) are compared by name (to_name), not by abstract parameters. The oracle tables fed to the model are computed by the harness from the same DecompGraphSolution object and the same op.decomposition() the run used (independent re-execution, not an independent implementation). Error cases with more than 250 generator calls (RecursionError) are compared as Ok/Err only, without running the model. The plxpr (program capture) DecomposeInterpreter and devices.preprocess.decompose's own wrapper are not modelled (the generator is driven directly with strict/custom_decomposer instead). Leftover operators: with the graph disabled the docstring of decompose documents 'left in the circuit with a UserWarning' (allowed, the warning naming the operator is required, strict is ignored by that code path); with the graph enabled GlobalPhase is kept with its own warning (allowed); graph enabled and strict=False treats such operators as supported (allowed); graph enabled and strict=True: the docstring promises a DecompositionError but the operator is returned with a DecompositionWarning only - reported as finding:graph_strict_leftover (corpus case PSWAP**-1). Exceptions other than RecursionError/DecompositionError/DecompositionUndefinedError on valid circuits are reported as crash:<message> (corpus case Pow(Identity,0) with the graph enabled: ValueError 'null_decomp already exists'). Transcribed quirk (not judged): the base of a Conditional is decomposed with num_work_wires reset to the default 0. Circuits have <= 3 wires (MultiControlledX up to 5); semantic comparison of outputs with mid-circuit measurements uses defer_measurements and is numeric only.",
    "assumptions": ["rules chosen by the graph solution are semantics-preserving and have exact declared resources (hypotheses of the theorems; validated per instance)",
                    "program-capture (plxpr) path of decompose is outside the model"],
    "trusted": ["hand-written model coq/Disc/DecompModel.v tied to /repo by correspondence on traced runs",
                "harness/impl/c12_impl.py call tracer and independent oracle evaluation",
                "harness/exactsim.py + translator harness/qx.py for the exact reference; numpy for the numeric comparison"],
}

PYTH = [(3, 4, 5), (4, 3, 5), (5, 12, 13), (12, 5, 13), (8, 15, 17), (15, 8, 17), (7, 24, 25), (24, 7, 25), (20, 21, 29)]
SPECIAL = [0.0, math.pi / 2, math.pi, -math.pi / 2, 3 * math.pi / 2, 2 * math.pi, -math.pi]


def ang(rng):
    if rng.random() < 0.2:
        return rng.choice(SPECIAL)
    p, q, _ = rng.choice(PYTH)
    return 2 * math.atan2(rng.choice([1, -1]) * q, p)


G1 = [("RX", 1), ("RY", 1), ("RZ", 1), ("PhaseShift", 1), ("Rot", 3), ("U1", 1), ("U2", 2), ("U3", 3), ("Hadamard", 0), ("PauliX", 0),
      ("PauliY", 0), ("PauliZ", 0), ("S", 0), ("T", 0), ("SX", 0), ("Identity", 0)]
G2 = [("CNOT", 0), ("CZ", 0), ("CY", 0), ("CH", 0), ("SWAP", 0), ("ISWAP", 0), ("SISWAP", 0), ("ECR", 0), ("CRX", 1), ("CRY", 1), ("CRZ", 1),
      ("CRot", 3), ("ControlledPhaseShift", 1), ("IsingXX", 1), ("IsingYY", 1), ("IsingZZ", 1), ("IsingXY", 1), ("PSWAP", 1),
      ("SingleExcitation", 1), ("MultiRZ", 1), ("FermionicSWAP", 1), ("SingleExcitationPlus", 1), ("SingleExcitationMinus", 1), ("CPhaseShift10", 1)]
G3 = [("Toffoli", 0), ("CSWAP", 0), ("CCZ", 0), ("MultiRZ", 1)]
LABELS = [[0, 1, 2], ["a", "b", "c"], [2, 0, 1], ["q", 7, "z"]]


def gate(rng, L, k=None):
    k = k or rng.choice([1, 1, 1, 2, 2, 3] if len(L) >= 3 else ([1, 1, 2] if len(L) >= 2 else [1]))
    k = min(k, len(L))
    nm, npar = rng.choice({1: G1, 2: G2, 3: G3}[k])
    return {"t": "g", "n": nm, "p": [ang(rng) for _ in range(npar)], "w": rng.sample(L, k)}


def sym(rng, L, depth=0):
    r = rng.random()
    if r < 0.3:
        return {"t": "adj", "b": base_op(rng, L, depth + 1)}
    if r < 0.6:
        return {"t": "pow", "z": rng.choice([2, 3, -1, -2, 0, 1, 4, 0.5, 1.5, -0.5]), "b": base_op(rng, L, depth + 1)}
    b = base_op(rng, L[:-1] if len(L) > 1 else L, depth + 1, kmax=max(1, len(L) - 1))
    used = wires_of(b)
    free = [w for w in L if w not in used]
    if not free:
        return {"t": "adj", "b": b}
    nc = rng.randint(1, min(2, len(free)))
    return {"t": "ctrl", "b": b, "c": rng.sample(free, nc), "cv": [rng.choice([1, 1, 0]) for _ in range(nc)]}


def wires_of(d):
    if d["t"] in ("adj", "pow"):
        return wires_of(d["b"])
    if d["t"] == "ctrl":
        return d["c"] + wires_of(d["b"])
    if d["t"] == "cond":
        return [d["mw"]] + wires_of(d["b"])
    if d["t"] == "qu":
        return d["w"]
    return d.get("w", [])


def base_op(rng, L, depth, kmax=3):
    r = rng.random()
    if depth < 2 and r < 0.2:
        return sym(rng, L, depth)
    if r < 0.3 and len(L) >= 2:
        return template(rng, L[:kmax] if kmax < len(L) else L)
    return gate(rng, L, k=rng.randint(1, min(kmax, 2, len(L))))


def template(rng, L):
    n = rng.randint(2, len(L)) if len(L) >= 2 else 1
    w = rng.sample(L, n)
    r = rng.random()
    if r < 0.3:
        return {"t": "tpl", "n": "QFT", "w": w}
    if r < 0.45:
        return {"t": "tpl", "n": "BE", "p": [rng.randint(0, 1) for _ in w], "w": w}
    if r < 0.65:
        return {"t": "tpl", "n": "SEL", "p": [[[ang(rng) for _ in range(3)] for _ in w]], "w": w}
    if r < 0.78:
        return {"t": "tpl", "n": "BEL", "p": [[ang(rng) for _ in w]], "w": w}
    if r < 0.9:
        return {"t": "tpl", "n": "AE", "p": [ang(rng) for _ in w], "w": w, "rot": rng.choice(["X", "Y", "Z"])}
    if r < 0.95 and len(w) >= 2:
        return {"t": "tpl", "n": "GROVER", "w": w}
    return {"t": "pr", "word": "".join(rng.choice("XYZ") for _ in w), "p": [ang(rng)], "w": w}


def any_op(rng, L):
    r = rng.random()
    if r < 0.38:
        return gate(rng, L)
    if r < 0.58:
        return template(rng, L)
    if r < 0.9:
        return sym(rng, L)
    if r < 0.95:
        return {"t": "gp", "p": [ang(rng)]}
    g = gate(rng, L, k=1)
    return {"t": "qu", "src": g, "w": g["w"]}


POOL = ["RX", "RY", "RZ", "PhaseShift", "Rot", "U3", "Hadamard", "S", "T", "SX", "PauliX", "PauliY", "PauliZ", "CNOT", "CZ", "CY", "SWAP",
        "CRX", "CRZ", "ControlledPhaseShift", "Toffoli", "IsingXX", "MultiRZ", "GlobalPhase", "Adjoint(S)", "Adjoint(T)", "QubitUnitary",
        "C(RX)", "Adjoint(RX)", "Pow(RX)", "H", "X", "Identity"]
FIXED_SETS = [["RX", "RZ", "CNOT", "GlobalPhase"], ["RX", "RY", "CZ", "GlobalPhase"], ["RY", "RZ", "CNOT"], ["Rot", "CNOT", "GlobalPhase"],
              ["H", "T", "S", "CNOT", "Adjoint(T)", "Adjoint(S)", "GlobalPhase"], ["U3", "CZ", "GlobalPhase"], ["RX", "RY", "RZ", "IsingXX", "GlobalPhase"]]
NAMED = ["ROTATIONS_PLUS_CNOT", "ROTATIONS_PLUS_CNOT", "CLIFFORD_T", "CLIFFORD_T_PLUS_RZ", "PYZX", "MBQC_GATES", "ALL_QUBIT_OPS"]


def gate_set(rng, graph):
    r = rng.random()
    if r < 0.4:
        return {"kind": "named", "name": rng.choice(NAMED)}
    if r < 0.6:
        return {"kind": "names", "names": rng.choice(FIXED_SETS)}
    if r < 0.7 and graph:
        names = rng.choice(FIXED_SETS[:4])
        return {"kind": "weights", "weights": {n: rng.choice([1.0, 1.0, 2.0, 5.0, 0.5]) for n in names}}
    k = rng.randint(3, 9)
    names = set(rng.sample(POOL, k))
    if rng.random() < 0.7:
        names |= set(rng.sample(["RX", "RY", "RZ"], 2)) | {rng.choice(["CNOT", "CZ"])}
    if rng.random() < 0.7:
        names.add("GlobalPhase")
    return {"kind": "names", "names": sorted(names)}


def gen_case(rng):
    L = list(rng.choice(LABELS))[:rng.choice([1, 2, 2, 3, 3, 3])]
    graph = rng.random() < 0.55
    c = {"graph": graph, "gate_set": gate_set(rng, graph), "nww": 0, "strict": True, "mode": "transform"}
    r = rng.random()
    if r < 0.12 and graph:
        # multi-controlled X with a work-wire budget
        n = rng.choice([4, 5])
        w = list(range(n))
        c["ops"] = [{"t": "mcx", "w": w, "cv": [rng.choice([1, 1, 0]) for _ in range(n - 1)]}] + ([gate(rng, w[:3])] if rng.random() < 0.5 else [])
        c["nww"] = rng.choice([0, 1, 2, None])
        c["gate_set"] = rng.choice([{"kind": "named", "name": "ROTATIONS_PLUS_CNOT"}, {"kind": "names", "names": ["Toffoli", "CNOT", "RX", "RY", "RZ", "GlobalPhase", "MidMeasureMP", "Hadamard", "PauliX"]},
                                    {"kind": "names", "names": ["Toffoli", "CNOT", "PauliX", "Hadamard", "GlobalPhase"]}])
        c["minimize"] = rng.random() < 0.2
    else:
        c["ops"] = [any_op(rng, L) for _ in range(rng.choice([1, 1, 2, 2, 3, 4]))]
        if len(L) >= 2 and rng.random() < 0.08:
            b = gate(rng, L[1:], k=rng.randint(1, min(2, len(L) - 1)))
            c["ops"].append({"t": "cond", "mw": L[0], "b": b})
            if c["gate_set"]["kind"] == "names":
                c["gate_set"]["names"] = sorted(set(c["gate_set"]["names"]) | {"MidMeasureMP"})
        if graph:
            c["nww"] = rng.choice([0, 0, 0, 1, 2, None])
    if rng.random() < 0.15:
        c["maxexp"] = rng.choice([0, 1, 1, 2, 3])
    if rng.random() < 0.12:
        c["stop"] = rng.choice(["w1", "noparam2"])
    if rng.random() < 0.2:
        c["strict"] = False
    if graph and rng.random() < 0.15:
        c["decomps"] = rng.choice(["fixed_cnot", "alt_isingxx", "fixed_h_alt_cnot"])
    elif rng.random() < 0.2:
        c["mode"] = "gen"
        c["strict"] = rng.random() < 0.6
        c["custom"] = rng.random() < 0.3
    c["cols"] = [rng.randrange(64) for _ in range(2)]      # basis columns (mod 2^n) compared with the exact reference
    return c


CORPUS = [
    # DESIGN section 5 item 15: Pow without a registered rule
    {"ops": [{"t": "pow", "z": -1, "b": {"t": "g", "n": "PSWAP", "p": [2 * math.atan2(4, 3)], "w": [0, 1]}}], "graph": False,
     "gate_set": {"kind": "named", "name": "ROTATIONS_PLUS_CNOT"}, "nww": 0, "strict": True, "mode": "transform", "cols": [0, 3]},
    {"ops": [{"t": "pow", "z": -1, "b": {"t": "g", "n": "PSWAP", "p": [2 * math.atan2(4, 3)], "w": [0, 1]}}], "graph": True,
     "gate_set": {"kind": "named", "name": "ROTATIONS_PLUS_CNOT"}, "nww": 0, "strict": False, "mode": "transform", "cols": [0, 3]},
    {"ops": [{"t": "pow", "z": -1, "b": {"t": "g", "n": "PSWAP", "p": [2 * math.atan2(4, 3)], "w": [0, 1]}}], "graph": True,
     "gate_set": {"kind": "named", "name": "ROTATIONS_PLUS_CNOT"}, "nww": 0, "strict": True, "mode": "transform", "cols": [0, 3]},
    {"ops": [{"t": "pow", "z": 2, "b": {"t": "g", "n": "U2", "p": [math.pi / 2, math.pi], "w": [0]}}], "graph": True,
     "gate_set": {"kind": "named", "name": "ROTATIONS_PLUS_CNOT"}, "nww": 0, "strict": True, "mode": "transform", "cols": [0, 1]},
    # found by this generator: Pow(Identity, 0) with the graph enabled crashes while the graph is built
    {"ops": [{"t": "pow", "z": 0, "b": {"t": "g", "n": "Identity", "p": [], "w": [0]}}, {"t": "g", "n": "Hadamard", "p": [], "w": [0]}], "graph": True,
     "gate_set": {"kind": "named", "name": "ROTATIONS_PLUS_CNOT"}, "nww": 0, "strict": True, "mode": "transform", "cols": [0, 1]},
    # symbolic operators over LEGACY (resource-rep based) bases: fractional powers and controls of adjoints with zero-valued controls
    {"ops": [{"t": "pow", "z": 0.5, "b": {"t": "g", "n": "FermionicSWAP", "p": [2 * math.atan2(4, 3)], "w": [0, 1]}}], "graph": True,
     "gate_set": {"kind": "named", "name": "ROTATIONS_PLUS_CNOT"}, "nww": 0, "strict": False, "mode": "transform", "cols": [0, 1, 2, 3]},
    {"ops": [{"t": "pow", "z": 1.5, "b": {"t": "g", "n": "SingleExcitationPlus", "p": [2 * math.atan2(3, 4)], "w": [1, 0]}}], "graph": True,
     "gate_set": {"kind": "named", "name": "ROTATIONS_PLUS_CNOT"}, "nww": 0, "strict": False, "mode": "transform", "cols": [0, 1, 2, 3]},
    {"ops": [{"t": "ctrl", "b": {"t": "adj", "b": {"t": "g", "n": "PSWAP", "p": [2 * math.atan2(3, 4)], "w": [0, 1]}}, "c": [2], "cv": [0]}], "graph": True,
     "gate_set": {"kind": "named", "name": "ROTATIONS_PLUS_CNOT"}, "nww": 0, "strict": False, "mode": "transform", "cols": [0, 2, 4, 6]},
    {"ops": [{"t": "ctrl", "b": {"t": "adj", "b": {"t": "g", "n": "FermionicSWAP", "p": [2 * math.atan2(5, 12)], "w": [2, 1]}}, "c": [0], "cv": [0]}], "graph": True,
     "gate_set": {"kind": "named", "name": "ROTATIONS_PLUS_CNOT"}, "nww": 0, "strict": False, "mode": "transform", "cols": [0, 1, 2, 3]},
    # docstring examples
    {"ops": [{"t": "g", "n": "IsingXX", "p": [2 * math.atan2(3, 4)], "w": [0, 1]}], "graph": False, "gate_set": {"kind": "names", "names": ["CNOT", "RX"]},
     "nww": 0, "strict": True, "mode": "transform", "cols": [0, 1, 2, 3]},
    {"ops": [{"t": "g", "n": "CRX", "p": [2 * math.atan2(5, 12)], "w": [0, 1]}], "graph": True, "gate_set": {"kind": "names", "names": ["RX", "RY", "RZ", "CZ", "CNOT"]},
     "nww": 0, "strict": True, "mode": "transform", "cols": [0, 1, 2, 3]},
    {"ops": [{"t": "g", "n": "Hadamard", "p": [], "w": [0]}, {"t": "g", "n": "Toffoli", "p": [], "w": [0, 1, 2]}], "graph": False,
     "gate_set": {"kind": "names", "names": ["H", "T", "CNOT", "GlobalPhase"]}, "stop": "w1", "nww": 0, "strict": True, "mode": "transform", "cols": [0, 5, 7]},
    {"ops": [{"t": "tpl", "n": "QFT", "w": [0, 1, 2]}, {"t": "adj", "b": {"t": "tpl", "n": "QFT", "w": [0, 1, 2]}}], "graph": True,
     "gate_set": {"kind": "named", "name": "ROTATIONS_PLUS_CNOT"}, "nww": 0, "strict": True, "mode": "transform", "cols": [0, 3, 6]},
    {"ops": [{"t": "tpl", "n": "QFT", "w": [0, 1, 2]}], "graph": False, "gate_set": {"kind": "named", "name": "ROTATIONS_PLUS_CNOT"}, "maxexp": 1,
     "nww": 0, "strict": True, "mode": "transform", "cols": [0, 3]},
    # work-wire budget: multi-controlled X
    {"ops": [{"t": "mcx", "w": [0, 1, 2, 3, 4], "cv": [1, 1, 1, 1]}], "graph": True, "gate_set": {"kind": "named", "name": "ROTATIONS_PLUS_CNOT"},
     "nww": 1, "strict": True, "mode": "transform", "cols": []},
    {"ops": [{"t": "mcx", "w": [0, 1, 2, 3, 4], "cv": [1, 0, 1, 1]}], "graph": True, "gate_set": {"kind": "names", "names": ["Toffoli", "CNOT", "PauliX", "Hadamard", "GlobalPhase"]},
     "nww": 2, "strict": True, "mode": "transform", "cols": []},
    {"ops": [{"t": "ctrl", "b": {"t": "g", "n": "RX", "p": [2 * math.atan2(3, 4)], "w": [2]}, "c": [0, 1], "cv": [1, 1]}], "graph": True,
     "gate_set": {"kind": "named", "name": "ROTATIONS_PLUS_CNOT"}, "nww": 1, "strict": True, "mode": "transform", "cols": [0, 6, 7]},
    # conditional operator
    {"ops": [{"t": "cond", "mw": 0, "b": {"t": "g", "n": "CRX", "p": [2 * math.atan2(3, 4)], "w": [1, 2]}}], "graph": True,
     "gate_set": {"kind": "named", "name": "ROTATIONS_PLUS_CNOT"}, "nww": 1, "strict": True, "mode": "transform", "cols": []},
    {"ops": [{"t": "cond", "mw": 0, "b": {"t": "g", "n": "CRX", "p": [2 * math.atan2(3, 4)], "w": [1, 2]}}], "graph": False,
     "gate_set": {"kind": "named", "name": "ROTATIONS_PLUS_CNOT"}, "nww": 0, "strict": True, "mode": "transform", "cols": []},
    {"ops": [{"t": "cond", "mw": 0, "b": {"t": "g", "n": "RX", "p": [2 * math.atan2(3, 4)], "w": [1]}}, {"t": "g", "n": "CRX", "p": [2 * math.atan2(3, 4)], "w": [1, 2]}],
     "graph": True, "gate_set": {"kind": "named", "name": "ROTATIONS_PLUS_CNOT"}, "nww": 1, "strict": True, "mode": "transform", "cols": []},
    # fixed / alternative decomposition options (graph only)
    {"ops": [{"t": "g", "n": "CNOT", "p": [], "w": [0, 1]}, {"t": "g", "n": "IsingXX", "p": [2 * math.atan2(3, 4)], "w": [1, 0]}], "graph": True, "decomps": "fixed_cnot",
     "gate_set": {"kind": "names", "names": ["RX", "RZ", "CZ", "GlobalPhase"]}, "nww": 0, "strict": True, "mode": "transform", "cols": [1, 2]},
    {"ops": [{"t": "g", "n": "IsingXX", "p": [2 * math.atan2(3, 4)], "w": [1, 0]}, {"t": "g", "n": "Hadamard", "p": [], "w": [1]}], "graph": True, "decomps": "alt_isingxx",
     "gate_set": {"kind": "names", "names": ["RX", "RZ", "CNOT", "GlobalPhase"]}, "nww": 0, "strict": True, "mode": "transform", "cols": [1, 2]},
    # generator driven directly: strict error / custom decomposer
    {"ops": [{"t": "pow", "z": -1, "b": {"t": "g", "n": "PSWAP", "p": [2 * math.atan2(4, 3)], "w": [0, 1]}}], "graph": False,
     "gate_set": {"kind": "named", "name": "ROTATIONS_PLUS_CNOT"}, "nww": 0, "strict": True, "mode": "gen", "cols": [0]},
    {"ops": [{"t": "g", "n": "CRX", "p": [2 * math.atan2(3, 4)], "w": [0, 1]}, {"t": "gp", "p": [2 * math.atan2(3, 4)]}], "graph": False,
     "gate_set": {"kind": "names", "names": ["RX", "RY", "RZ", "CNOT"]}, "nww": 0, "strict": False, "mode": "gen", "custom": True, "cols": [0, 3]},
    {"ops": [{"t": "g", "n": "Hadamard", "p": [], "w": [0]}, {"t": "gp", "p": [2 * math.atan2(3, 4)]}], "graph": True,
     "gate_set": {"kind": "names", "names": ["RX", "RZ", "CNOT"]}, "nww": 0, "strict": True, "mode": "transform", "cols": [0, 1]},
]


def run(ctx):
    ctx.coq_props()
    n = 48 if ctx.tier == "quick" else 400
    rng = ctx.rng
    cases = [json.loads(json.dumps(c)) for c in CORPUS]
    if getattr(ctx, "replay", None) and isinstance(ctx.replay.get("replay"), dict) and "case" in ctx.replay["replay"]:
        cases.insert(0, ctx.replay["replay"]["case"])
    while len(cases) < n:
        cases.append(gen_case(rng))
    out = ctx.run_impl("c12_impl.py", {"cases": cases}, timeout=3000)
    runs = out["runs"]
    hist = {"ok": 0, "error": 0, "graph_on": 0, "with_budget": 0, "maxexp": 0, "gen_mode": 0, "sem_numeric": 0, "sem_mcm": 0, "sem_exact": 0,
            "sem_not_exact": 0, "model_cases": 0, "estimate_compared": 0, "estimate_inexact_or_fallback": 0, "leftover_allowed": 0,
            "early_return": 0, "custom_decomps": 0, "estimate_premise_failed": 0, "nontrivial": 0, "errors_by_type": {}, "max_depth": 0, "nodes": 0, "non_decomposition_errors": 0}
    branches = {}
    key_of = lambda c: json.dumps(c, sort_keys=True)
    terms, term_idx, exact_jobs = [], [], []
    for i, (c, r) in enumerate(zip(cases, runs)):
        k = key_of(c)
        if r["status"] == "driver-error":
            ctx.violation("driver:" + k[:300], {"case": c, "detail": r["detail"], "tb": r.get("tb")}, found_input=False,
                          what="implementation driver failed on a generated case")
            continue
        hist[r["status"]] += 1
        hist["graph_on"] += c["graph"]
        hist["with_budget"] += c.get("nww", 0) != 0
        hist["maxexp"] += c.get("maxexp") is not None
        hist["gen_mode"] += c.get("mode") == "gen"
        hist["custom_decomps"] += bool(c.get("decomps"))
        cov = r["cov"]
        hist["early_return"] += bool(cov.get("early"))
        hist["max_depth"] = max(hist["max_depth"], cov.get("depth", 0))
        hist["nodes"] += cov.get("nodes", 0)
        hist["nontrivial"] += cov.get("depth", 0) >= 1
        for b, v in (cov.get("branch") or {}).items():
            branches[b] = branches.get(b, 0) + v
        if r["status"] == "error":
            hist["errors_by_type"][r["etype"]] = hist["errors_by_type"].get(r["etype"], 0) + 1
            if r["etype"] not in ("RecursionError", "DecompositionError", "DecompositionUndefinedError"):
                hist["non_decomposition_errors"] += 1
                msg = re.sub(r"[0-9.]+", "#", r["detail"])[:80]
                ctx.violation("crash:" + msg, {"case": c, "input": r["in"], "exception": r["detail"]},
                              what="decompose on a valid circuit failed with an exception that is not a decomposition error (RecursionError / DecompositionError / DecompositionUndefinedError)")
        # ---- (a) target gate set
        for lo in r.get("leftovers", []):
            if lo["class"] in ("warned-globalphase", "warned-nodecomp", "graph-warned-nonstrict"):
                hist["leftover_allowed"] += 1
            elif lo["class"] == "graph-warned-strict":
                ctx.violation("finding:graph_strict_leftover", {"case": c, "leftover": lo, "warnings": r["warnings"], "output": r.get("out")},
                              what="graph enabled, strict=True: an operator outside the gate set without any decomposition is returned with only a DecompositionWarning (docstring of decompose: 'errors out with a DecompositionError')")
            else:
                ctx.violation("target:" + k[:400], {"case": c, "leftover": lo, "warnings": r["warnings"], "output": r.get("out")},
                              what="decompose returned an operator that is neither in the gate set nor accepted by the stopping condition, without error and without the documented warning")
        if r.get("trace_mismatch"):
            ctx.violation("trace:" + k[:400], {"case": c, "detail": r["trace_mismatch"]}, what="output of decompose differs from what the generator calls emitted")
        # ---- (b) semantics, numeric
        sem = r.get("sem")
        if isinstance(sem, dict):
            hist["sem_mcm" if sem.get("mcm") else "sem_numeric"] += 1
            bad = sem["err"] > 1e-8 or (sem.get("leak") or 0) > 1e-8 or (sem.get("mcm") and abs(sem["phi_norm"] - 1) > 1e-8)
            if bad:
                ctx.violation("sem:" + k[:400], {"case": c, "input": r["in"], "output": r.get("out"), "max_abs_err": sem}, what="decomposed circuit does not implement the input circuit (unitary incl. global phase, work wires in |0>)")
            if "exact" in r and "circuits" in r["exact"]:
                for col, circ in zip(r["exact"]["cols"], r["exact"]["circuits"]):
                    exact_jobs.append((i, col, r["exact"]["n"], circ))
            elif "exact" in r:
                hist["sem_not_exact"] += 1
        elif isinstance(sem, str) and sem.startswith("failed"):
            ctx.notes.append(f"semantic comparison not possible for case {i}: {sem[:120]}")
        # ---- (c) model
        if "model" in r:
            terms.append(r["model"]); term_idx.append(i)
        elif "model_error" in r:
            ctx.violation("oracle:" + k[:400], {"case": c, "detail": r["model_error"]}, found_input=False, what="oracle tables for the model could not be computed")
        # ---- (d) resource estimate
        for e in r.get("est", []):
            if e["status"] == "compared":
                hist["estimate_compared"] += 1
                if e["estimate"] != e["emitted"]:
                    ctx.violation("estimate:" + k[:300] + "|" + e["op"], {"case": c, "operator": e["op"], "resource_estimate": e["estimate"], "emitted": e["emitted"]},
                                  what="DecompGraphSolution.resource_estimate differs from the gates the transform emitted for this operator (all rules on the subtree declare exact resources)")
            elif e["status"] == "declared-resources-differ":
                hist["estimate_premise_failed"] += 1     # a rule flagged exact whose declared resources differ on this instance: premise of the clause fails (C11's subject)
            else:
                hist["estimate_inexact_or_fallback"] += 1
    # exact reference for (b)
    if exact_jobs:
        states = exactsim.exact_states(ctx, "ref", [(n_, circ) for _, _, n_, circ in exact_jobs])
        for (i, col, n_, _), st in zip(exact_jobs, states):
            re_, im_ = runs[i]["Meff"]
            got = np.array(re_)[:, col] + 1j * np.array(im_)[:, col]
            err = float(np.abs(got - st).max())
            hist["sem_exact"] += 1
            if err > 1e-8:
                ctx.violation("semexact:" + key_of(cases[i])[:400], {"case": cases[i], "column": col, "output_column": [str(x) for x in got], "exact_reference": [str(x) for x in st],
                              "max_abs_err": err}, what="column of the decomposed circuit's unitary differs from the exact simulation of the input circuit")
    # (c) run the model inside Coq
    if terms:
        hist["model_cases"] = len(terms)
        bad = ctx.coq_eval_cases("cases", "From PLV Require Import Disc.DecompModel.", terms, "check_case", chunk=12)
        for j in bad:
            i = term_idx[j]
            ctx.violation("corr:" + key_of(cases[i])[:400], {"case": cases[i], "implementation": {"status": runs[i]["status"], "output": runs[i].get("out"), "warnings": runs[i]["warnings"]},
                          "model": f"coq/Gen/C12/cases_{j // 12}.v entry {j % 12}"}, what="the traced run of decompose differs from the proved model (operators emitted / work-wire budgets / warnings / error)")
    ctx.coverage.update({"evaluations": len(cases), "distinct_nontrivial": hist["nontrivial"],
                         "rule": "corpus (DESIGN item 15, docstring examples, work-wire and conditional cases) then seeded generator: 1-4 operators (named gates, templates, Adjoint/Pow/Controlled nests, QubitUnitary, GlobalPhase, Conditional, MultiControlledX) x gate sets (predefined, fixed, weighted, random subsets) x graph on/off x num_work_wires in {0,1,2,None} x max_expansion x stopping_condition x strict; 20% drive the generator directly with strict/custom_decomposer; non-trivial = at least one operator was decomposed",
                         "input_distribution": hist, "model_branches_consulted": branches, "impl_seconds": out.get("t")})
    for c, r in list(zip(cases, runs))[3:7]:
        ctx.sample({"case": c, "status": r["status"], "output": (r.get("out") or [])[:8], "warnings": r.get("warnings", [])[:2]})
