"""C04 Operator equality is an equivalence compatible with hashing and matrices."""
import copy as _copy
from fractions import Fraction as F

from vlib import *

PID = "C04"
META = {
    "level": "proof",
    "technique": "Coq proofs by structural induction over an operator/measurement AST model of qp.equal + vm_compute correspondence against the real qp.equal in both argument orders, plus direct oracles (reflexivity, symmetry, hash, matrices) on the implementation",
    "design_ref": "DESIGN.md §3 C04",
    "text": "Props/C04.v proves, for the Gallina transcription of ops/functions/equal.py (plain operators, Controlled, Pow, Adjoint, SProd, Exp, Sum/Prod/ChangeOpBasis via their _sort methods and the pauli_rep shortcut, measurement processes) and for ALL ASTs: reflexivity (tolerances >= 0), the exact asymmetry window of numpy.allclose, symmetry whenever every pair of numeric fields is equal or farther apart than atol + rtol*max (hence also under the 2x bound), equality of identical data, and that equality at rtol=atol=0 forces the same structure up to the documented normalisations. The model is evaluated inside Coq on ASTs EXTRACTED FROM THE REAL OBJECTS of generated pairs (reconstructions, copies, single-field mutations incl. parameters placed inside, in the asymmetric window of, and outside the tolerance) and compared with the real qp.equal(a,b) and qp.equal(b,a); reflexivity, symmetry outside the window, identical data => equal and equal hash(), and equal => equal matrices (<= 3 wires, small tolerances) are additionally checked directly on the implementation.",
    "note": "Trusted: Coq kernel; the hand transcription EqualModel.v is tied to /repo only by the correspondence run. Oracles recorded from the real objects, not modelled: class identity (name code; subclass-compatible pairs of different classes are not generated), hyperparameter equality (interned canonical text, includes array shapes and real/pure-imaginary kind of numbers; general complex numbers are not extractable and skipped), pauli_rep equality classes, the Sum/Prod sort keys (str(op), str(wire), set.pop()) and operand wires. Not modelled: interface/trainability checks (all data is numpy/python), tracers/abstract operators, MeasurementValue / mid-circuit measurements, Conditional, ParametrizedEvolution, SubroutineOp, QSVT/Select/PrepSelPrep/HilbertSchmidt branches, QuantumScript, PauliWord/PauliSentence arguments, the arithmetic_depth pre-checks (implied by base equality). hash() is not modelled (checked directly: identical data => equal hash). same_data_equal is stated for Leibniz-identical ASTs (identical extracted data), i.e. it is reflexivity applied to reconstructions/copies; that reconstructions and copies really expose identical data is checked per run (same-ast oracle). 'equal => same linear map up to tolerance' is proved only in the exact case as 'same structure'; for non-zero tolerance it is a numerical oracle with bound 1e-3 at rtol<=1e-5 (Prod nested under Pow/Exp/Controlled excluded, matrices of Prod/Sum are composed by the driver itself so that the known Prod.matrix ordering defect C03 does not leak in).",
    "assumptions": ["all numeric data are Python/numpy numbers that are real or purely imaginary",
                    "float evaluation of |a-b| <= atol + rtol*|b| agrees with exact rational evaluation because generated values keep a relative margin > 1e-9 from the boundary (or sit on it with dyadic data)",
                    "control wires of one operator are distinct (dict(zip(..)) has no collisions)"],
    "trusted": ["hand-written model coq/Disc/EqualModel.v tied to /repo by correspondence only",
                "harness extraction of the AST from real objects (harness/impl/c04_impl.py)"],
}

TOLS = [(1e-5, 1e-9), (1e-5, 1e-9), (0.0, 0.0), (0.25, 0.125), (0.0, 1e-3)]
LABELS = [0, 1, 2, 3, "a", "b", "c2", 7, 10, "10"]

# name, number of scalar params, number of wires (or (lo,hi)), kwargs generator
LEAVES = [
    ("RX", 1, 1), ("RY", 1, 1), ("RZ", 1, 1), ("PhaseShift", 1, 1), ("Rot", 3, 1), ("U2", 2, 1), ("U3", 3, 1),
    ("X", 0, 1), ("Y", 0, 1), ("Z", 0, 1), ("Hadamard", 0, 1), ("S", 0, 1), ("T", 0, 1), ("SX", 0, 1),
    ("CNOT", 0, 2), ("CZ", 0, 2), ("CY", 0, 2), ("SWAP", 0, 2), ("ISWAP", 0, 2), ("CSWAP", 0, 3), ("Toffoli", 0, 3),
    ("CRX", 1, 2), ("CRZ", 1, 2), ("ControlledPhaseShift", 1, 2), ("CRot", 3, 2), ("IsingXX", 1, 2), ("IsingZZ", 1, 2),
    ("PSWAP", 1, 2), ("Identity", 0, (1, 2)), ("MultiRZ", 1, (1, 3)), ("GlobalPhase", 1, (0, 1)),
    ("SingleExcitation", 1, 2), ("DoubleExcitation", 1, 4), ("QFT", 0, (1, 3)), ("Barrier", 0, (1, 3)),
    ("DepolarizingChannel", 1, 1), ("AmplitudeDamping", 1, 1), ("BitFlip", 1, 1),
    ("PauliRot", 1, (1, 3)), ("MultiControlledX", 0, (2, 4)), ("Hermitian", -1, 1), ("QubitUnitary", -1, 1),
    ("BasisState", -2, (1, 3)), ("AngleEmbedding", -3, (1, 3)), ("BasicEntanglerLayers", -4, (2, 3)),
]
CHANNELS = {"DepolarizingChannel", "AmplitudeDamping", "BitFlip"}


def rval(rng, lo=-3.0, hi=3.0):
    r = rng.random()
    if r < 0.45:
        k = rng.choice([k for k in range(-160, 161) if k != 0])
        return k / 64.0
    if r < 0.5:
        return 0.0
    return rng.uniform(lo, hi)


def pick_wires(rng, pool, n):
    return rng.sample(pool, n)


def gen_leaf(rng, pool, allow=None):
    for _ in range(50):
        name, npar, nw = rng.choice(LEAVES)
        if allow and name not in allow:
            continue
        if isinstance(nw, tuple):
            nw = rng.randint(nw[0], min(nw[1], len(pool)))
            if nw > len(pool):
                continue
        if nw > len(pool):
            continue
        w = pick_wires(rng, pool, nw)
        s = {"c": name, "w": w}
        if name in CHANNELS:
            s["p"] = [rng.choice([0.125, 0.25, 0.5, rng.uniform(0.05, 0.7)])]
        elif npar >= 0:
            s["p"] = [rval(rng) for _ in range(npar)]
        elif name == "Hermitian":
            a, b, d = rval(rng), rval(rng), rval(rng)
            s["p"] = [{"arr": [[a, b], [b, d]]}]
        elif name == "QubitUnitary":
            s["p"] = [{"arr": rng.choice([[[1.0, 0.0], [0.0, 1.0]], [[0.0, 1.0], [1.0, 0.0]], [[0.6, 0.8], [-0.8, 0.6]],
                                          [[1.0, 0.0], [0.0, -1.0]]])}]
        elif name == "BasisState":
            s["p"] = [{"arr": [rng.randint(0, 1) for _ in w], "dtype": "int64"}]
        elif name == "AngleEmbedding":
            s["p"] = [{"arr": [rval(rng) for _ in w]}]
            s["kw"] = {"rotation": rng.choice(["X", "Y", "Z"])}
        elif name == "BasicEntanglerLayers":
            s["p"] = [{"arr": [[rval(rng) for _ in w] for _ in range(rng.randint(1, 2))]}]
            s["kw"] = {"rotation": {"cls": rng.choice(["RX", "RY", "RZ"])}}
        if name == "PauliRot":
            s["kw"] = {"pauli_word": "".join(rng.choice("XYZI") for _ in w)}
            s["p"] = [s["p"][0], ]
            s = {"c": "PauliRot", "p": [s["p"][0], s["kw"]["pauli_word"]], "w": w}
        if name == "MultiControlledX":
            s["kw"] = {"control_values": [rng.randint(0, 1) for _ in w[:-1]]}
        if name == "Barrier":
            s["kw"] = {"only_visual": rng.random() < 0.5}
        if name == "GlobalPhase" and not w:
            s = {"c": "GlobalPhase", "p": s["p"], "nowires": 1}
        return s
    return {"c": "X", "w": [pool[0]]}


def spec_wires(s):
    out = []
    for k in ("w", "cw", "ww", "w0", "w1"):
        out += s.get(k, [])
    for k in ("b", "obs"):
        if k in s:
            out += spec_wires(s[k])
    for o in s.get("o", []):
        out += spec_wires(o)
    return out


def gen_op(rng, pool, depth):
    r = rng.random()
    if depth <= 0 or r < 0.42:
        return gen_leaf(rng, pool)
    if r < 0.50:
        return {"c": "adjoint", "b": gen_op(rng, pool, depth - 1)}
    if r < 0.58:
        return {"c": "pow", "z": rng.choice([2, 3, -1, 0.5, 2.5, {"int": 2}]), "b": gen_op(rng, pool, depth - 1)}
    if r < 0.68:
        b = gen_op(rng, pool, depth - 1)
        free = [w for w in pool if w not in spec_wires(b)]
        if not free:
            return b
        cw = rng.sample(free, rng.randint(1, min(2, len(free))))
        s = {"c": "ctrl", "b": b, "cw": cw, "cv": [rng.randint(0, 1) for _ in cw]}
        rest = [w for w in free if w not in cw]
        if rest and rng.random() < 0.3:
            s["ww"] = [rng.choice(rest)]
            s["wt"] = rng.choice(["borrowed", "zeroed"])
        return s
    if r < 0.76:
        sc = rval(rng)
        if rng.random() < 0.25:
            sc = {"im": sc if sc else 0.5}
        return {"c": "sprod", "s": sc, "b": gen_op(rng, pool, depth - 1)}
    if r < 0.83:
        k = rval(rng)
        if rng.random() < 0.6:
            k = {"im": k if k else 0.5}
        return {"c": "exp", "k": k, "b": gen_op(rng, pool, depth - 1)}
    if r < 0.97:
        n = rng.choice([2, 2, 3, 3, 4])
        return {"c": rng.choice(["sum", "prod"]), "o": [gen_op(rng, pool, depth - 1) for _ in range(n)]}
    return {"c": "cob", "o": [gen_op(rng, pool, 0), gen_op(rng, pool, depth - 1)]}


def gen_obs(rng, pool):
    r = rng.random()
    if r < 0.5:
        return gen_leaf(rng, pool, allow={"X", "Y", "Z", "Hadamard", "Hermitian", "Identity"})
    if r < 0.8:
        ws = rng.sample(pool, min(len(pool), rng.randint(2, 3)))
        return {"c": "prod", "o": [{"c": rng.choice(["X", "Y", "Z"]), "w": [w]} for w in ws]}
    return {"c": "sum", "o": [{"c": "sprod", "s": rval(rng) or 1.0, "b": gen_leaf(rng, pool, allow={"X", "Y", "Z"})}
                              for _ in range(rng.randint(2, 3))]}


def gen_mp(rng, pool):
    r = rng.random()
    if r < 0.4:
        k = rng.choice(["expval", "var", "sample_obs", "counts_obs", "probs_obs"])
        s = {"c": k, "mp": 1, "obs": gen_obs(rng, pool)}
        if k == "counts_obs":
            s["all_outcomes"] = rng.random() < 0.5
        return s
    ws = rng.sample(pool, rng.randint(1, min(3, len(pool))))
    if r < 0.6:
        k = rng.choice(["probs", "sample", "counts", "density_matrix", "purity"])
        s = {"c": k, "mp": 1, "w": ws}
        if k == "counts":
            s["all_outcomes"] = rng.random() < 0.5
        return s
    if r < 0.68:
        return {"c": "vn_entropy", "mp": 1, "w": ws, "log_base": rng.choice([None, 2, 10])}
    if r < 0.76 and len(pool) >= 2:
        ws = rng.sample(pool, rng.randint(2, min(3, len(pool))))
        k = rng.randint(1, len(ws) - 1)
        return {"c": "mutual_info", "mp": 1, "w0": ws[:k], "w1": ws[k:], "log_base": rng.choice([None, 2])}
    if r < 0.82:
        return {"c": "classical_shadow", "mp": 1, "w": ws, "seed": rng.choice([None, 1, 2])}
    if r < 0.85:
        return {"c": "state", "mp": 1}
    ws = ws[:2]
    return {"c": rng.choice(["expval_eig", "var_eig", "sample_eig"]), "mp": 1, "w": ws,
            "eig": [rval(rng) for _ in range(2 ** len(ws))]}


# ------------------------------------------------------------------ mutations
def exact_close(a, b, rt, at):
    return abs(F(a) - F(b)) <= F(at) + F(rt) * abs(F(b))


def margin_ok(a, b, rt, at):
    for x, y in ((a, b), (b, a)):
        d, r = abs(F(x) - F(y)), F(at) + F(rt) * abs(F(y))
        if d != r and abs(d - r) <= F(1, 10 ** 9) * max(d, r):
            return False
    return True


def mut_value(v, rt, at, rng):
    """returns (new value, mode)"""
    mode = rng.choice(["tiny", "tiny", "window", "window", "far", "far", "far"])
    t = at + rt * abs(v)
    nv = None
    if mode == "tiny":
        nv = v + rng.choice([-1, 1]) * 0.3 * t
    elif mode == "window" and rt > 0 and v != 0:
        d = t * (1 + 0.5 * rt / (1 - rt))
        nv = v + (d if v > 0 else -d)
    if nv is None or nv == v or not margin_ok(v, nv, rt, at):
        mode = "far"
        nv = v + rng.choice([-1, 1]) * (4 * (at + rt * (abs(v) + 1)) + rng.choice([0.015625, 0.5, 1.0]))
    return nv, mode


def nodes(s, path=()):
    yield path, s
    for k in ("b", "obs"):
        if k in s:
            yield from nodes(s[k], path + (k,))
    for i, o in enumerate(s.get("o", [])):
        yield from nodes(o, path + ("o", i))


def get_at(s, path):
    for p in path:
        s = s[p]
    return s


def num_slots(n):
    """addresses of mutable numbers inside node n"""
    out = []
    for i, p in enumerate(n.get("p", [])):
        if isinstance(p, (int, float)) and not isinstance(p, bool):
            out.append(("p", i))
        elif isinstance(p, dict) and "arr" in p and p.get("dtype") is None:
            flat = p["arr"]
            if flat and isinstance(flat[0], list):
                for r_ in range(len(flat)):
                    for c_ in range(len(flat[r_])):
                        out.append(("p", i, "arr", r_, c_))
            else:
                for r_ in range(len(flat)):
                    out.append(("p", i, "arr", r_))
    for k in ("s", "k"):
        if k in n:
            out.append((k, "im") if isinstance(n[k], dict) else (k,))
    for i in range(len(n.get("eig", []))):
        out.append(("eig", i))
    return out


def set_at(n, addr, v):
    for p in addr[:-1]:
        n = n[p]
    n[addr[-1]] = v


def mutate(spec, rt, at, rng, pool):
    """single-field mutation of a copy of spec; returns (new spec, tag)"""
    s = _copy.deepcopy(spec)
    ns = list(nodes(s))
    want = rng.choice(["param", "param", "param", "wire", "wire", "cv", "cperm", "cperm_vals", "cwire", "z", "order", "drop",
                       "class", "hyper", "split", None, None])
    for attempt in range(60):
        path, n = rng.choice(ns)
        kinds = []
        if num_slots(n):
            kinds += ["param"] * 4
        if n.get("w"):
            kinds += ["wire", "wire"]
        if n["c"] == "ctrl":
            kinds += ["cv", "cperm", "cperm_vals", "cwire"]
        if n["c"] == "pow":
            kinds += ["z"]
        if n["c"] in ("sum", "prod"):
            kinds += ["order", "order", "drop"]
        if n["c"] in ("RX", "RY", "RZ", "X", "Y", "Z", "expval", "var", "probs", "sample", "adjoint", "sum", "prod"):
            kinds += ["class"]
        if n.get("kw") or "log_base" in n or "all_outcomes" in n or "seed" in n:
            kinds += ["hyper", "hyper"]
        if n["c"] == "PauliRot":
            kinds += ["hyper"]
        if n["c"] == "mutual_info":
            kinds += ["split"]
        if not kinds:
            continue
        if want is not None and attempt < 40:
            if want not in kinds:
                continue
            k = want
        else:
            k = rng.choice(kinds)
        if k == "param":
            addr = rng.choice(num_slots(n))
            v = get_at(n, addr)
            nv, mode = mut_value(float(v), rt, at, rng)
            if n["c"] in CHANNELS:
                nv = min(max(nv, 0.0), 1.0)
                if nv == v:
                    continue
            set_at(n, addr, nv)
            return s, "param-" + mode
        if k == "wire":
            other = [w for w in pool if w not in spec_wires(s)]
            if other and rng.random() < 0.6:
                i = rng.randrange(len(n["w"]))
                n["w"][i] = rng.choice(other)
                return s, "wire-relabel"
            if len(n["w"]) >= 2:
                i, j = rng.sample(range(len(n["w"])), 2)
                n["w"][i], n["w"][j] = n["w"][j], n["w"][i]
                if "control_values" in n.get("kw", {}):
                    pass
                return s, "wire-swap"
            continue
        if k == "cv":
            i = rng.randrange(len(n["cv"]))
            n["cv"][i] = 1 - n["cv"][i]
            return s, "control-value"
        if k in ("cperm", "cperm_vals"):
            if len(n["cw"]) < 2:
                continue
            n["cw"] = n["cw"][::-1]
            if k == "cperm_vals":
                n["cv"] = n["cv"][::-1]
                return s, "control-order-with-values"
            return s, "control-order-only"
        if k == "cwire":
            other = [w for w in pool if w not in spec_wires(s)]
            if not other:
                continue
            n["cw"][rng.randrange(len(n["cw"]))] = rng.choice(other)
            return s, "control-wire"
        if k == "z":
            n["z"] = rng.choice([z for z in [2, 3, -1, 0.5, 2.5, 2.0000001] if z != n["z"]])
            return s, "exponent"
        if k == "order":
            o = n["o"][:]
            rng.shuffle(o)
            if o == n["o"]:
                o = o[::-1]
            n["o"] = o
            return s, "operand-order"
        if k == "drop":
            if len(n["o"]) <= 2:
                continue
            n["o"].pop(rng.randrange(len(n["o"])))
            return s, "operand-drop"
        if k == "class":
            swap = {"RX": "RY", "RY": "RZ", "RZ": "RX", "X": "Y", "Y": "Z", "Z": "X", "expval": "var", "var": "expval",
                    "probs": "sample", "sample": "probs", "sum": "prod", "prod": "sum"}
            if n["c"] == "adjoint":
                par = get_at(s, path[:-1]) if path else None
                if par is None:
                    return n["b"], "unwrap-adjoint"
                par[path[-1]] = n["b"]
                return s, "unwrap-adjoint"
            n["c"] = swap[n["c"]]
            return s, "class"
        if k == "hyper":
            if n["c"] == "PauliRot":
                w = n["p"][1]
                i = rng.randrange(len(w))
                n["p"][1] = w[:i] + rng.choice([c for c in "XYZI" if c != w[i]]) + w[i + 1:]
                return s, "hyper-pauliword"
            if "log_base" in n:
                n["log_base"] = rng.choice([x for x in [None, 2, 10] if x != n["log_base"]])
                return s, "hyper-log_base"
            if "all_outcomes" in n:
                n["all_outcomes"] = not n["all_outcomes"]
                return s, "hyper-all_outcomes"
            if "seed" in n:
                n["seed"] = rng.choice([x for x in [None, 1, 2] if x != n["seed"]])
                return s, "hyper-seed(ignored by equal)"
            kw = n["kw"]
            if "rotation" in kw:
                if isinstance(kw["rotation"], dict):
                    kw["rotation"] = {"cls": rng.choice([c for c in ["RX", "RY", "RZ"] if c != kw["rotation"]["cls"]])}
                else:
                    kw["rotation"] = rng.choice([c for c in "XYZ" if c != kw["rotation"]])
                return s, "hyper-rotation"
            if "only_visual" in kw:
                kw["only_visual"] = not kw["only_visual"]
                return s, "hyper-only_visual"
            if "control_values" in kw:
                i = rng.randrange(len(kw["control_values"]))
                kw["control_values"][i] = 1 - kw["control_values"][i]
                return s, "control-value"
            continue
        if k == "split":
            ws = n["w0"] + n["w1"]
            if len(ws) < 3:
                continue
            k0 = len(n["w0"])
            k1 = rng.choice([x for x in range(1, len(ws)) if x != k0])
            n["w0"], n["w1"] = ws[:k1], ws[k1:]
            return s, "mutual-info-split(ignored by equal)"
    return s, "none"


# ------------------------------------------------------------------ Gallina printing
class Intern:
    def __init__(self):
        self.t = {}

    def __call__(self, kind, s, reserve=None):
        d = self.t.setdefault(kind, {})
        if s not in d:
            d[s] = len(d) + 1
        return d[s]


def g_frac(p):
    return f"({p[0]} # {p[1]})%Q"


def g_ws(it, ws):
    return glist([gz(it("w", w)) for w in ws])


def g_name(it, n):
    return gz(0 if n == "Identity" else it("name", n))


def g_op(it, a):
    t = a["t"]
    if t == "plain":
        ps = glist([glist([g_frac(x) for x in p]) for p in a["params"]])
        return f"(Plain {g_name(it, a['name'])} {ps} {g_ws(it, a['wires'])} {gz(it('hyper', a['hyper']))})"
    if t == "ctrl":
        return (f"(Ctrl {g_name(it, a['name'])} {g_op(it, a['base'])} {g_ws(it, a['cw'])} {glist(a['cv'], gbool)} "
                f"{g_ws(it, a['ww'])} {gz(it('wt', a['wt']))})")
    if t == "pow":
        return f"(PowO {g_name(it, a['name'])} {g_frac(a['z'])} {g_op(it, a['base'])})"
    if t == "adj":
        return f"(Adj {g_name(it, a['name'])} {g_op(it, a['base'])})"
    if t == "sprod":
        return f"(SProdO {g_frac(a['s'])} {gz(a['kind'])} {gopt(a['prep'], gz)} {g_op(it, a['base'])})"
    if t == "exp":
        return f"(ExpO {g_name(it, a['name'])} {g_frac(a['c'])} {gz(a['kind'])} {g_op(it, a['base'])})"
    if t == "comp":
        ops = glist([f"({gz(x['key'] or 0)}, {g_ws(it, x['ow'])}, {g_op(it, x['body'])})" for x in a["operands"]])
        return f"(Comp {g_name(it, a['name'])} {gz(a['sk'])} {gopt(a['prep'], gz)} {ops})"
    raise ValueError(t)


def g_item(it, a):
    if a["t"] == "mp":
        obs = "None" if a["obs"] is None else f"(Some {g_op(it, a['obs'])})"
        eig = "None" if a["eig"] is None else f"(Some {glist([g_frac(x) for x in a['eig']])})"
        return (f"(IMp (MP {gz(it('mpkind', a['kind']))} {obs} {g_ws(it, a['wires'])} {eig} "
                f"{gz(it('extra', a['extra']))} {gz(it('aux', a['aux']))}))")
    return f"(IOp {g_op(it, a)})"


def ast_nums(a):
    """all numeric fields that qp.equal compares with allclose"""
    if a is None:
        return []
    t = a["t"]
    if t == "mp":
        return ast_nums(a["obs"]) + [F(*x) for x in (a["eig"] or [])]
    if t == "plain":
        return [F(*x) for p in a["params"] for x in p]
    if t in ("ctrl", "pow", "adj"):
        return ast_nums(a["base"])
    if t == "sprod":
        return [F(*a["s"])] + ast_nums(a["base"])
    if t == "exp":
        return [F(*a["c"])] + ast_nums(a["base"])
    return [x for o in a["operands"] for x in ast_nums(o["body"])]


def ast_depth(a):
    if a is None:
        return 0
    t = a["t"]
    if t == "mp":
        return ast_depth(a["obs"])
    if t == "plain":
        return 0
    if t == "comp":
        return 1 + max([ast_depth(o["body"]) for o in a["operands"]] or [0])
    return 1 + ast_depth(a["base"])


def all_far(a, b, rt, at):
    na, nb = ast_nums(a), ast_nums(b)
    rt, at = F(rt), F(at)
    for x in set(na):
        for y in set(nb):
            if x != y and not abs(x - y) > at + rt * max(abs(x), abs(y)):
                return False
    return True


CORPUS = [
    # (a, b, rtol, atol)
    ({"c": "RX", "p": [0.5], "w": [0]}, {"derive": "rebuild"}, 1e-5, 1e-9),
    ({"c": "Identity", "w": [0]}, {"c": "Identity", "w": ["b"]}, 1e-5, 1e-9),
    ({"c": "prod", "o": [{"c": "X", "w": [0]}, {"c": "Y", "w": [1]}]},
     {"c": "prod", "o": [{"c": "Y", "w": [1]}, {"c": "X", "w": [0]}]}, 0.0, 0.0),
    ({"c": "prod", "o": [{"c": "X", "w": [0]}, {"c": "X", "w": [0]}]},
     {"c": "prod", "o": [{"c": "Identity", "w": [0]}, {"c": "Identity", "w": [0]}]}, 0.0, 0.0),
    ({"c": "prod", "o": [{"c": "T", "w": [2]}, {"c": "Hadamard", "w": [3]}, {"c": "CNOT", "w": [0, 2]}]},
     {"c": "prod", "o": [{"c": "Hadamard", "w": [3]}, {"c": "T", "w": [2]}, {"c": "CNOT", "w": [0, 2]}]}, 1e-5, 1e-9),
    ({"c": "prod", "o": [{"c": "RX", "p": [0.5], "w": [0]}, {"c": "RY", "p": [0.25], "w": [0]}]},
     {"c": "prod", "o": [{"c": "RY", "p": [0.25], "w": [0]}, {"c": "RX", "p": [0.5], "w": [0]}]}, 1e-5, 1e-9),
    ({"c": "ctrl", "b": {"c": "RX", "p": [0.5], "w": [0]}, "cw": [1, 2], "cv": [0, 1]},
     {"c": "ctrl", "b": {"c": "RX", "p": [0.5], "w": [0]}, "cw": [2, 1], "cv": [1, 0]}, 1e-5, 1e-9),
    ({"c": "ctrl", "b": {"c": "RX", "p": [0.5], "w": [0]}, "cw": [1, 2], "cv": [0, 1]},
     {"c": "ctrl", "b": {"c": "RX", "p": [0.5], "w": [0]}, "cw": [2, 1], "cv": [0, 1]}, 1e-5, 1e-9),
    ({"c": "RX", "p": [1.0], "w": [0]}, {"c": "RX", "p": [1.4], "w": [0]}, 0.25, 0.125),        # asymmetric window
    ({"c": "RX", "p": [1.0], "w": [0]}, {"c": "RX", "p": [1.5], "w": [0]}, 0.25, 0.125),        # on the boundary (dyadic)
    ({"c": "sprod", "s": 0.5, "b": {"c": "X", "w": [0]}}, {"c": "sprod", "s": 0.5000000001, "b": {"c": "X", "w": [0]}}, 1e-5, 1e-9),
    ({"c": "exp", "k": {"im": 1.58}, "b": {"c": "Z", "w": [0]}}, {"c": "exp", "k": {"im": 1.58}, "b": {"c": "Z", "w": [0]}}, 0.0, 0.0),
    ({"c": "pow", "z": 2, "b": {"c": "RX", "p": [0.5], "w": [0]}}, {"c": "pow", "z": 2.0, "b": {"c": "RX", "p": [0.5], "w": [0]}}, 0.0, 0.0),
    ({"c": "expval", "mp": 1, "obs": {"c": "X", "w": [0]}}, {"c": "var", "mp": 1, "obs": {"c": "X", "w": [0]}}, 1e-5, 1e-9),
    ({"c": "expval_eig", "mp": 1, "w": [0], "eig": [1.0, -1.0]}, {"c": "expval_eig", "mp": 1, "w": [0], "eig": [1.0, -1.0000001]}, 1e-5, 1e-9),
    ({"c": "probs", "mp": 1, "w": [0, 1]}, {"c": "probs", "mp": 1, "w": [1, 0]}, 1e-5, 1e-9),
    ({"c": "expval", "mp": 1, "obs": {"c": "X", "w": [0]}}, {"c": "sample", "mp": 1, "w": [0]}, 1e-5, 1e-9),
    ({"c": "cob", "o": [{"c": "S", "w": [0]}, {"c": "RY", "p": [0.3], "w": [0]}]}, {"derive": "deepcopy"}, 1e-5, 1e-9),
]


def run(ctx):
    ctx.coq_props()
    rng = ctx.rng
    n = 400 if ctx.tier == "quick" else 6000
    cases = [{"a": a, "b": b, "rtol": rt, "atol": at, "tag": "corpus"} for a, b, rt, at in CORPUS]
    while len(cases) < n:
        pool = rng.sample(LABELS, rng.choice([2, 3, 3, 3, 4, 5]))
        rt, at = rng.choice(TOLS)
        a = gen_mp(rng, pool) if rng.random() < 0.22 else gen_op(rng, pool, rng.choice([0, 1, 1, 2, 2, 3]))
        r = rng.random()
        if r < 0.10:
            b, tag = {"derive": rng.choice(["copy", "deepcopy", "same", "rebuild"])}, "identical"
        elif r < 0.14:
            b = gen_mp(rng, pool) if "mp" in a else gen_op(rng, pool, 1)
            tag = "independent"
        else:
            b, tag = mutate(a, rt, at, rng, LABELS)
            if rng.random() < 0.15:        # occasionally a second mutation
                b, tag2 = mutate(b, rt, at, rng, LABELS)
                tag = tag + "+" + tag2
        if rng.random() < 0.5 and not (isinstance(b, dict) and "derive" in b):
            a, b = b, a
        cases.append({"a": a, "b": b, "rtol": rt, "atol": at, "tag": tag})
    obs = ctx.run_impl("c04_impl.py", {"cases": cases})
    it = Intern()
    terms, idx = [], []
    hist = {"skipped": 0, "errors": 0, "equal_true": 0, "asymmetric": 0, "depth>=2": 0, "mp": 0, "prep_shortcut_nodes": 0,
            "matrix_checked": 0, "identical_ast": 0}
    tags = {}
    distinct = set()
    for i, (c, o) in enumerate(zip(cases, obs)):
        key = json.dumps({k: c[k] for k in ("a", "b", "rtol", "atol")}, sort_keys=True)
        if "skip" in o:
            hist["skipped"] += 1
            tags.setdefault("skip:" + o["skip"][:40], 0)
            tags["skip:" + o["skip"][:40]] += 1
            continue
        if "error" in o:
            hist["errors"] += 1
            ctx.violation("error:" + key, {"case": c, "error": o["error"]}, what="qp.equal raised on a generated pair: " + o["error"][:200])
            continue
        tags[c["tag"]] = tags.get(c["tag"], 0) + 1
        rt, at = c["rtol"], c["atol"]
        terms.append(f"(({gq(F(rt))}, {gq(F(at))}, {g_item(it, o['a'])}, {g_item(it, o['b'])}), ({gbool(o['eab'])}, {gbool(o['eba'])}))")
        idx.append(i)
        hist["equal_true"] += o["eab"]
        hist["asymmetric"] += o["eab"] != o["eba"]
        hist["depth>=2"] += max(ast_depth(o["a"]), ast_depth(o["b"])) >= 2
        hist["mp"] += o["a"]["t"] == "mp"
        hist["prep_shortcut_nodes"] += '"prep": 0' in json.dumps(o["a"]) or '"prep": 1' in json.dumps(o["a"])
        if o["a"] != o["b"]:
            distinct.add(key)
        # ---- direct oracles on the implementation
        if not (o["raa"] and o["rbb"]):
            ctx.violation("refl:" + key, {"case": c, "observed": {k: o[k] for k in ("raa", "rbb")}},
                          what="qp.equal(x, x) is False")
        if o["eab"] != o["eba"] and all_far(o["a"], o["b"], rt, at):
            ctx.violation("sym:" + key, {"case": c, "equal_ab": o["eab"], "equal_ba": o["eba"]},
                          what="qp.equal depends on the argument order although no numeric field is inside the tolerance window")
        same_spec = (isinstance(c["b"], dict) and "derive" in c["b"]) or json.dumps(c["a"], sort_keys=True) == json.dumps(c["b"], sort_keys=True)
        if same_spec and o["a"] != o["b"] and "seed" not in json.dumps(c["a"]):
            ctx.violation("same-ast:" + key, {"case": c, "ast_a": o["a"], "ast_b": o["b"]},
                          what="two objects built from identical data expose different attributes")
        if same_spec and o["a"] == o["b"]:
            hist["identical_ast"] += 1
            if not o["eab"] or not o["hash_eq"]:
                ctx.violation("same:" + key, {"case": c, "equal": o["eab"], "hash_equal": o["hash_eq"]},
                              what="objects built from identical data are not equal or have different hashes")
        if o.get("mat") is not None:
            hist["matrix_checked"] += 1
            if o["mat"] > 1e-3:
                ctx.violation("matrix:" + key, {"case": c, "max_abs_matrix_difference": o["mat"]},
                              what="qp.equal is True but the matrices differ")
    bad = ctx.coq_eval_cases("cases", "From Coq Require Import QArith.\nFrom PLV Require Import Disc.EqualModel.", terms, "check_case", chunk=150)
    for j in bad:
        c, o = cases[idx[j]], obs[idx[j]]
        key = json.dumps({k: c[k] for k in ("a", "b", "rtol", "atol")}, sort_keys=True)
        ctx.violation("corr:" + key, {"case": c, "implementation": {"equal_ab": o["eab"], "equal_ba": o["eba"]},
                                      "ast_a": o["a"], "ast_b": o["b"], "model": "differs (see coq/Gen/C04)"},
                      what="qp.equal differs from the proved model of equal.py")
    ctx.coverage.update({"evaluations": len(terms), "distinct_nontrivial": len(distinct),
                         "rule": "seeded generator: operator trees (45 leaf classes incl. channels/templates/observables, Adjoint/Pow/Controlled/SProd/Exp/Sum/Prod/ChangeOpBasis nesting <= 3) and measurement processes (17 kinds); pairs = identical (copy/deepcopy/same/rebuild), independent, or single-field mutation (parameter tiny/in-window/far, wire, hyperparameter, control value/order, coefficient, exponent, operand order/drop, class); 5 tolerance settings; non-trivial = extracted ASTs differ",
                         "input_distribution": {**hist, "tags": tags}})
    for c, o in list(zip(cases, obs))[len(CORPUS):len(CORPUS) + 3]:
        ctx.sample({"case": c, "observed": {k: o.get(k) for k in ("eab", "eba", "hash_eq", "mat", "skip")}})
