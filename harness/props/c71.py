"""C71 Snapshots report the state of the circuit prefix."""
from vlib import *
import exactsim
import numpy as np

PID = "C71"
META = {
    "level": "proof",
    "engine": "qsym-translator",
    "technique": "Coq proof by induction over circuits on a Gallina transcription of the three snapshot paths (default.qubit debugger, default.mixed debugger, tape splitting) + vm_compute correspondence against real qp.snapshots runs whose values are identified against exact Coq simulations of every circuit prefix",
    "design_ref": "DESIGN.md §3 C71",
    "text": "11 kernel-checked theorems (Props/C71.v) for all circuits over an arbitrary state type: the record of the k-th snapshot is the measurement of the circuit truncated at that snapshot, untagged snapshots get their ordinal as tag, every path logs exactly these records in circuit order (default.mixed: for circuits without an empty-string tag), what is found under a tag (default.qubit: all values in order, a list when the tag is repeated; default.mixed and tape splitting: the last one), keys in order of first use, and the final state equals that of the circuit with the snapshots erased. Tie: random circuits (exactly representable angles, 1-3 wires, wire labels int/str) with 1-4 snapshots at random positions (untagged, tagged, repeated tags, empty tag; default state, explicit state, expval, probs, density_matrix) are run through the real qp.snapshots(QNode)() on default.qubit and default.mixed and through the tape transform; every returned value is compared (1e-9) with the corresponding measurement computed from the EXACT state of the prefix circuit at every snapshot position (and of the full circuit) simulated inside Coq over Q(zeta_8); the model, evaluated in Coq, must produce the same keys in the same order, the same single/list structure and values among the numerically matching (kind, prefix) candidates; final results must match the exact full circuit. Direct oracle: every snapshot with a unique non-empty tag equals the truncated circuit's measurement.",
    "note": "Trusted: Coq kernel; translator harness/qx.py (gate matrices to exact constants) and numpy post-processing of exact states (harness/exactsim.py + reduced density matrices here); the hand transcription of snapshot.py/apply_snapshot is tied by the correspondence only. Not covered: finite-shot snapshot measurements (sample/counts; statistical), mid-circuit measurements (one-shot/tree-traversal lists), a user tag equal to 'execution_results', parameter broadcasting, compilation transforms that move operations across a snapshot (documented PennyLane caveat), legacy devices. Values are identified numerically: a snapshot misplaced across a gate that does not change the measured quantity is invisible (and harmless).",
    "assumptions": ["analytic snapshot measurements only", "no user tag named execution_results"],
    "trusted": ["harness/exactsim.py post-processing", "translator harness/qx.py",
                "hand-written model coq/Disc/SnapshotsModel.v tied to /repo by correspondence only"],
}

P = {"X": np.array([[0, 1], [1, 0]], dtype=complex), "Y": np.array([[0, -1j], [1j, 0]]), "Z": np.array([[1, 0], [0, -1]], dtype=complex)}


def arr(v):
    a = np.asarray(v["re"], dtype=float)
    return a + 1j * np.asarray(v["im"], dtype=float) if "im" in v else a


def ref_value(state, n, labels, d, mixed):
    if d["kind"] == "state":
        return np.outer(state, state.conj()) if mixed else state
    ws = [labels.index(w) for w in d["wires"]]
    if d["kind"] == "expval":
        m = np.array([[1]], dtype=complex)
        for ch in d["word"]:
            m = np.kron(m, P[ch])
        return np.asarray(exactsim.expval(state, n, m, ws))
    if d["kind"] == "probs":
        return exactsim.probs(state, n, ws)
    psi = np.moveaxis(state.reshape([2] * n), ws, range(len(ws))).reshape(2 ** len(ws), -1)
    return psi @ psi.conj().T


def close(a, b):
    a, b = np.asarray(a), np.asarray(b)
    return a.shape == b.shape and (a.size == 0 or float(np.abs(a - b).max()) <= 1e-9)


def g_key(k):
    return f"(KInt {gnat(k[1])})" if k[0] == "int" else f"(KStr {gz(k[1])})"


def run(ctx):
    t0 = time.time()
    ctx.coq_props()
    t1 = time.time()
    out = ctx.run_impl("c71_impl.py", {"tier": ctx.tier, "seed": ctx.seed}, timeout=3000)
    t2 = time.time()
    cases = out["cases"]
    ok = [c for c in cases if c["status"] == "ok"]
    for c in [c for c in cases if c["status"] == "error"][:5]:
        ctx.violation("error:" + json.dumps(c["instrs"])[:300], {"case": {k: c[k] for k in ("mode", "labels", "instrs", "kinds")}, "detail": c.get("detail")},
                      what="qp.snapshots raised on a supported circuit")
    circs, owner = [], []
    for ci, c in enumerate(ok):
        for p, txt in c["prefix_circuits"].items():
            circs.append((c["n"], txt)); owner.append((ci, int(p)))
    states = exactsim.exact_states(ctx, "ref", circs)
    t3 = time.time()
    pref = {}
    for (ci, p), st in zip(owner, states):
        pref.setdefault(ci, {})[p] = st
    terms, tcases = [], []
    hist = {"modes": {0: 0, 1: 0, 2: 0}, "snapshots": 0, "dup_tag_cases": 0, "empty_tag_cases": 0, "kinds": {}, "ambiguous_values": 0, "values": 0}
    for ci, c in enumerate(ok):
        mixed, n, labels = c["mode"] == 1, c["n"], c["labels"]
        ng = c["ngates"]
        refs = {(ki, p): ref_value(pref[ci][p], n, labels, d, mixed) for ki, d in enumerate(c["kinds"]) for p in sorted(pref[ci])}
        hist["modes"][c["mode"]] += 1
        snaps = [i for i in c["instrs"] if i[0] == "S"]
        hist["snapshots"] += len(snaps)
        tags = [s[1] for s in snaps if s[1] is not None]
        hist["dup_tag_cases"] += len(set(tags)) < len(tags)
        hist["empty_tag_cases"] += 0 in tags
        for s in snaps:
            kd = c["kinds"][s[2]]["kind"]
            hist["kinds"][kd] = hist["kinds"].get(kd, 0) + 1
        desc = {k: c[k] for k in ("mode", "labels", "instrs", "kinds", "final_kinds")}
        d = c["dict"]
        keyid = json.dumps([c["mode"], c["labels"], c["instrs"], c["kinds"]])[:400]
        if not d or d[-1]["key"] != ["exec"] or any(e["key"][0] in ("exec", "other") for e in d[:-1]):
            ctx.violation("keys:" + keyid, {"case": desc, "keys": [e["key"] for e in d]}, what="unexpected keys / execution_results is not the last key")
            continue
        # final results against the exact full circuit (and, for the model, against every prefix)
        fin_c = []
        for p in sorted(pref[ci]):
            rv = [ref_value(pref[ci][p], n, labels, fd, False) for fd in c["final_kinds"]]
            if len(rv) == len(d[-1]["values"]) and all(close(arr(v), r) for v, r in zip(d[-1]["values"], rv)):
                fin_c.append(p)
        if ng not in fin_c:
            ctx.violation("final:" + keyid, {"case": desc, "final_results": d[-1]["values"],
                                             "exact": [np.asarray(ref_value(pref[ci][ng], n, labels, fd, False)).tolist() for fd in c["final_kinds"]] if not mixed else "see exact state"},
                          what="the circuit's final results are changed by the snapshots (differ from the exact snapshot-free circuit)")
        ents = []
        for e in d[:-1]:
            cl = []
            for v in e["values"]:
                a = arr(v)
                cands = [kp for kp, r in refs.items() if close(a, r)]
                hist["values"] += 1
                hist["ambiguous_values"] += len(cands) > 1
                cl.append(glist(cands, lambda kp: f"({gz(kp[0])}, {gz(kp[1])})"))
            ents.append(f"({g_key(e['key'])}, {gbool(e['is_list'])}, {glist(cl)})")
        # direct oracle: unique non-empty tags -> the truncated circuit's measurement
        gcount, ordn = 0, 0
        for ins in c["instrs"]:
            if ins[0] == "G":
                gcount += 1
                continue
            tag = ins[1]
            key = ["int", ordn] if tag is None else ["str", tag]
            # (default.mixed files an empty-string tag under len(log), which may clobber an integer key: no direct oracle then)
            uniq = (tag is None or (tag != 0 and tags.count(tag) == 1)) and not (mixed and 0 in tags)
            ordn += 1
            if not uniq:
                continue
            hit = [e for e in d[:-1] if e["key"] == key]
            if len(hit) != 1 or hit[0]["is_list"] or not close(arr(hit[0]["values"][0]), refs[(ins[2], gcount)]):
                ctx.violation("prefix:" + keyid, {"case": desc, "snapshot_key": key, "gates_before_snapshot": gcount,
                                                  "reported": hit[0]["values"] if hit else None,
                                                  "exact_prefix_value": {"re": np.real(refs[(ins[2], gcount)]).tolist(), "im": np.imag(refs[(ins[2], gcount)]).tolist()}},
                              what="snapshot value differs from the measurement of the circuit truncated at the snapshot (exact Coq simulation of the prefix)")
        gi = lambda ins: f"Gate Z Z {gz(ins[1])}" if ins[0] == "G" else f"Snap Z Z {gopt(ins[1], gz)} {gz(ins[2])}"
        terms.append(f"(({gnat(c['mode'])}, {glist(c['instrs'], gi)}), ({glist(ents)}, {glist(fin_c, gz)}))")
        tcases.append((c, desc, keyid))
    bad = ctx.coq_eval_cases("cases", "From PLV Require Import Disc.SnapshotsModel.", terms, "check_case", chunk=100)
    ctx.notes.append(f"phases: props {t1 - t0:.1f}s, real executions {t2 - t1:.1f}s, exact prefix simulations in Coq {t3 - t2:.1f}s, numeric matching + model evaluation {time.time() - t3:.1f}s")
    for i in bad:
        c, desc, keyid = tcases[i]
        ctx.violation("corr:" + keyid, {"case": desc, "returned": [{"key": e["key"], "is_list": e["is_list"], "n_values": len(e["values"])} for e in c["dict"]]},
                      what="qp.snapshots result differs from the proved model (keys / order / list structure / which prefix each value measures)")
    ctx.coverage.update({"evaluations": len(cases), "distinct_nontrivial": sum(1 for c in ok if len(c["prefix_circuits"]) > 1),
                         "rule": "random circuits with snapshots at random positions through real qp.snapshots; every value compared with exact Coq simulations of all prefixes; model compared on keys/order/structure/prefix identity",
                         "input_distribution": {**hist, "exact_prefix_simulations": len(circs), "not_exact": sum(1 for c in cases if c["status"] == "notex")}})
    for c in ok[:2]:
        ctx.sample({"mode": ["default.qubit", "default.mixed", "tape-split"][c["mode"]], "instrs": c["instrs"], "keys": [e["key"] for e in c["dict"]]})
