"""C70 default.clifford simulates stabilizer circuits exactly."""
from vlib import *
import exactsim, math
import numpy as np
from props.c26 import expected, arr

PID = "C70"
META = {
    "level": "proof",
    "engine": "qsym-translator",
    "technique": "Coq reflection proofs that each PennyLane->stim gate-name table entry has the same Pauli-conjugation action as the PennyLane gate's exact matrix + exact differential of whole Clifford circuits against a Coq-evaluated reference + chi-square of samples + non-Clifford policy check",
    "design_ref": "DESIGN.md §3 C70",
    "text": "(a) The device's operation table is read from /repo; for every entry and every Pauli generator Coq proves M P M^dagger = +-P' where +-P' is the action recorded in the installed stim's tableau for the mapped gate name (conjugation_obligation_sound). (b) Random Clifford circuits on 1-5 wires (6 thorough), random labels, are executed on default.clifford and state vectors (tableau=False), probabilities on wire subsets in any order, Pauli-word expectation values and variances are compared with the circuit simulated exactly in Coq over Q(zeta_8). (c) Finite-shot samples: validity and chi-square against the exact distribution (p < 1e-9). (d) Non-Clifford circuits must be rejected or give results equal to default.qubit.",
    "note": "Trusted: Coq kernel + stdlib real axioms; stim itself (its tableaus are the specification of its gate names); translator; numpy post-processing of the exact state. Defects found here and repaired in /repo by fix: commits: SX/Adjoint(SX) mapped to non-existent stim names; probabilities on wire subsets wrong (operator precedence). Known finding kept: with tableau=False the state vector is wrong / probs raise when some device wires are untouched by the circuit.",
    "assumptions": [], "trusted": ["stim 1.16 tableaus as the meaning of stim gate names", "translator harness/qx.py", "harness/exactsim.py"],
}
HEADER = """From Coq Require Import List ZArith QArith Bool.
From PLV Require Import Alg.Poly Lin.Vec Lin.PVec.
Import ListNotations.
Open Scope Q_scope.
"""


def _entropy(state, n, dev_wires, ws):
    idx = [dev_wires.index(w) for w in ws]
    psi = np.moveaxis(np.asarray(state).reshape([2] * n), idx, range(len(idx))).reshape(2 ** len(idx), -1)
    ev = np.linalg.eigvalsh(psi @ psi.conj().T)
    ev = ev[ev > 1e-12]
    return float(-np.sum(ev * np.log(ev)))


def expected70(state, n, dev_wires, m):
    """exact value of a measurement from the exact state (entropies: natural logarithm, as the measurements default)"""
    if m["kind"] == "vn":
        return _entropy(state, n, dev_wires, m["wires"])
    if m["kind"] == "mi":
        return (_entropy(state, n, dev_wires, m["wires0"]) + _entropy(state, n, dev_wires, m["wires1"])
                - _entropy(state, n, dev_wires, list(m["wires0"]) + list(m["wires1"])))
    if m["kind"] in ("expval_ham", "var_ham"):
        P = {"X": np.array([[0, 1], [1, 0]], dtype=complex), "Y": np.array([[0, -1j], [1j, 0]]), "Z": np.diag([1.0 + 0j, -1.0])}
        H = np.zeros((2 ** n, 2 ** n), dtype=complex)
        for c, word, ws in m["terms"]:
            fs = [np.eye(2, dtype=complex)] * n
            for ch, w in zip(word, ws):
                fs[dev_wires.index(w)] = fs[dev_wires.index(w)] @ P[ch]
            T = np.array([[1.0 + 0j]])
            for f in fs:
                T = np.kron(T, f)
            H = H + c * T
        psi = np.asarray(state).reshape(-1)
        e1 = np.vdot(psi, H @ psi).real
        return e1 if m["kind"] == "expval_ham" else float(np.vdot(psi, H @ (H @ psi)).real - e1 * e1)
    return expected(state, n, dev_wires, m)


def tableau_error(tab, state, n):
    """max | <psi| (-1)^s P_r |psi> - 1 | over the stabilizer rows r = n..2n-1 of a (2n) x (2n+1) tableau [x | z | sign]"""
    tab = np.asarray(tab).reshape(2 * n, 2 * n + 1)
    X = np.array([[0, 1], [1, 0]], dtype=complex); Z = np.diag([1.0 + 0j, -1.0]); Y = np.array([[0, -1j], [1j, 0]])
    psi = np.asarray(state).reshape(-1)
    worst = 0.0
    for r in range(n, 2 * n):
        T = np.array([[1.0 + 0j]])
        for q in range(n):
            x, z = int(round(tab[r, q])), int(round(tab[r, n + q]))
            T = np.kron(T, [[np.eye(2), Z], [X, Y]][x][z])
        worst = max(worst, abs((-1) ** int(round(tab[r, 2 * n])) * np.vdot(psi, T @ psi).real - 1.0))
    return worst


def chi2_sf(x, k):
    # survival function of chi-square via regularised upper incomplete gamma (series / continued fraction)
    from math import lgamma, exp, log
    a, xx = k / 2.0, x / 2.0
    if xx <= 0:
        return 1.0
    if xx < a + 1:
        s, t, n = 1.0 / a, 1.0 / a, a
        for _ in range(10000):
            n += 1; t *= xx / n; s += t
            if t < s * 1e-16:
                break
        return max(0.0, 1.0 - s * exp(-xx + a * log(xx) - lgamma(a)))
    b = xx + 1 - a; c = 1e300; d = 1 / b; h = d
    for i in range(1, 10000):
        an = -i * (i - a); b += 2; d = an * d + b; d = 1e-300 if abs(d) < 1e-300 else d
        c = b + an / c; c = 1e-300 if abs(c) < 1e-300 else c; d = 1 / d; de = d * c; h *= de
        if abs(de - 1) < 1e-16:
            break
    return exp(-xx + a * log(xx) - lgamma(a)) * h


def run(ctx):
    ctx.coq_props()
    out = ctx.run_impl("c70_impl.py", {"tier": ctx.tier, "seed": ctx.seed, "outdir": str(ctx.gen_dir)}, timeout=3000)
    obl = json.loads((ctx.gen_dir / "obligations.json").read_text())
    failed = ctx.coq_obligations("table", HEADER, [(o["name"], o["stmt"], "vm_compute. reflexivity.") for o in obl], chunk=12)
    by = {o["name"]: o for o in obl}
    for name, detail in failed:
        o = by.get(name)
        if o is None:
            ctx.broken_obligation("coq", name, detail); continue
        ctx.violation(f"table:{o['pl']}", {"pennylane_gate": o["pl"], "stim_gate": o["stim"], "conjugation": o["what"]},
                      what=f"default.clifford maps {o['pl']} to stim gate {o['stim']} whose action on Paulis differs ({o['what']})")
    for t in out["table"]:
        if t["status"] != "ok":
            ctx.violation(f"table-error:{t['pl']}", t, what=f"operation table entry {t['pl']} -> {t['stim']} is not a usable stim gate: {t.get('detail')}")
    runs = out["runs"]
    okruns = [r for r in runs if r["status"] == "ok"]
    states = exactsim.exact_states(ctx, "ref", [(r["n"], r["circuit"]) for r in okruns])
    nsamp = 0
    for r, st in zip(okruns, states):
        for m, res in zip(r["meas"], r["results"]):
            if m["kind"] == "tableau":
                err = tableau_error(arr(res), st, r["n"])
                if err > 1e-6:
                    ctx.violation("tableau:" + json.dumps(r["ops"])[:300], {"ops": r["ops"], "tableau": res, "err": err},
                                  what="a stabilizer row (with its sign) of the tableau returned by default.clifford(tableau=True) does not stabilize the exact state")
                continue
            got, exp = arr(res), expected70(st, r["n"], r["dev_wires"], m)
            if m["kind"] == "state":      # global phase of a stabilizer state vector is not fixed by the tableau
                ov = abs(np.vdot(np.asarray(exp), np.asarray(got)))
                err = abs(ov - 1.0)
            else:
                err = float(np.abs(np.asarray(got).reshape(-1) - np.asarray(exp).reshape(-1)).max()) if np.asarray(got).size == np.asarray(exp).size else 9.9
            if err > 1e-6 and m["kind"] == "state" and sorted(r.get("appear", [])) == list(range(r["n"])) and r["appear"] != list(range(r["n"])):
                # the recorded finding: the vector is ordered by first appearance of the wires in the circuit, not by device order
                perm = np.asarray(exp).reshape((2,) * r["n"]).transpose(r["appear"]).reshape(-1)
                if abs(abs(np.vdot(perm, np.asarray(got))) - 1.0) < 1e-6:
                    ctx.violation("finding:clifford_statevector_untouched_wires", {"ops": r["ops"], "wires": r["dev_wires"], "first_appearance": r["appear"], "device_result": res},
                                  what="default.clifford(tableau=False) orders the state vector by first appearance of the wires (here through a state preparation on unordered wires)")
                    continue
            if err > 1e-6:
                ctx.violation("run:" + json.dumps([r["ops"], m])[:300], {"ops": r["ops"], "wires": r["dev_wires"], "measurement": m, "device_result": res,
                              "exact": np.asarray(exp).astype(complex).view(float).tolist() if np.iscomplexobj(exp) else np.asarray(exp).tolist(), "err": err},
                              what=f"default.clifford result of {m['kind']} differs from the exact simulation")
        if "sample" in r:
            nsamp += 1
            s = r["sample"]
            p = exactsim.probs(st, r["n"], [r["dev_wires"].index(w) for w in s["wires"]])
            hist = np.array(s["hist"], dtype=float)
            bad_support = bool(np.any((p < 1e-12) & (hist > 0)))
            mask = p > 1e-12
            chi = float(np.sum((hist[mask] - s["shots"] * p[mask]) ** 2 / (s["shots"] * p[mask])))
            dof = max(int(mask.sum()) - 1, 1)
            pv = chi2_sf(chi, dof) if mask.sum() > 1 else 1.0
            if not s["valid"] or bad_support or pv < 1e-9 or int(hist.sum()) != s["shots"]:
                ctx.violation("sample:" + json.dumps([r["ops"], s["wires"]])[:300], {"ops": r["ops"], "wires": s["wires"], "histogram": s["hist"], "exact_probs": p.tolist(), "chi2_p": pv},
                              what="default.clifford samples do not follow the exact distribution")
    for r in [x for x in runs if x["status"] == "error"][:5]:
        ctx.violation("run-error:" + json.dumps(r["ops"])[:300], {"ops": r["ops"], "meas": r["meas"], "detail": r.get("detail")}, what="default.clifford raised on a Clifford circuit")
    for p_ in out["policy"]:
        if p_["outcome"] == "result" and not p_["agrees"]:
            ctx.violation("policy:" + json.dumps(p_["ops"]), p_, what="default.clifford silently mis-simulated a non-Clifford circuit")
    if out["kf"].get("state_X2_on_3_wires_argmax") != 1:
        ctx.violation("finding:clifford_statevector_untouched_wires", {"repro": "dev=qp.device('default.clifford',wires=[0,1,2],tableau=False); qp.execute([QuantumScript([qp.X(2)],[qp.state()])],dev)", "observed": out["kf"], "expected_argmax": 1},
                      what="default.clifford(tableau=False) state vector wrong when some device wires are untouched")
    ctx.coverage.update({"evaluations": len(runs) + len(obl), "distinct_nontrivial": len(obl) + len(okruns),
                         "rule": "all table entries x Pauli generators; random Clifford circuits vs exact reference; sampled distributions",
                         "table_obligations": len(obl), "exact_runs": len(okruns), "sampling_runs": nsamp, "policy": out["policy"]})
    for r in okruns[:2]:
        ctx.sample({"ops": r["ops"], "meas": r["meas"]})
