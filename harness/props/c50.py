"""C50 GF(2) linear algebra is exact."""
import itertools
from vlib import *

PID = "C50"
META = {
    "level": "proof",
    "technique": "Coq proofs (loop invariants, induction) about a Gallina transcription of math/binary_linalg.py + vm_compute correspondence (exhaustive <=3x4 and random larger) + brute-force GF(2) reference oracle",
    "design_ref": "DESIGN.md §3 C50",
    "text": "7 kernel-checked theorems (Props/C50.v, all closed under the global context) about a Gallina transcription of the actual loops of math/binary_linalg.py on list (list bool), for ALL rectangular matrices of any size: rref_total (pivot-search/row loops never exhaust the model's fuel), rref_row_equiv (output has the same shape and the same GF(2) row space as the input; proved via the loop invariant 'rows >= irow are zero left of icol', which is what makes the icol:-slice swap and the outer-product xor whole-row operations), rref_is_rref_partial (every output row owns a unit pivot column with zeros to its left, or is zero), solve_sound (square A: a returned x satisfies A.x=b), solve_unique (a returned x is the only solution, i.e. singular systems are never accepted), rank_total, rank_is_basis_size (the returned rank is the size of a linearly independent family with the same row space as the input). Tie: the model is run inside Coq (vm_compute) on the same inputs as pennylane.math and all outputs compared: every binary matrix up to 3x4 for rref/rank/select_basis, with every right-hand side for solve and every vector for is_independent (n<=3), plus seeded random matrices (up to 9x9 quick, 16x16 thorough), degenerate shapes and malformed lengths; in addition a brute-force reference oracle (span enumeration, textbook Gauss-Jordan on bitmasks, exhaustive solution search) is evaluated directly on every implementation output, including input-not-modified and inplace=True semantics.",
    "note": "Trusted: Coq kernel; the hand transcription coq/Disc/GF2Model.v (numpy slicing, np.outer, ^=, nonzero/where indexing rendered as firstn/skipn/map2/first_true/last_true) is tied to /repo by the correspondence run only. NOT proved (covered by correspondence + brute-force oracle only): strict monotonicity of pivot columns / zero-rows-last of the RREF; the converse of solve_unique (every regular A is accepted); uniqueness of basis size (dimension theorem), hence 'rank = dim' is stated as 'rank = size of some basis'; rank invariance under row operations; binary_is_independent and binary_select_basis have a model and correspondence but no theorem (they are thin wrappers over rank; is_independent is only meaningful under its documented full-rank precondition); int_to_binary has model+correspondence only; binary_decimals (floats) is outside the model. Callers in qchem/tapering.py, transforms/intermediate_reps/rowcol.py, sum_of_slaters.py, default_clifford.py are not modelled; they call the functions verified here. The exhaustive solve cases are sent to Coq as one term per matrix (all right-hand sides in product order); a failing group is re-evaluated case by case to name the failing right-hand side. A 3 s per-case watchdog in the driver turns a non-terminating implementation into a reported violation. Equivalent mutants (e.g. choosing a different pivot row/bit) do not change the outputs and are, correctly, not reported.",
    "assumptions": ["matrix entries are 0/1 integers in rectangular numpy arrays (other dtypes / entries >1 / JAX are outside the model)",
                    "binary_solve_linear_system: the A.x=b clause is stated for square A (documented precondition); non-square inputs are compared with the model only",
                    "binary_is_independent: the reference answer (v not in column span) is demanded only when `basis` has full rank min(r,m) (documented precondition); otherwise model comparison only"],
    "trusted": ["hand-written model coq/Disc/GF2Model.v tied to /repo by correspondence only",
                "numpy slicing/outer/xor semantics as transcribed (firstn/skipn, map2)"],
}


CAP = 25    # replay files written per kind (direct / correspondence); the totals are recorded in the evidence

# ------------------------------------------------------------------ Gallina printers
def g_row(r):
    return "[" + ";".join("b1" if x else "b0" for x in r) + "]"


def g_mat(rows):
    return "[" + ";".join(g_row(r) for r in rows) + "]"


def g_case(c):
    op = c["op"]
    if op == "rref":
        return f"ORref {g_mat(c['rows'])}"
    if op == "rank":
        return f"ORank {g_mat(c['rows'])}"
    if op == "solve":
        return f"OSolve {g_mat(c['rows'])} {g_row(c['b'])}"
    if op == "indep":
        return f"OIndep {g_row(c['v'])} {gnat(c['n'])} {g_mat(c['rows'])}"
    if op == "select":
        return f"OSelect {gnat(c['m'])} {gnat(c['n'])} {g_mat(c['rows'])}"
    return f"OI2B {gz(c['z'])} {gnat(c['w'])}"


def g_obs(c, o):
    if o == "ERR":
        return "VRaise"
    if o == "HANG":
        return "VFuel"           # never equal to a model result: reported as a correspondence failure
    op = c["op"]
    if op == "rref":
        return f"VMat {g_mat(o['out'])}"
    if op == "rank":
        return f"VInt {gz(o['out'])}"
    if op in ("solve", "i2b"):
        return f"VVec {g_row(o['out'])}"
    if op == "indep":
        return f"VBool {gbool(o['out'])}"
    return f"VPair {g_mat(o['basis'])} {g_mat(o['other_cols'])}"


# ------------------------------------------------------------------ brute-force reference over GF(2)
def mask(r):
    v = 0
    for x in r:
        v = (v << 1) | (1 if x else 0)
    return v


def span(masks):
    s = {0}
    for r in masks:
        s |= {x ^ r for x in s}
    return s


def ref_rref(rows, n):
    """textbook Gauss-Jordan on bitmasks (independent of the implementation's pivoting scheme)"""
    rs = [mask(r) for r in rows]
    k = 0
    for col in range(n):
        bit = 1 << (n - 1 - col)
        p = next((i for i in range(k, len(rs)) if rs[i] & bit), None)
        if p is None:
            continue
        rs[k], rs[p] = rs[p], rs[k]
        for i in range(len(rs)):
            if i != k and rs[i] & bit:
                rs[i] ^= rs[k]
        k += 1
    return rs, k


def ref_rank(rows, n):
    if len(rows) <= 10:
        return len(span([mask(r) for r in rows])).bit_length() - 1
    return ref_rref(rows, n)[1]


def is_rref(rows):
    last = -1
    seen_zero = False
    for i, r in enumerate(rows):
        nz = [j for j, x in enumerate(r) if x]
        if not nz:
            seen_zero = True
            continue
        if seen_zero or nz[0] <= last:
            return False
        last = nz[0]
        if any(rows[k][last] for k in range(len(rows)) if k != i):
            return False
    return True


def cols_of(c):
    return [[c["rows"][i][j] for i in range(c["m"])] for j in range(c["n"])]


def direct_oracle(c, o):
    """the property's own statement evaluated on the implementation's output; returns None or a message"""
    op, m, n = c["op"], c.get("m"), c.get("n")
    if o == "HANG":
        return "implementation did not terminate within the 3 s per-case watchdog"
    if op == "rref":
        if o == "ERR":
            return "rref raised"
        R = o["out"]
        if o["shape"] != [m, n] or not o["unchanged"] or not o["inplace_same"]:
            return "shape / copy semantics"
        if any(x not in (0, 1) for r in R for x in r):
            return "non-binary entry"
        if not is_rref(R):
            return "output is not in reduced row echelon form"
        if [mask(r) for r in R] != ref_rref(c["rows"], n)[0]:
            return "differs from reference RREF"
        if m <= 10 and span([mask(r) for r in R]) != span([mask(r) for r in c["rows"]]):
            return "row space changed"
    elif op == "rank":
        if o == "ERR" or not o["unchanged"]:
            return "rank raised / modified its input"
        if o["out"] != ref_rank(c["rows"], n):
            return f"rank {o['out']} != reference {ref_rank(c['rows'], n)}"
    elif op == "solve":
        if len(c["b"]) != m or m != n:
            return None                      # outside the documented precondition: model comparison only
        A = [mask(r) for r in c["rows"]]
        par = lambda v: bin(v).count("1") & 1
        if n <= 8:
            sols = [x for x in itertools.product([0, 1], repeat=n)
                    if all(par(A[i] & mask(x)) == c["b"][i] for i in range(m))]
            regular = len(span(A)) == 2 ** n
            if regular != (len(sols) == 1):
                return "reference inconsistency"
            if regular and (o == "ERR" or tuple(o["out"]) != sols[0]):
                return "regular system: unique solution not returned"
            if not regular and o != "ERR":
                return "singular matrix accepted"
        else:
            regular = ref_rref(c["rows"], n)[1] == n
            if regular != (o != "ERR"):
                return "error iff singular violated"
        if o != "ERR":
            x = o["out"]
            if len(x) != n or not o["unchanged"] or any(par(A[i] & mask(x)) != c["b"][i] for i in range(m)):
                return "returned vector does not solve A.x = b"
    elif op == "indep":
        if len(c["v"]) != m:
            return None if o == "ERR" else "shape mismatch accepted"
        if o == "ERR":
            return "independence test raised"
        cols = [mask(col) for col in cols_of(c)]
        if m <= 10 and n <= 12:
            sp = span(cols)
            if len(sp) == 2 ** min(m, n) and o["out"] != (mask(c["v"]) not in sp):
                return "independence answer differs from span membership"
    elif op == "select":
        if o == "ERR":
            return "select raised"
        cols = cols_of(c)
        bcols = [[o["basis"][i][j] for i in range(m)] for j in range(o["basis_shape"][1])]
        ocols = o["other_cols"]
        if o["basis_shape"][0] != m or o["other_shape"][0] != m:
            return "shape"
        if sorted(map(tuple, bcols + ocols)) != sorted(map(tuple, cols)):
            return "basis + others is not the multiset of columns"
        if m <= 10:
            sb = span([mask(x) for x in bcols])
            if len(sb) != 2 ** len(bcols):
                return "selected columns are dependent"
            if sb != span([mask(x) for x in cols]):
                return "selected columns do not span the column space"
    elif op == "i2b":
        z, w = c["z"], c["w"]
        if o == "ERR" or o["out"] != [(z >> s) & 1 for s in range(w - 1, -1, -1)]:
            return "int_to_binary differs from the bits of z mod 2^w"
    return None


# ------------------------------------------------------------------ generators
def mk(op, rows, m, n, **kw):
    d = {"op": op, "m": m, "n": n, "rows": [list(r) for r in rows]}
    d.update(kw)
    return d


def all_mats(m, n):
    for bits in itertools.product([0, 1], repeat=m * n):
        yield [list(bits[i * n:(i + 1) * n]) for i in range(m)]


def rand_mat(rng, m, n):
    kind = rng.random()
    if kind < 0.35:
        p = rng.choice([0.15, 0.3, 0.5, 0.7])
        return [[1 if rng.random() < p else 0 for _ in range(n)] for _ in range(m)]
    if kind < 0.7:      # low rank: rows are combinations of k generators (duplicates / zero rows likely)
        k = rng.randint(0, max(0, min(m, n) - 1))
        gens = [[rng.randint(0, 1) for _ in range(n)] for _ in range(k)]
        rows = []
        for _ in range(m):
            r = [0] * n
            for g in gens:
                if rng.random() < 0.5:
                    r = [a ^ b for a, b in zip(r, g)]
            rows.append(r)
        return rows
    if kind < 0.85:     # zero columns and a late pivot
        rows = [[rng.randint(0, 1) for _ in range(n)] for _ in range(m)]
        for j in range(n):
            if rng.random() < 0.4:
                for r in rows:
                    r[j] = 0
        return rows
    # permuted / scrambled identity-like: full rank
    rows = [[1 if i == j else 0 for j in range(n)] for i in range(m)]
    for _ in range(3 * m):
        i, k = rng.randrange(m), rng.randrange(m)
        if i != k:
            if rng.random() < 0.5:
                rows[i], rows[k] = rows[k], rows[i]
            else:
                rows[i] = [a ^ b for a, b in zip(rows[i], rows[k])]
    return rows


def run(ctx):
    ctx.coq_props()
    rng = ctx.rng
    quick = ctx.tier == "quick"
    cases = []
    # --- corpus: degenerate shapes, docstring examples
    for (m, n) in [(0, 0), (0, 3), (3, 0), (1, 0), (0, 1)]:
        rows = [[] for _ in range(m)]
        cases += [mk("rref", rows, m, n), mk("rank", rows, m, n), mk("select", rows, m, n),
                  mk("solve", rows, m, n, b=[1] * m), mk("indep", rows, m, n, v=[1] * m)]
    ex1 = [[1, 0, 0, 0, 0, 1, 0, 0], [1, 0, 1, 0, 0, 0, 1, 0], [0, 0, 0, 1, 1, 0, 0, 1]]
    ex2 = [[0, 1, 1, 0], [0, 1, 0, 1], [1, 0, 1, 1], [1, 0, 0, 0]]
    ex3 = [[1, 0, 0], [0, 1, 1], [1, 0, 1]]
    cases += [mk("rref", ex1, 3, 8), mk("rank", ex2, 4, 4), mk("solve", ex3, 3, 3, b=[1, 1, 1]),
              mk("select", ex2, 4, 4), mk("rank", ex1, 3, 8), mk("rref", ex2, 4, 4),
              mk("solve", ex3, 3, 3, b=[1, 1]), mk("indep", ex3, 3, 3, v=[1, 0]),      # malformed lengths
              {"op": "i2b", "z": 13, "w": 5}, {"op": "i2b", "z": -3, "w": 4}, {"op": "i2b", "z": 300, "w": 4},
              {"op": "i2b", "z": 0, "w": 0}]
    n_corpus = len(cases)
    # --- exhaustive: every binary matrix up to 3x4 (rref, rank, select, solve with every right-hand side)
    groups = []      # (indices of the solve cases of one matrix, all right-hand sides in product order)
    for m in (1, 2, 3):
        for n in (1, 2, 3, 4):
            for rows in all_mats(m, n):
                cases.append(mk("rref", rows, m, n))
                cases.append(mk("rank", rows, m, n))
                cases.append(mk("select", rows, m, n))
                g = []
                for b in itertools.product([0, 1], repeat=m):
                    g.append(len(cases))
                    cases.append(mk("solve", rows, m, n, b=list(b)))
                    if n <= 3:
                        cases.append(mk("indep", rows, m, n, v=list(b)))
                groups.append(g)
    n_exh = len(cases) - n_corpus
    # --- random larger
    n_rand = 2500 if quick else 30000
    big = 9 if quick else 16
    for _ in range(n_rand):
        r = rng.random()
        m, n = rng.randint(1, big), rng.randint(1, big)
        if r < 0.25:
            cases.append(mk("rref", rand_mat(rng, m, n), m, n))
        elif r < 0.45:
            cases.append(mk("rank", rand_mat(rng, m, n), m, n))
        elif r < 0.70:
            if rng.random() < 0.85:
                n = m
            A = rand_mat(rng, m, n)
            if m == n and rng.random() < 0.5:       # force a regular matrix
                A = [[1 if i == j else 0 for j in range(n)] for i in range(m)]
                for _ in range(4 * m):
                    i, k = rng.randrange(m), rng.randrange(m)
                    if i != k:
                        if rng.random() < 0.4:
                            A[i], A[k] = A[k], A[i]
                        else:
                            A[i] = [a ^ b for a, b in zip(A[i], A[k])]
            lb = m if rng.random() < 0.97 else max(0, m + rng.choice([-1, 1]))
            cases.append(mk("solve", A, m, n, b=[rng.randint(0, 1) for _ in range(lb)]))
        elif r < 0.85:
            if rng.random() < 0.7:
                n = rng.randint(0, m)
            B = rand_mat(rng, m, n) if n else [[] for _ in range(m)]
            if rng.random() < 0.5 and n:   # vector inside the span
                v = [0] * m
                for col in zip(*B):
                    if rng.random() < 0.5:
                        v = [a ^ b for a, b in zip(v, col)]
            else:
                v = [rng.randint(0, 1) for _ in range(m)]
            if rng.random() < 0.03:
                v = v + [1]
            cases.append(mk("indep", B, m, n, v=v))
        elif r < 0.95:
            cases.append(mk("select", rand_mat(rng, m, n), m, n))
        else:
            w = rng.randint(0, 20)
            cases.append({"op": "i2b", "z": rng.choice([1, -1]) * rng.getrandbits(rng.randint(1, 40)), "w": w})

    obs = ctx.run_impl("c50_impl.py", {"cases": cases})
    # Coq terms: the exhaustive solve cases of one matrix are sent as ONE term (OSolveAll A, list of the
    # observed results for every right-hand side); everything else one term per case
    grouped = {i for g in groups for i in g}
    terms, owner = [], []
    for i, (c, o) in enumerate(zip(cases, obs)):
        if i not in grouped:
            terms.append(f"({g_case(c)}, {g_obs(c, o)})"); owner.append([i])
    for g in groups:
        c0 = cases[g[0]]
        terms.append(f"(OSolveAll {g_mat(c0['rows'])}, VList [{'; '.join(g_obs(cases[i], obs[i]) for i in g)}])")
        owner.append(g)
    HDR = "From PLV Require Import Disc.GF2Model."
    bad_terms = ctx.coq_eval_cases("cases", HDR, terms, "check_case", chunk=1500, par=14)
    bad = []
    regroup = []
    for t in bad_terms:
        if len(owner[t]) == 1:
            bad.append(owner[t][0])
        else:
            regroup.extend(owner[t])
    if regroup:      # locate the failing right-hand side(s) inside a failing group
        sub = ctx.coq_eval_cases("regroup", HDR, [f"({g_case(cases[i])}, {g_obs(cases[i], obs[i])})" for i in regroup],
                                 "check_case", chunk=1500, par=14)
        bad.extend(regroup[j] for j in sub)
        if not sub:
            bad.append(regroup[0])
    bad.sort()
    ctx.coverage["correspondence_cases"] = len(cases)
    hist = {"corpus": n_corpus, "exhaustive_le_3x4": n_exh, "random": len(cases) - n_corpus - n_exh,
            "rref": 0, "rank": 0, "solve": 0, "indep": 0, "select": 0, "i2b": 0, "errors": 0,
            "rref_changed_input": 0, "solve_regular": 0, "indep_true": 0, "rank_ge_2": 0,
            "max_rows": 0, "max_cols": 0}
    distinct = 0
    n_direct = 0
    for c, o in zip(cases, obs):
        op = c["op"]
        hist[op] += 1
        if op != "i2b":
            hist["max_rows"] = max(hist["max_rows"], c["m"])
            hist["max_cols"] = max(hist["max_cols"], c["n"])
        if o == "ERR":
            hist["errors"] += 1
        elif o == "HANG":
            hist["hangs"] = hist.get("hangs", 0) + 1
        else:
            nt = False
            if op == "rref" and o["out"] != c["rows"]:
                hist["rref_changed_input"] += 1; nt = True
            if op == "solve":
                hist["solve_regular"] += 1; nt = True
            if op == "indep" and o["out"]:
                hist["indep_true"] += 1; nt = True
            if op == "rank" and o["out"] >= 2:
                hist["rank_ge_2"] += 1; nt = True
            if op == "select" and o["basis_shape"][1] >= 2:
                nt = True
            distinct += nt
        msg = direct_oracle(c, o)
        if msg:
            n_direct += 1
        if msg and n_direct <= CAP:
            ctx.violation("direct:" + json.dumps(c, sort_keys=True), {"case": c, "observed": o, "why": msg},
                          what="GF(2) routine disagrees with the brute-force reference: " + msg)
    for i in bad[:CAP]:
        c, o = cases[i], obs[i]
        ctx.violation("corr:" + json.dumps(c, sort_keys=True),
                      {"case": c, "implementation": o, "model": "see coq/Gen/C50 (model output differs)"},
                      found_input=True, what="implementation differs from the proved Gallina model of binary_linalg")
    if n_direct > CAP or len(bad) > CAP:
        ctx.notes.append(f"{n_direct} direct-oracle and {len(bad)} correspondence failures in total; first {CAP} of each written as replays")
    ctx.coverage.update({"evaluations": len(cases), "direct_oracle_failures": n_direct, "correspondence_failures": len(bad), "distinct_nontrivial": distinct,
                         "rule": "corpus (degenerate shapes, docstring examples, malformed lengths); exhaustive: every binary matrix m<=3, n<=4 for rref/rank/select, with every right-hand side for solve and every vector for independence (n<=3); seeded random matrices up to %dx%d (dense, low-rank, zero-column, scrambled-identity families; forced-regular systems; in-span vectors; ~3%% malformed lengths). non-trivial = rref changed its input / system solved / vector independent / rank>=2 / basis of >=2 columns" % (big, big),
                         "input_distribution": hist})
    for i in (n_corpus - 12, n_corpus - 10, n_corpus + 4000, len(cases) - 1, len(cases) - 2):
        ctx.sample({"case": cases[i], "observed": obs[i]})
