"""C31 Seeded and parallel execution is reproducible and order-preserving."""
from vlib import *
import math

PID = "C31"
META = {
    "level": "proof",
    "technique": "Coq proof (induction over the execution history, all completion orders) on a Gallina transcription of DefaultQubit.execute + vm_compute correspondence against real default.qubit runs under every native executor backend with injected per-task delays",
    "design_ref": "DESIGN.md §3 C31",
    "text": "7 kernel-checked theorems and 2 examples (Props/C31.v) over a model in which the numpy generator, the seeded simulation and the generator-consuming simulation are arbitrary functions and the pool finishes tasks in an arbitrary order: the (circuit, seed) pairing and the generator state left behind do not depend on the completion order and equal 'i-th circuit with i-th drawn integer' (seeds are drawn before dispatch); for every permutation of completion order the assembled results are map task over the batch; two devices in the same generator state running the same sequence of serial/parallel batches under any two schedules obtain identical seeds, results and final state (induction over the sequence); analytic results of the parallel path equal the serial path. Tie: device histories (2-3 batches of mixed analytic/finite-shot circuits) are executed on the real device through the serial path, SerialExec, ThreadPoolExec, ProcPoolExec and MPPoolExec (the latter through qp.execute with the device's max_workers) with a wrapper at default_qubit.simulate that sleeps (random jitter + one heavy task per batch) and logs (circuit, rng argument, result digest, completion time); the model is evaluated in Coq with numpy's draws recorded from an independent clone of the generator and must reproduce the logged (circuit, seed) pairs, the result at every output position (identified by digest) and the generator state after the history. Direct oracles: twin devices with the same seed but different delays give exactly equal results at every step; analytic results equal a serial device to 1e-12; logged seeds equal the clone's draws by index.",
    "note": "Trusted: Coq kernel; the hand transcription of execute is tied by the correspondence only. OS scheduling, process start (spawn), pickling of tapes/results and the internals of concurrent.futures / multiprocessing are runtime behaviour outside the proof: they enter as the completion-order parameter and are exercised, not verified. Completion-order perturbation in process pools is best effort (measured in coverage.reordered_steps). The finite-shot streams of the serial path (generator threaded through) and of the parallel path (integer seeds) differ by design of the code; the property does not claim they agree and the check does not require it. jax PRNG keys, the derivative/VJP/JVP entry points, dask/MPI executors are not covered. Quick tier: process pools (spawn; every worker imports pennylane) only with 2 workers, single-batch histories, and only one of the two process backends gets the twin (same seed, different delays) run, alternating with VERIF_SEED; thorough tier: 6 process-pool configurations per run with worker counts from 1-8 rotating with VERIF_SEED, 2-batch histories, twins for all (thread pools: all of 1-8 every run). How the device re-initialises its generator after a parallel batch (default_rng(rng.integers(2**31-1))) is part of the model but its table entry is recorded from the run, so a different deterministic re-seeding would not raise an alarm.",
    "assumptions": ["completion order of the pool is an arbitrary permutation of the dispatched task indices (every task completes once)",
                    "simulate with an integer seed is a pure function of (circuit, seed) (checked by twin runs, not proved)"],
    "trusted": ["hand-written model coq/Disc/SeedExecModel.v tied to /repo by correspondence only",
                "numpy Generator clone used as the oracle for the draws"],
}

G1 = ["RX", "RY", "RZ", "Hadamard", "PauliX", "S", "T"]
G2 = ["CNOT", "CZ", "IsingXX", "CRY"]


def gen_circuit(rng, used):
    while True:
        n = rng.choice([1, 2, 2, 3])
        ops = [["Hadamard", [], [w]] for w in range(n) if rng.random() < 0.7]
        for _ in range(rng.randint(1, 4)):
            if n > 1 and rng.random() < 0.4:
                nm = rng.choice(G2); ws = rng.sample(range(n), 2)
            else:
                nm = rng.choice(G1); ws = [rng.randrange(n)]
            ps = [round(rng.uniform(0.1, 3.0), 6)] if nm in ("RX", "RY", "RZ", "IsingXX", "CRY") else []
            ops.append([nm, ps, ws])
        ops.append(["RY", [round(rng.uniform(0.3, 2.8), 6)], [rng.randrange(n)]])   # makes circuits distinct
        r = rng.random()
        if r < 0.3:
            meas, shots = rng.choice(["expval", "probs", "multi"]), None
        else:
            meas = rng.choice(["sample", "sample", "counts", "probs", "expval", "multi"])
            shots = rng.choice([7, 20, 33, 50])
        spec = {"n": n, "ops": ops, "meas": meas, "shots": shots}
        key = json.dumps(spec, sort_keys=True)
        if key not in used:
            used.add(key)
            return spec


def gen_batches(rng, nb):
    out = []
    for _ in range(nb):
        used = set()
        out.append([gen_circuit(rng, used) for _ in range(rng.choice([2, 3, 4, 5, 6]))])
    if nb > 1 and rng.random() < 0.5:
        out[-1] = out[0]                      # the same batch again later in the history
    return out


def gr(t):
    if t is None:
        return "RNone"
    return f"({t[0]} {gz(t[1])} {gz(t[2])})"


def run(ctx):
    t0 = time.time()
    ctx.coq_props()
    t1 = time.time()
    rng = ctx.rng
    quick = ctx.tier == "quick"
    # configurations: (backend, max_workers, via, slow)
    fast_cfgs = [(None, None, "dev")] + [("serial", 1, "dev")] + [("cf_threadpool", k, "dev") for k in ([1, 2, 4] if quick else range(1, 9))]
    if quick:
        slow_cfgs = [("cf_procpool", 2, "dev"), ("mp_pool", 2, "qp")]
    else:
        # every pool worker imports pennylane (spawn): 6 process-pool configurations per run, worker counts rotate with the seed
        pp, mq, md = [((1, 4, 8), (2, 5), 3), ((2, 6, 7), (1, 8), 4), ((3, 5, 8), (4, 7), 6)][ctx.seed % 3]
        slow_cfgs = [("cf_procpool", k, "dev") for k in pp] + [("mp_pool", k, "qp") for k in mq] + [("mp_pool", md, "dev")]
    jobs, groups = [], []
    reps = 2 if quick else 5

    def add_group(cfg, slow, twins=("A", "B")):
        be, mw, via = cfg
        dev_seed = rng.randrange(1, 10 ** 6)
        batches = gen_batches(rng, (1 if quick else 2) if slow else rng.choice([2, 3]))
        ids = []
        for twin in twins:
            jid = len(jobs)
            jobs.append({"id": jid, "backend": be, "mw": mw, "via": via, "dev_seed": dev_seed, "batches": batches, "slow": slow,
                         "salt": f"{ctx.seed}-{jid}-{twin}-{rng.randrange(10**6)}",
                         "maxd": 0.0 if mw is None else (0.25 if slow else 0.02), "heavyd": 0.0 if mw is None else (2.5 if slow else 0.06), "heavy_first": slow})
            ids.append(jid)
        # serial reference for the analytic results (same device seed, serial path)
        jid = len(jobs)
        jobs.append({"id": jid, "backend": None, "mw": None, "via": "dev", "dev_seed": dev_seed, "batches": batches, "slow": False,
                     "salt": "", "maxd": 0.0, "heavyd": 0.0})
        groups.append({"cfg": cfg, "twins": ids, "ref": jid})

    for k, cfg in enumerate(slow_cfgs):
        # quick tier: only one of the two process backends gets the twin run (alternating with the seed);
        # the other one is still checked for pairing, order and analytic agreement
        add_group(cfg, True, twins=("A",) if quick and k != ctx.seed % 2 else ("A", "B"))
    for _ in range(reps):
        for cfg in fast_cfgs:
            add_group(cfg, False)
    jobs.sort(key=lambda j: not j["slow"])            # slow jobs are started first by the driver
    out = ctx.run_impl("c31_impl.py", {"jobs": jobs, "par": 4 if quick else 6}, timeout=3000)
    t2 = time.time()
    obs = {o["id"]: o for o in out["obs"]}
    jobs_by_id = {j["id"]: j for j in jobs}

    # ------------------------------------------------------------------ Coq correspondence: one case per history
    terms, case_jobs = [], []
    stats = {"steps": 0, "par_steps": 0, "reordered_steps": 0, "multi_worker_steps": 0, "tasks": 0, "per_backend": {}}
    for j in jobs:
        o = obs[j["id"]]
        key = f"{j['backend']}/{j['mw']}/{j['via']}"
        if o.get("driver_error") or any(s["error"] for s in o["steps"]) or len(o["steps"]) != len(j["batches"]):
            ctx.violation("exec-error:" + key + ":" + json.dumps(j["batches"])[:200],
                          {"job": j, "observed": o}, what="executing a batch raised / the driver failed")
            continue
        sid = {}

        def st(fp):
            return sid.setdefault(fp, len(sid))
        t_ints, t_int1, t_reseed, t_sim, steps, sched, exp = [], [], [], [], [], [], []
        st0 = st(o["steps"][0]["state_before"])
        for si, s in enumerate(o["steps"]):
            n, log = s["n"], s["log"]
            stats["steps"] += 1; stats["tasks"] += n
            stats["per_backend"][key] = stats["per_backend"].get(key, 0) + 1
            cid = lambda i: 1000 * si + i
            order = [e["idx"] for e in log]
            if s["par"]:
                stats["par_steps"] += 1
                stats["reordered_steps"] += order != sorted(order)
                stats["multi_worker_steps"] += s["workers_seen"] > 1
                c = s["clone"]
                t_ints.append(f"(({gz(st(s['state_before']))}, {gz(n)}), ({glist(c['seeds'], gz)}, {gz(st(c['st1']))}))")
                t_int1.append(f"({gz(st(c['st1']))}, ({gz(c['z'])}, {gz(st(c['st2']))}))")
                # how the device re-initialises its generator after a parallel batch is recorded from the run (the
                # property only needs it to be deterministic, which the twin comparison checks)
                t_reseed.append(f"({gz(c['z'])}, {gz(st(s['state_after']))})")
                disp = [(cid(e["idx"]), e["rng"] if e["kind"] == "int" else -1) for e in sorted(log, key=lambda e: e["idx"])]
                term = lambda e: ("RSeed", cid(e["idx"]), e["rng"]) if e["kind"] == "int" else None
                sched.append(glist([i for i in order if 0 <= i < 5000], gnat))
            else:
                for e in log:
                    if e["kind"] == "gen":
                        t_sim.append(f"(({gz(cid(e['idx']))}, {gz(st(e['entry']))}), {gz(st(e['exit']))})")
                disp = []
                term = lambda e: ("RGen", cid(e["idx"]), st(e["entry"])) if e["kind"] == "gen" else None
                sched.append("[]")
            res = []
            for i, d in enumerate(s["out_digests"]):
                m = [e for e in log if e["dig"] == d]
                pick = next((e for e in m if e["idx"] == i), m[0] if m else None)
                res.append(term(pick) if pick else None)
            steps.append(f"({gbool(s['par'])}, {glist([cid(i) for i in range(n)], gz)})")
            exp.append(f"({glist(disp, lambda p: f'({gz(p[0])}, {gz(p[1])})')}, Some {glist(res, gr)})")
        tabs = f"{{| t_ints := {glist(t_ints)}; t_int1 := {glist(t_int1)}; t_reseed := {glist(t_reseed)}; t_sim := {glist(t_sim)} |}}"
        terms.append(f"(({tabs}, {gz(st0)}, {glist(steps)}, {glist(sched)}), ({glist(exp)}, {gz(st(o['steps'][-1]['state_after']))}))")
        case_jobs.append(j)
    bad = ctx.coq_eval_cases("hist", "From PLV Require Import Disc.SeedExecModel.", terms, "check_case", chunk=40)
    ctx.notes.append(f"phases: props {t1 - t0:.1f}s, real executions {t2 - t1:.1f}s, Coq evaluation {time.time() - t2:.1f}s")
    for i in bad:
        j = case_jobs[i]
        ctx.violation("corr:" + f"{j['backend']}/{j['mw']}/{j['via']}:" + json.dumps(j["batches"])[:200],
                      {"job": j, "observed": obs[j["id"]]},
                      what="real execute differs from the proved model (pairing of seeds with circuits / result order / generator state)")

    # ------------------------------------------------------------------ direct oracles
    twin_pairs = analytic_cmp = 0
    for g in groups:
        key = "/".join(str(x) for x in g["cfg"])
        os_ = [obs[i] for i in g["twins"]]
        if any(o.get("driver_error") or len(o["steps"]) != len(jobs_by_id[g["twins"][0]]["batches"]) or any(s["error"] for s in o["steps"]) for o in os_ + [obs[g["ref"]]]):
            continue
        for o in os_:
            for si, s in enumerate(o["steps"]):
                if s["par"]:
                    got = {e["idx"]: e["rng"] for e in s["log"]}
                    want = dict(enumerate(s["clone"]["seeds"]))
                    if got != want or len(s["log"]) != s["n"] or any(e["kind"] != "int" for e in s["log"]):
                        ctx.violation(f"seeds:{key}:step{si}:" + json.dumps(jobs_by_id[o['id']]['batches'][si])[:200],
                                      {"config": g["cfg"], "step": si, "seeds_seen_by_simulate": got, "drawn_before_dispatch": want, "log": s["log"]},
                                      what="per-circuit seeds at the simulate entry point are not the integers drawn from the device generator before dispatch, by batch index")
                by_idx = {e["idx"]: e["dig"] for e in s["log"]}
                if [by_idx.get(i) for i in range(s["n"])] != s["out_digests"]:
                    ctx.violation(f"order:{key}:step{si}:" + json.dumps(jobs_by_id[o['id']]['batches'][si])[:200],
                                  {"config": g["cfg"], "step": si, "completion_order": [e["idx"] for e in s["log"]],
                                   "result_digest_by_task": by_idx, "output_digests": s["out_digests"]},
                                  what="results are not returned in batch order")
        a, b = os_[0], os_[-1]
        twin_pairs += len(os_) - 1
        for si, (sa, sb) in enumerate(zip(a["steps"], b["steps"])):
            if sa["out_digests"] != sb["out_digests"]:
                ctx.violation(f"twin:{key}:step{si}:" + json.dumps(jobs_by_id[a['id']]['batches'][si])[:200],
                              {"config": g["cfg"], "step": si, "device_seed": jobs_by_id[a["id"]]["dev_seed"],
                               "completion_order_A": [e["idx"] for e in sa["log"]], "completion_order_B": [e["idx"] for e in sb["log"]],
                               "digests_A": sa["out_digests"], "digests_B": sb["out_digests"]},
                              what="two devices with the same seed / same backend and worker count returned different results for the same sequence of executions (only the injected delays differ)")
        ref = obs[g["ref"]]
        for si, (sa, sr) in enumerate(zip(a["steps"], ref["steps"])):
            for i, (x, y) in enumerate(zip(sa["analytic"], sr["analytic"])):
                if x is None:
                    continue
                analytic_cmp += 1
                fx, fy = flat(x), flat(y)
                if len(fx) != len(fy) or any(abs(p - q) > 1e-12 for p, q in zip(fx, fy)):
                    ctx.violation(f"analytic:{key}:step{si}:{i}:" + json.dumps(jobs_by_id[a['id']]['batches'][si][i])[:200],
                                  {"config": g["cfg"], "circuit": jobs_by_id[a["id"]]["batches"][si][i], "parallel": x, "serial": y},
                                  what="analytic result of the parallel execution differs from serial execution")
    ctx.coverage.update({"evaluations": stats["tasks"], "distinct_nontrivial": stats["reordered_steps"],
                         "rule": "histories of 2-3 batches (2-6 distinct circuits, mixed analytic / finite shots: sample, counts, probs, expval) per configuration, each run on two same-seed devices with different injected delays + a serial reference; non-trivial = parallel steps whose observed completion order differed from batch order",
                         "input_distribution": {**stats, "histories": len(jobs), "twin_pairs": twin_pairs, "analytic_comparisons": analytic_cmp,
                                                "configs": sorted({"/".join(str(x) for x in g["cfg"]) for g in groups})}})
    for j in jobs[:2]:
        o = obs[j["id"]]
        if o["steps"]:
            s = o["steps"][0]
            ctx.sample({"config": [j["backend"], j["mw"], j["via"]], "completion_order": [e["idx"] for e in s["log"]],
                        "seeds": s["clone"]["seeds"], "wall_s": s["wall"]})


def flat(x):
    if isinstance(x, dict):
        return [v for k in sorted(x) for v in flat(x[k])]
    if isinstance(x, list):
        return [v for e in x for v in flat(e)]
    return [float(x)]
