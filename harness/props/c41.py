"""C41 Queuing records exactly the program's operations in order."""
from vlib import *

PID = "C41"
META = {
    "level": "proof",
    "technique": "Coq proofs by structural induction over a program language (stack machine vs lexical denotation of the QueuingManager/AnnotatedQueue) + vm_compute correspondence against the real pennylane queuing",
    "design_ref": "DESIGN.md §3 C41",
    "text": "Kernel-checked theorems (Props/C41.v) for ALL structured programs (new / wrapper constructors / qp.apply / with AnnotatedQueue / stop_recording / try / raise): the queues produced by the stack machine transcribing core/queuing.py equal the lexical denotation (events go to the innermost enclosing With, none under Stop); nothing is recorded in existing contexts under stop_recording; an inner With never touches outer queues; the context stack is restored after every program, exceptions included; every queue is in creation order; operands consumed by a wrapper are absent and the wrapper is last. The model is evaluated inside Coq on the same generated programs that are run on the real AnnotatedQueue / QueuingManager.stop_recording / qp.adjoint / qp.ctrl / qp.pow / @ / scalar * / qp.expval / qp.apply, and every final queue (by object identity), the object count, the raised flag and the restored stack are compared. Outside the model, 27 eager constructors (qp.pow/adjoint lazy=False incl. op**z = I, simplify, exp/evolve, ctrl with custom dispatch, +, -, unary -, **, var, sample) are run flat and inside a nested context and the queues must be exactly [pre, result, post] with the operand absent and the outer queue untouched (a direct test of the property's reading, not a theorem).",
    "note": "Trusted: Coq kernel; the hand transcription of queuing.py and of the queue() methods / wrapper constructors (which operands are removed, in which order; copy semantics of qp.apply for new-style vs old-style operators; ctrl/prod/s_prod flattening; custom ctrl dispatch of RX giving a fresh base) is tied to /repo only by the correspondence run. Single thread only: the RLock in AnnotatedQueue.__enter__/__exit__ and multi-threaded recording are not modelled. Program capture (capture.enabled()) is off. The tidy 'created there, in program order, minus consumed there' reading (record_of) is checked by vm_compute on every generated case and by the python direct oracle, but is not proved for all programs (the general theorems are: machine = lexical event denotation, frame/isolation, stack restoration, creation-order invariant, per-constructor membership). Only the wrapper entry points listed above with lazy defaults (adjoint, pow lazy; @ and scalar* eager) are exercised; queue metadata (kwargs) is not modelled. The stack is modelled with its top at the head of a list.",
    "assumptions": ["single-threaded recording (RLock not modelled)",
                    "program capture disabled",
                    "objects are referred to by creation number; ill-typed statements (operator wrapper applied to a measurement, no object yet) are skipped by convention in model and driver"],
    "trusted": ["hand-written model coq/Disc/QueuingModel.v tied to /repo by correspondence only"],
}

KINDS = ["adj", "pow", "ctrl", "sprod", "prod", "expval"]
GK = {"adj": "KAdj", "pow": "KPow", "ctrl": "KCtrl", "sprod": "KSProd", "prod": "KProd", "expval": "KMeas"}


# ------------------------------------------------------------------ python mirror of the model (debug + oracle)
def is2(d):
    return True if d[0] == "base" else (d[2] if d[0] == "wrap" else False)


def ops_of(d):
    return d[3] if d[0] == "wrap" else []


def is_kind(d, k):
    return d[0] == "wrap" and d[1] == k


def ctrl_plan(heap, fuel, top, b):
    """removes performed by qp.ctrl(b) and the descriptor of the result (None = out of fuel)"""
    if fuel == 0:
        return None
    d = heap[b]
    n2 = is2(d)
    if top and d[0] == "base" and d[1]:
        return [b], ("wrap", "ctrl", True, [])          # custom dispatch: CRX with a fresh base
    if is_kind(d, "ctrl"):
        if not d[3]:
            return [b], ("wrap", "ctrl", n2, [])
        r = ctrl_plan(heap, fuel - 1, False, d[3][0])
        if r is None:
            return None
        return [b] + r[0], r[1]
    return [b, b], ("wrap", "ctrl", n2, [b])


def plan(heap, k, a, b):
    """(pre-removes, descriptor, post-removes) or None = statement skipped"""
    da = heap[a]
    if is_kind(da, "expval"):
        return None
    if k in ("adj", "pow"):
        return [a], ("wrap", k, is2(da), [a]), []
    if k == "expval":
        return [a], ("wrap", k, False, [a]), []
    if k == "ctrl":
        r = ctrl_plan(heap, len(heap) + 1, True, a)
        if r is None:
            return [], ("err",), []
        return r[0], r[1], []
    if k == "sprod":
        if is_kind(da, "sprod"):
            return list(da[3]), ("wrap", k, False, list(da[3])), [a]
        return [a], ("wrap", k, False, [a]), []
    if k == "prod":
        db = heap[b]
        if is_kind(db, "expval"):
            return None
        fl = (list(da[3]) if is_kind(da, "prod") else [a]) + (list(db[3]) if is_kind(db, "prod") else [b])
        return fl, ("wrap", k, False, fl), [a, b]
    raise ValueError(k)


def copy_desc(d):
    if d[0] == "wrap" and not d[2]:
        return ("wrap", d[1], False, [])
    return d


def q_append(q, x):
    return q if x in q else q + [x]


def q_remove(q, x):
    return [y for y in q if y != x]


class Raised(Exception):
    pass


def machine(prog):
    """semantics 1: explicit context stack (top at the end, like the python list)"""
    st = {"heap": [], "queues": [], "stack": []}

    def act(removes_pre, removes_post):
        if st["stack"]:
            c = st["stack"][-1]
            q = st["queues"][c]
            for x in removes_pre:
                q = q_remove(q, x)
            q = q_append(q, len(st["heap"]) - 1)
            for x in removes_post:
                q = q_remove(q, x)
            st["queues"][c] = q

    def run(body):
        for s in body:
            stmt(s)

    def stmt(s):
        t = s[0]
        h = st["heap"]
        if t == "new":
            h.append([("base", False), ("base", True), ("wrap", "expval", False, [])][s[1]])
            act([], [])
        elif t == "wrap":
            if not h:
                return
            p = plan(h, s[1], s[2] % len(h), s[3] % len(h))
            if p is None:
                return
            h.append(p[1])
            act(p[0], p[2])
        elif t == "apply":
            if not h:
                return
            if not st["stack"]:
                raise Raised
            d = copy_desc(h[s[1] % len(h)])
            h.append(d)
            act(ops_of(d), [])
        elif t == "with":
            st["queues"].append([])
            st["stack"].append(len(st["queues"]) - 1)
            try:
                run(s[1])
            finally:
                st["stack"].pop()
        elif t == "stop":
            saved = st["stack"]
            st["stack"] = []
            try:
                run(s[1])
            finally:
                st["stack"] = saved
        elif t == "try":
            try:
                run(s[1])
            except Raised:
                pass
        elif t == "raise":
            raise Raised

    raised = False
    try:
        run(prog)
    except Raised:
        raised = True
    return {"queues": st["queues"], "nobj": len(st["heap"]), "raised": raised, "stack_ok": st["stack"] == []}, st["heap"]


def denotation(prog):
    """semantics 2 (the property as stated): every creation/consumption event is attributed to the
    lexically innermost enclosing `with` (none under `stop`); a context's record is its created objects
    in program order minus those consumed there afterwards."""
    heap, created, consumed = [], [], []   # per context: created ids, consumed ids

    def ev(cur, pre, post):
        if cur is not None:
            new = len(heap) - 1
            consumed[cur].extend(pre)
            created[cur].append(new)
            consumed[cur].extend(post)

    def run(body, cur):
        for s in body:
            t = s[0]
            if t == "new":
                heap.append([("base", False), ("base", True), ("wrap", "expval", False, [])][s[1]])
                ev(cur, [], [])
            elif t == "wrap":
                if not heap:
                    continue
                p = plan(heap, s[1], s[2] % len(heap), s[3] % len(heap))
                if p is None:
                    continue
                heap.append(p[1])
                ev(cur, p[0], p[2])
            elif t == "apply":
                if not heap:
                    continue
                if cur is None:
                    return True
                d = copy_desc(heap[s[1] % len(heap)])
                heap.append(d)
                ev(cur, ops_of(d), [])
            elif t == "with":
                created.append([]); consumed.append([])
                if run(s[1], len(created) - 1):
                    return True
            elif t == "stop":
                if run(s[1], None):
                    return True
            elif t == "try":
                run(s[1], cur)
            elif t == "raise":
                return True
        return False

    raised = run(prog, None)
    queues = [[x for x in cr if x not in co] for cr, co in zip(created, consumed)]
    return {"queues": queues, "nobj": len(heap), "raised": bool(raised), "stack_ok": True}


# ------------------------------------------------------------------ generator
def gen_body(rng, depth, size, nobj_hint):
    body = []
    n = rng.randint(0, size)
    for _ in range(n):
        r = rng.random()
        if depth > 0 and rng.random() < 0.07:
            # cross-context motif: create here, wrap/apply in an inner context, wrap/apply again here
            # (exercises flattening removing grand-operands, shared bases of shallow copies)
            k1 = rng.choice(["ctrl", "prod", "sprod", "adj", "pow", "expval"])
            inner = [["wrap", k1, -1, -2]] + ([["apply", -1]] if rng.random() < 0.4 else [])
            body += [["new", rng.choice([0, 0, 1])], ["new", rng.choice([0, 1])],
                     [rng.choice(["with", "with", "stop"]), inner]]
            body.append(rng.choice([["wrap", rng.choice(["ctrl", "prod", "sprod", "adj"]), -1, -2],
                                    ["apply", -1], ["apply", -2]]))
            continue
        if r < 0.30:
            body.append(["new", rng.choice([0, 0, 1, 1, 2])])
        elif r < 0.58:
            k = rng.choice(["adj", "pow", "ctrl", "ctrl", "sprod", "sprod", "prod", "prod", "prod", "expval"])
            body.append(["wrap", k, gen_ref(rng), gen_ref(rng)])
        elif r < 0.70:
            body.append(["apply", gen_ref(rng)])
        elif r < 0.82 and depth > 0:
            body.append(["with", gen_body(rng, depth - 1, size, nobj_hint)])
        elif r < 0.89 and depth > 0:
            body.append(["stop", gen_body(rng, depth - 1, size, nobj_hint)])
        elif r < 0.95 and depth > 0:
            body.append(["try", gen_body(rng, depth - 1, size, nobj_hint)])
        elif r < 0.98:
            if depth > 0 and rng.random() < 0.65:   # mostly caught nearby so that the program goes on
                wrapk = rng.choice(["with", "stop", "try"])
                inner = gen_body(rng, depth - 1, 3, nobj_hint) + [["raise"]] + gen_body(rng, 0, 2, nobj_hint)
                body.append(["try", [[wrapk, inner]]])
            else:
                body.append(["raise"])
        else:
            body.append(["new", 0])
    return body


def gen_ref(rng):
    # negative numbers = "k-th most recent object" (r mod n), which makes chains of wrappers likely
    return rng.choice([-1, -1, -1, -2, -2, -3, -4, rng.randint(0, 12)])


def gen_prog(rng, big=False):
    depth = rng.choice([2, 3, 4]) if not big else 5
    body = gen_body(rng, depth, 7 if not big else 10, 0)
    if rng.random() < 0.8:
        body = [["with", body]]
        if rng.random() < 0.3:
            body = [["new", rng.choice([0, 1])]] + body + [["with", gen_body(rng, 2, 5, 0)]]
    return body


# ------------------------------------------------------------------ Gallina printers
def g_stmt(s):
    t = s[0]
    if t == "new":
        return f"(New {gz(s[1])})"
    if t == "wrap":
        return f"(Wrap {GK[s[1]]} {gz(s[2])} {gz(s[3])})"
    if t == "apply":
        return f"(Apply {gz(s[1])})"
    if t == "with":
        return f"(With {g_body(s[1])})"
    if t == "stop":
        return f"(Stop {g_body(s[1])})"
    if t == "try":
        return f"(Try {g_body(s[1])})"
    if t == "raise":
        return "Raise"
    raise ValueError(t)


def g_body(b):
    out = "Skip"
    for s in reversed(b):
        out = f"(Seq {g_stmt(s)} {out})"
    return out


def g_obs(o):
    if "crash" in o:
        return "None"
    return (f"(Some ({glist(o['queues'], lambda q: glist(q, gz))}, {gz(o['nobj'])}, "
            f"{gbool(o['raised'])}, {gbool(o['stack_ok'])}))")


def stats(prog, hist, depth=0, under_stop=False):
    for s in prog:
        hist[s[0]] = hist.get(s[0], 0) + 1
        if s[0] in ("with", "stop", "try"):
            if s[0] == "with" and depth >= 1:
                hist["nested_with"] = hist.get("nested_with", 0) + 1
            if s[0] == "with" and under_stop:
                hist["with_under_stop"] = hist.get("with_under_stop", 0) + 1
            stats(s[1], hist, depth + (s[0] == "with"), under_stop or s[0] == "stop")


CORPUS = [
    [["with", [["new", 0], ["new", 1], ["wrap", "adj", 0, 0], ["wrap", "ctrl", 1, 0], ["wrap", "pow", 2, 0],
               ["wrap", "prod", 3, 4], ["wrap", "sprod", 5, 0], ["apply", 0]]]],
    [["with", [["new", 0], ["stop", [["new", 0], ["wrap", "adj", 0, 0]]], ["new", 1]]]],
    [["with", [["new", 0], ["with", [["new", 1], ["wrap", "adj", 0, 0]]], ["apply", 2], ["wrap", "prod", 0, 1]]]],
    [["with", [["new", 0], ["try", [["with", [["new", 0], ["raise"], ["new", 0]]]]], ["new", 0]]]],
    [["with", [["new", 0], ["try", [["stop", [["new", 0], ["apply", 0], ["new", 0]]]]], ["new", 0]]]],
    [["new", 0], ["try", [["apply", 0]]], ["with", [["apply", 0], ["apply", 0]]]],
    [["with", [["new", 0], ["with", [["wrap", "ctrl", 0, 0]]], ["wrap", "ctrl", 1, 0]]]],
    [["with", [["new", 0], ["new", 0], ["with", [["wrap", "prod", 0, 1]]], ["new", 0], ["wrap", "prod", 2, 3]]]],
    [["with", [["new", 0], ["with", [["wrap", "sprod", 0, 0]]], ["wrap", "sprod", 1, 0]]]],
    [["with", [["new", 1], ["with", [["wrap", "ctrl", 0, 0]]], ["wrap", "ctrl", 1, 0]]]],
    [["with", [["new", 0], ["wrap", "expval", 0, 0], ["new", 2], ["wrap", "adj", 1, 0], ["apply", 1]]]],
    [["with", [["stop", [["with", [["new", 0], ["stop", [["new", 0]]], ["try", [["raise"]]], ["new", 1]]]]], ["new", 0]]]],
    [["with", [["new", 0], ["wrap", "prod", 0, 0], ["apply", 1], ["wrap", "prod", 1, 2], ["wrap", "ctrl", 3, 0],
               ["apply", 4], ["wrap", "ctrl", 5, 0]]]],
    [["try", [["with", [["new", 0], ["with", [["new", 0], ["stop", [["raise"]]]]]]]]], ["with", [["new", 0]]]],
]


def run(ctx):
    ctx.coq_props()
    n = 700 if ctx.tier == "quick" else 6000
    rng = ctx.rng
    cases = [c for c in CORPUS]
    while len(cases) < n:
        cases.append(gen_prog(rng, big=(ctx.tier != "quick" and rng.random() < 0.2)))
    obs = ctx.run_impl("c41_impl.py", {"cases": cases})
    terms = [f"({g_body(c)}, {g_obs(o)})" for c, o in zip(cases, obs)]
    bad = ctx.coq_eval_cases("cases", "From PLV Require Import Disc.QueuingModel.", terms, "check_case", chunk=100)
    hist = {"raised_toplevel": 0, "nonempty_queue_cases": 0, "consumed_cases": 0}
    distinct = set()
    for c, o in zip(cases, obs):
        key = json.dumps(c)
        stats(c, hist)
        if "crash" in o:
            ctx.violation("crash:" + key, {"case": c, "observed": o},
                          what="pennylane raised an exception outside the modelled behaviour")
            continue
        hist["raised_toplevel"] += o["raised"]
        if any(o["queues"]):
            hist["nonempty_queue_cases"] += 1
        d = denotation(c)
        ncreated = o["nobj"]
        if sum(len(q) for q in o["queues"]) < ncreated and len(o["queues"]) > 0:
            hist["consumed_cases"] += 1
        if len(o["queues"]) > 1 and sum(1 for q in o["queues"] if q) > 1:
            distinct.add(key)
        if not o["stack_ok"]:
            ctx.violation("direct-stack:" + key, {"case": c, "observed": o},
                          what="context stack not restored after the program")
        elif d != o:
            ctx.violation("direct:" + key, {"case": c, "observed": o, "denotation": d},
                          what="recorded queues differ from the structural denotation (innermost context, program order, minus consumed operands)")
    for i in bad:
        c, o = cases[i], obs[i]
        ctx.violation("corr:" + json.dumps(c), {"case": c, "implementation": o, "model": machine(c)[0]},
                      found_input=True, what="implementation differs from the proved stack-machine model of queuing")
    # eager constructors (not among the proved wrapper kinds; a direct check of the property's reading)
    eg = ctx.run_impl("c41_impl.py", {"eager": True})
    for name in eg["names"]:
        flat, nest = eg["obs"][name]
        for tag, o, exp_in, exp_out in (("flat", flat, ["o0", "pre", "res", "post"], ["o0", "pre", "res", "post"]),
                                        ("nested", nest, ["pre", "res", "post"], ["o0"])):
            if "crash" in o:
                ctx.violation(f"eager-crash:{name}:{tag}", {"constructor": name, "observed": o},
                              what="eager constructor raised inside a recording context")
            elif o["inner"] != exp_in or o["outer"] != exp_out or not o["stack_ok"]:
                ctx.violation(f"eager:{name}:{tag}", {"constructor": name, "observed": o,
                                                      "expected_inner": exp_in, "expected_outer": exp_out},
                              what="an eager constructor (lazy=False / simplify / arithmetic dunder) left its consumed operand in the queue, "
                                   "dropped its result, or touched the outer context")
    hist["eager_constructors"] = 2 * len(eg["names"])
    ctx.coverage.update({"evaluations": len(cases) + 2 * len(eg["names"]), "distinct_nontrivial": len(distinct),
                         "rule": "hand corpus (cross-context consumption, flattening, exceptions through with/stop) + seeded random structured programs (depth<=4, <=7 statements per block, references mostly to recent objects); non-trivial = at least two contexts with a non-empty final queue",
                         "input_distribution": hist})
    for c, o in list(zip(cases, obs))[:3]:
        ctx.sample({"case": c, "observed": o})
