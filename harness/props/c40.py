"""C40 Circuit parameter bookkeeping is consistent (QuantumScript / QuantumTape)."""
import zlib
from vlib import *

PID = "C40"
META = {
    "level": "proof",
    "technique": "Coq proofs (induction over operator lists) about a Gallina transcription of par_info / trainable_params / "
                 "get_parameters / bind_new_parameters / copy / decompose+re-derive, tied to /repo by vm_compute "
                 "correspondence on random copy/bind/expand/set-trainable histories over real QuantumScript/QuantumTape objects",
    "design_ref": "DESIGN.md §3 C40",
    "text": "Kernel-checked theorems (Props/C40.v), for ALL circuits/indices/histories of the model: par_info entry k points at "
            "the operator/offset holding parameter k (and has one entry per parameter, no duplicates); binding the current "
            "values back gives the identical circuit; bind_new_parameters replaces exactly the addressed positions "
            "(params[k] goes to sorted(indices)[k]; every other position, all names/wires, and the trainable indices are "
            "untouched); every history step leaves all other tapes of the store unchanged (only the trainable_params setter "
            "mutates, and only its own tape's trainable view); after a gradient expand (decompose + re-derive) the trainable "
            "set is exactly the set of new positions that depend on a previously trainable position (position map given by "
            "the rule). The model is executed inside Coq on the same generated histories as the real objects and all "
            "observables (operators with data+requires_grad flags+wires, measurements, trainable_params, par_info, the four "
            "get_parameters variants, values reached through par_info) are compared exactly (dyadic values).",
    "note": "Trusted: Coq kernel; hand transcription of core/qscript.py tied only by the correspondence run. Operator-level "
            "bind_new_parameters (ops/functions/bind_new_parameters.py) is modelled as 'same name, same wires, new data' and "
            "exercised for plain, controlled, Adjoint/Pow/ctrl, SProd, Sum, Prod, LinearCombination operators with scalar "
            "data. Decomposition rules are an oracle: probed from the real expansion function per (operator name, "
            "requires_grad pattern) as affine maps; which rule is chosen is not C40's subject. 'Trainable preserved under "
            "expansion' is proved for trainability carried by requires_grad and re-derived as the gradient expand transforms "
            "do (hadamard_grad.expand_transform); plain decompose (tape.copy(operations=...)) RESETS trainable_params to all "
            "parameters -- transcribed as such and recorded as theorem decompose_alone_resets_trainable_refuted. Quirks "
            "transcribed, not alarmed on: setter accepts i == num_params; bind assigns params[k] to sorted(indices)[k]; "
            "negative indices follow Python indexing. Not modelled: array-valued parameters, the split_to_single_terms "
            "branch of the expand transform (trainable observable data; such steps are skipped), shots, graph/batch-size "
            "caches, in-place mutation of the list returned by tape.trainable_params (copies alias that list).",
    "assumptions": ["parameters are scalar tensors with exact dyadic values (pennylane.numpy, requires_grad flag)",
                    "decomposition rules are affine in the parameters with dyadic coefficients (others are skipped and counted)",
                    "mid-circuit measurements, state preparations and array-valued data are outside the model"],
    "trusted": ["hand-written model coq/Disc/TapeParamsModel.v tied to /repo by correspondence only",
                "rule probing in harness/impl/c40_impl.py (single-operator tapes through the same expansion function)"],
}

# (name, n_params, n_wires)
POOL_P = [("RX", 1, 1), ("RY", 1, 1), ("RZ", 1, 1), ("PhaseShift", 1, 1), ("U1", 1, 1), ("Rot", 3, 1), ("U3", 3, 1),
          ("CRot", 3, 2), ("CRY", 1, 2), ("CRZ", 1, 2), ("CRX", 1, 2), ("IsingXX", 1, 2), ("IsingZZ", 1, 2),
          ("IsingYY", 1, 2), ("ControlledPhaseShift", 1, 2), ("MultiRZ", 1, 3), ("SingleExcitation", 1, 2),
          ("PSWAP", 1, 2), ("IsingXY", 1, 2), ("Adjoint(Rot)", 3, 1), ("C(RY)", 1, 3), ("Pow(RX)", 1, 1),
          ("GlobalPhase", 1, 0)]
POOL_0 = [("CNOT", 0, 2), ("Hadamard", 0, 1), ("PauliX", 0, 1), ("CZ", 0, 2), ("SWAP", 0, 2)]
HEAVY = [("Rot", 3, 1), ("U3", 3, 1), ("CRot", 3, 2), ("Adjoint(Rot)", 3, 1)]
PNAME = {"X": "PauliX", "Y": "PauliY", "Z": "PauliZ"}
MPCLS = {"expval": "ExpectationMP", "var": "VarianceMP", "sampleobs": "SampleMP", "probs": "ProbabilityMP",
         "sample": "SampleMP", "state": "StateMP"}
ST = {"ok": 0, "err": 1, "same": 2, "skip": 3}


def code(name):
    return zlib.crc32(name.encode()) & 0x7FFFFFFF


def gen_par(rng, p_train=0.5):
    k = rng.randint(-40, 40)
    d = rng.choice([1, 2, 4, 8])
    from fractions import Fraction
    f = Fraction(k, d)
    return [f.numerator, f.denominator, rng.random() < p_train]


def gen_op(rng, p_train=0.5):
    r = rng.random()
    name, k, nw = rng.choice(POOL_0) if r < 0.2 else (rng.choice(HEAVY) if r < 0.5 else rng.choice(POOL_P))
    return {"n": name, "v": [gen_par(rng, p_train) for _ in range(k)], "w": rng.sample(range(4), nw)}


def gen_obs(rng, p_train):
    r = rng.random()
    if r < 0.35:
        return {"t": "P", "p": rng.choice("XYZ"), "w": [rng.randrange(4)]}
    if r < 0.55:
        return {"t": "sprod", "c": [gen_par(rng, p_train)], "p": rng.choice("XYZ"), "w": [rng.randrange(4)]}
    t = rng.choice(["lc", "sum", "prod", "nest"])
    ws = rng.sample(range(4), 2)
    return {"t": t, "c": [gen_par(rng, p_train), gen_par(rng, p_train)],
            "ps": [[rng.choice("XYZ"), ws[0]], [rng.choice("XYZ"), ws[1]]]}


def gen_meas(rng, p_train):
    out = []
    for _ in range(rng.choice([0, 1, 1, 2, 2, 3])):
        r = rng.random()
        if r < 0.6:
            out.append({"k": rng.choice(["expval", "expval", "var", "sampleobs"]), "obs": gen_obs(rng, p_train)})
        elif r < 0.8:
            out.append({"k": "probs", "w": rng.sample(range(4), rng.randint(1, 2))})
        elif r < 0.95:
            out.append({"k": "sample", "w": [rng.randrange(4)]})
        else:
            out.append({"k": "state"})
    return out


def obs_slot(o):
    """(name, data, wires) the observable is expected to have"""
    if o["t"] == "P":
        return {"n": PNAME[o["p"]], "d": [], "w": o["w"]}
    if o["t"] == "sprod":
        return {"n": "SProd", "d": o["c"], "w": o["w"]}
    nm = {"lc": "LinearCombination", "sum": "Sum", "prod": "Prod", "nest": "SProd"}[o["t"]]
    return {"n": nm, "d": o["c"], "w": [o["ps"][0][1], o["ps"][1][1]]}


def n_params_spec(ops, meas):
    return sum(len(s["v"]) for s in ops) + sum(len(obs_slot(m["obs"])["d"]) for m in meas if m.get("obs"))


def gen_fracs(rng, lo=0, hi=5):
    return [rng.randrange(1000) for _ in range(rng.randint(lo, hi))]


def gen_step(rng, j, n0):
    """j = number of tapes that may exist; n0 = parameter count of the initial tape (for raw index streams)"""
    i = rng.randrange(j) if rng.random() < 0.8 else rng.randrange(j + 1)
    r = rng.random()
    if r < 0.2:
        s = {"op": "copy", "i": i, "co": rng.random() < 0.4, "ou": None, "mu": None, "tu": None, "shots": None,
             "dunder": False}
        q = rng.random()
        if q < 0.25:
            pass
        elif q < 0.32:
            s["dunder"] = True
        elif q < 0.55:
            s["ou"] = rng.choice([["none"], ["drop", rng.randrange(12)], ["append", gen_op(rng)], ["rev"]])
        elif q < 0.68:
            s["mu"] = gen_meas(rng, 0.3)
        elif q < 0.88:
            s["tu"] = rng.choice([["set", None], ["frac", gen_fracs(rng)], ["frac", sorted(set(gen_fracs(rng)))],
                                  ["set", [n0 + 1]], ["set", [-1, 0]]])
        else:
            s["shots"] = rng.choice([10, 100])
        if s["ou"] is not None and rng.random() < 0.3:
            s["tu"] = ["frac", sorted(set(gen_fracs(rng)))]
        return s
    if r < 0.5:
        q = rng.random()
        if q < 0.2:
            return {"op": "bind", "i": i, "mode": "id", "rs": None if rng.random() < 0.5 else gen_fracs(rng, 0, 8)}
        if q < 0.85:
            rs = gen_fracs(rng, 0, 6)
            if rng.random() < 0.6:
                rs = sorted(set(rs))
            return {"op": "bind", "i": i, "mode": "frac", "rs": rs, "ps": [gen_par(rng) for _ in rs]}
        # malformed stream: negative, out of range, length mismatch, duplicates
        idx = [rng.choice([-1, -2, 0, 1, n0 - 1, n0, n0 + 3, -n0, -n0 - 1, rng.randrange(max(n0, 1))])
               for _ in range(rng.randint(0, 4))]
        m = len(idx) if rng.random() < 0.7 else max(0, len(idx) + rng.choice([-1, 1]))
        return {"op": "bind", "i": i, "mode": "raw", "idx": idx, "ps": [gen_par(rng) for _ in range(m)]}
    if r < 0.7:
        if rng.random() < 0.8:
            return {"op": "settrain", "i": i, "mode": "frac", "rs": gen_fracs(rng, 0, 6)}
        l = [rng.choice([0, 1, n0 - 1, n0 + 1, n0 + 2, -1, "bad", rng.randrange(max(n0, 1))]) for _ in range(rng.randint(1, 4))]
        return {"op": "settrain", "i": i, "mode": "raw", "l": l}
    if r < 0.87:
        return {"op": "decomp", "i": i, "fn": rng.choice(["xdev", "xdev", "xt"])}
    return {"op": "gradexp", "i": i}


def gen_case(rng, big):
    p_train = rng.choice([0.2, 0.5, 0.8])
    nops = rng.randint(0, 9 if big else 6)
    ops = [gen_op(rng, p_train) for _ in range(nops)]
    meas = gen_meas(rng, rng.choice([0.0, 0.0, 0.4]))
    n0 = n_params_spec(ops, meas)
    cls = rng.choice(["qs", "qs", "tape", "tape_ctx"])
    r = rng.random()
    if r < 0.5 or n0 == 0:
        train = None
    elif cls == "tape_ctx" or r < 0.9:
        train = sorted(rng.sample(range(n0), rng.randint(0, n0)))
    else:
        train = rng.choice([[n0 - 1, 0], [0, 0], [n0 + 2], [-1]])
    steps, j = [], 1
    for _ in range(rng.randint(2, 9 if big else 6)):
        s = gen_step(rng, j, n0)
        steps.append(s)
        if s["op"] != "settrain":
            j += 1
    return {"cls": cls, "ops": ops, "meas": meas, "train": train, "shots": None, "steps": steps}


CORPUS = [
    # bind with unsorted indices, off-by-one setter value, both decompositions, gradient expand of a bound tape
    {"cls": "qs", "shots": None, "train": [1, 3],
     "ops": [{"n": "RX", "v": [[1, 2, True]], "w": [0]}, {"n": "Rot", "v": [[1, 1, False], [3, 4, True], [5, 8, False]], "w": [1]},
             {"n": "CNOT", "v": [], "w": [0, 1]}, {"n": "U3", "v": [[1, 1, False], [3, 4, True], [5, 8, False]], "w": [1]},
             {"n": "CRot", "v": [[1, 1, True], [3, 4, False], [5, 8, False]], "w": [1, 0]}],
     "meas": [{"k": "probs", "w": [0]},
              {"k": "expval", "obs": {"t": "lc", "c": [[1, 2, False], [7, 4, False]], "ps": [["Z", 1], ["X", 0]]}}],
     "steps": [{"op": "copy", "i": 0, "co": False, "ou": None, "mu": None, "tu": None, "shots": None, "dunder": False},
               {"op": "bind", "i": 0, "mode": "raw", "ps": [[9, 1, True], [11, 2, False]], "idx": [10, 0]},
               {"op": "settrain", "i": 1, "mode": "raw", "l": [2, 2, 0, 11]},
               {"op": "decomp", "i": 0, "fn": "xdev"}, {"op": "decomp", "i": 0, "fn": "xt"},
               {"op": "gradexp", "i": 2}, {"op": "gradexp", "i": 3},
               {"op": "copy", "i": 0, "co": False, "ou": ["drop", 1], "mu": None, "tu": None, "shots": None, "dunder": False},
               {"op": "bind", "i": 0, "mode": "id", "rs": None}]},
    # empty circuit
    {"cls": "tape", "shots": None, "train": None, "ops": [], "meas": [],
     "steps": [{"op": "bind", "i": 0, "mode": "raw", "ps": [], "idx": []},
               {"op": "settrain", "i": 0, "mode": "raw", "l": [1]},
               {"op": "bind", "i": 0, "mode": "raw", "ps": [[1, 1, True]], "idx": [0]}]},
    # trainable observable data only; duplicates and negative indices in bind
    {"cls": "tape_ctx", "shots": None, "train": [0, 2],
     "ops": [{"n": "Hadamard", "v": [], "w": [0]}, {"n": "CRY", "v": [[3, 8, True]], "w": [0, 1]}],
     "meas": [{"k": "expval", "obs": {"t": "nest", "c": [[2, 1, True], [3, 1, False]], "ps": [["Z", 0], ["X", 1]]}},
              {"k": "var", "obs": {"t": "sprod", "c": [[5, 4, True]], "p": "Y", "w": [2]}}],
     "steps": [{"op": "bind", "i": 0, "mode": "raw", "ps": [[1, 8, False], [2, 8, True], [3, 8, False]], "idx": [-1, 3, 1]},
               {"op": "bind", "i": 0, "mode": "raw", "ps": [[1, 8, False], [2, 8, True]], "idx": [2, 2]},
               {"op": "gradexp", "i": 0}, {"op": "decomp", "i": 1, "fn": "xdev"},
               {"op": "copy", "i": 0, "co": True, "ou": None, "mu": [{"k": "probs", "w": [0, 1]}], "tu": None, "shots": None,
                "dunder": False}]},
]


# ------------------------------------------------------------------ Gallina printers
def g_par(p):
    return f"(mk_par ({p[0]} # {p[1]})%Q {gbool(p[2])})"


def g_slot(s, dkey="d"):
    return f"(mkSlot {gz(code(s['n']))} {glist(s[dkey], g_par)} {glist(s['w'], gz)})"


def g_mp_spec(m):
    o = "None" if not m.get("obs") else f"(Some {g_slot(obs_slot(m['obs']))})"
    return f"(mkMp {gz(code(MPCLS[m['k']]))} {o})"


def g_train(tr):
    return gopt(tr, lambda l: glist(l, gz))


def g_rules(rules):
    def g_q(q):
        return f"({q[0]} # {q[1]})%Q"

    def g_orule(e):
        prs = glist(e["ps"], lambda pr: f"(mk_prule {g_q(pr[0])} {glist(pr[1], g_q)})")
        return f"(mk_orule {gz(code(e['n']))} {prs} {glist(e['w'], gz)})"

    def g_r(r):
        body = "None" if r["r"] is None else f"(Some {glist(r['r'], g_orule)})"
        return f"(mk_rule {gz(code(r['n']))} {glist(r['f'], gbool)} {body})"
    return glist(rules, g_r)


def g_step(s, o):
    """model step from the generated step `s` and the driver's report `o` (concrete indices, rule oracle)"""
    st = o["st"]
    i = gnat(o["i"])
    if s["op"] == "copy":
        if st == "skip":
            return "SNop"
        ou = s["ou"]
        gou = ("OKeep" if ou is None else "ONoneKey" if ou[0] == "none" else f"(ODrop {gz(ou[1])})" if ou[0] == "drop"
               else f"(OAppend {g_slot(ou[1], 'v')})" if ou[0] == "append" else "ORev")
        gmu = "MKeep" if s["mu"] is None else f"(MReplace {glist(s['mu'], g_mp_spec)})"
        gtu = "TKeep" if s["tu"] is None else f"(TSet {g_train(o['tu'])})"
        return f"(SCopy {i} {gou} {gmu} {gtu})"
    if s["op"] == "bind":
        if st == "skip":
            return "SNop"
        return f"(SBind {i} {glist(o['ps'], g_par)} {glist(o['idx'], gz)})"
    if s["op"] == "settrain":
        if st == "skip":
            return "SNop"
        return f"(SSetTrain {i} {glist(o['l'], lambda x: 'TBad' if x == 'bad' else f'(TI {gz(x)})')})"
    if "rules" not in o:          # out-of-range tape index, unsupported rule, or the un-modelled split branch
        return "SNop" if s["op"] == "decomp" else f"(SGradExp {i} [])" if o.get("why") == "obs" else "SNop"
    return f"({'SDecomp' if s['op'] == 'decomp' else 'SGradExp'} {i} {g_rules(o['rules'])})"


def g_oslot(s):
    return f"(mk_oslot {gz(code(s['n']))} {glist(s['d'], g_par)} {glist(s['w'], gz)})"


def g_obs(t):
    gl = lambda l: glist(l, g_par)
    go = lambda l: "None" if l == "ERR" else f"(Some {gl(l)})"
    ms = glist(t["meas"], lambda m: f"(mk_omp {gz(code(m['k']))} {gopt(m['obs'], g_oslot)})")
    return (f"(mk_obs {glist(t['ops'], g_oslot)} {ms} {glist(t['train'], gz)} "
            f"{glist(t['pinfo'], lambda e: f'({gz(e[0])}, {gz(e[1])})')} {go(t['gTF'])} {go(t['gTT'])} "
            f"{gl(t['gFF'])} {gl(t['gFT'])} {glist(t['via'], lambda p: f'(Some {g_par(p)})')})")


def g_case(c, o):
    t0 = (f"(mkTape {glist(c['ops'], lambda s: g_slot(s, 'v'))} {glist(c['meas'], g_mp_spec)} {g_train(c['train'])})")
    steps = glist([g_step(s, so) for s, so in zip(c["steps"], o["steps"])])
    codes = glist([ST[so["st"]] for so in o["steps"]], gz)
    return f"(mk_case {t0} {steps} {codes} {glist(o['final'], g_obs)})"


# ------------------------------------------------------------------ the property evaluated directly on the observations
def direct_oracle(c, o):
    """returns a list of human-readable failures"""
    bad = []
    for k, t in enumerate(o["final"]):
        n = len(t["gFF"])
        if t["via"] != t["gFF"] or len(t["pinfo"]) != n:
            bad.append(f"tape {k}: par_info entries do not point at the parameters")
        if all(-n <= i < n for i in t["train"]):
            if t["gTF"] != [t["gFF"][i] for i in t["train"]]:
                bad.append(f"tape {k}: get_parameters() differs from the trainable selection")
        if t["num_params"] != len(t["train"]):
            bad.append(f"tape {k}: num_params")
    # replay the store to know which tape each step produced
    size = 1
    snaps = None
    for j, (s, so) in enumerate(zip(c["steps"], o["steps"])):
        if not so["indep"]:
            bad.append(f"step {j} ({s['op']}): another tape of the store changed")
        if so.get("cls_ok") is False or so.get("fresh") is False:
            bad.append(f"step {j} ({s['op']}): result is not a fresh tape of the same class")
        if so["st"] == "ok" and s["op"] != "settrain":
            new = o["final"][size]
            src = o["final"][so["i"]]     # operators/parameters of the source never change afterwards (checked by indep)
            if s["op"] == "bind":
                n = len(src["gFF"])
                exp = list(src["gFF"])
                for kk, ix in enumerate(sorted(so["idx"])):
                    exp[ix % n] = so["ps"][kk]
                if new["gFF"] != exp:
                    bad.append(f"step {j}: bind_new_parameters changed other positions / wrong values")
                if [(x["n"], x["w"]) for x in new["ops"]] != [(x["n"], x["w"]) for x in src["ops"]]:
                    bad.append(f"step {j}: bind_new_parameters changed operator names or wires")
                if s["mode"] == "id" and (new["ops"], new["meas"]) != (src["ops"], src["meas"]):
                    bad.append(f"step {j}: binding the current parameters did not reproduce the circuit")
            if s["op"] == "decomp" and so["new_train"] != list(range(len(new["gFF"]))):
                bad.append(f"step {j}: decompose did not reset trainable_params to all parameters (model transcription)")
            if s["op"] == "gradexp":
                fl = [i for i, p in enumerate(new["gFF"]) if p[2]]
                if so["new_train"] != fl:
                    bad.append(f"step {j}: trainable indices after expansion are not the requires_grad positions")
            size += 1
    return bad


def run(ctx):
    ctx.coq_props()
    n = 220 if ctx.tier == "quick" else 2400
    rng = ctx.rng
    cases = [json.loads(json.dumps(c)) for c in CORPUS]
    while len(cases) < n:
        cases.append(gen_case(rng, big=(ctx.tier != "quick" and rng.random() < 0.3)))
    obs = ctx.run_impl("c40_impl.py", {"cases": cases}, timeout=3000)
    hist = {"steps": 0, "copy": 0, "bind": 0, "settrain": 0, "decomp": 0, "gradexp": 0, "ok": 0, "err": 0, "same": 0,
            "skip": 0, "expanded_ok": 0, "bind_unsorted_or_dup": 0, "bind_negative": 0, "max_params": 0, "crash": 0,
            "QuantumTape": 0, "QuantumScript": 0, "get_parameters_indexerror": 0, "trainable_obs_data": 0}
    terms, idxmap, distinct = [], [], set()
    for ci, (c, o) in enumerate(zip(cases, obs)):
        key = json.dumps(c, sort_keys=True)
        if "crash" in o:
            hist["crash"] += 1
            ctx.violation("crash:" + key, {"case": c, "driver": o}, what="real tape operation raised an unexpected exception: " + o["crash"])
            continue
        for s, so in zip(c["steps"], o["steps"]):
            hist["steps"] += 1
            hist[s["op"]] += 1
            hist[so["st"]] += 1
            if s["op"] in ("decomp", "gradexp") and so["st"] == "ok":
                hist["expanded_ok"] += 1
            if s["op"] == "bind" and "idx" in so:
                if so["idx"] != sorted(set(so["idx"])):
                    hist["bind_unsorted_or_dup"] += 1
                if any(i < 0 for i in so["idx"]):
                    hist["bind_negative"] += 1
        for t in o["final"]:
            hist[t["cls"]] += 1
            hist["max_params"] = max(hist["max_params"], len(t["gFF"]))
            hist["get_parameters_indexerror"] += t["gTF"] == "ERR"
            hist["trainable_obs_data"] += any(p[2] for m in t["meas"] if m["obs"] for p in m["obs"]["d"])
        if len(o["final"]) > 2 and any(len(t["gFF"]) > 2 for t in o["final"]):
            distinct.add(key)
        for msg in direct_oracle(c, o):
            ctx.violation("direct:" + key, {"case": c, "observed": o, "failures": direct_oracle(c, o)}, what=msg)
        terms.append(g_case(c, o))
        idxmap.append(ci)
    bad = ctx.coq_eval_cases("cases", "From PLV Require Import Disc.TapeParamsModel.\nFrom Coq Require Import QArith.",
                             terms, "check_case", chunk=60)
    for b in bad:
        c, o = cases[idxmap[b]], obs[idxmap[b]]
        ctx.violation("corr:" + json.dumps(c, sort_keys=True),
                      {"case": c, "implementation": o, "model": "coq/Gen/C40: check_case is false for this history"},
                      found_input=True, what="real QuantumScript/QuantumTape history differs from the proved model of the parameter bookkeeping")
    ctx.coverage.update({
        "evaluations": len(cases), "distinct_nontrivial": len(distinct),
        "rule": "seeded histories (2-6 steps quick, up to 9 thorough) over a store of tapes: copy (plain / copy_operations / __copy__ / "
                "operations= / measurements= / trainable_params= / shots=), bind_new_parameters (identity, sorted, unsorted, "
                "duplicate, negative, out-of-range, length mismatch), trainable_params setter (valid, ==num_params, >num_params, "
                "negative, non-int), devices.preprocess.decompose, transforms.decompose, hadamard_grad.expand_transform; "
                "non-trivial = >2 tapes in the store and >2 parameters",
        "input_distribution": hist})
    for c, o in list(zip(cases, obs))[:2]:
        ctx.sample({"case": c, "statuses": [s["st"] for s in o.get("steps", [])],
                    "final_trainable": [t["train"] for t in o.get("final", [])]})
