"""C35 Generated shift rules are exact for their frequency spectra."""
import math
from fractions import Fraction

import mpmath

from vlib import *

PID = "C35"
FINDING_KEY = "finding:equidistant_branch_offset_frequencies"
FINDING_KEY_PERIOD = "finding:period_wrap_rounded_frequencies"
META = {
    "level": "proof",
    "technique": "Coq proof over R (exactness of a shift rule on all trigonometric polynomials <=> trigonometric moment conditions) + per-instance validation of the moment conditions on the real generate_shift_rule output in 40-digit arithmetic + vm_compute correspondence for the branch test and process_shifts",
    "design_ref": "DESIGN.md §3 C35, §5 item 8",
    "text": "Props/C35.v proves, for ALL rules (lists of (coefficient, shift)), frequencies and points: the rule reproduces f' for f=cos(w.) and f=sin(w.) at every x IFF sum c cos(w s)=0 and sum c sin(w s)=w; if in addition sum c = 0 (automatic for PennyLane's antisymmetric +/- pairs, proved) the rule's value IS the derivative (derivable_pt_lim) of every finite trigonometric polynomial a0+sum a_j cos(w_j x)+b_j sin(w_j x) whose frequencies satisfy the moments; same for the second derivative with moments (-w^2, 0); the iterated rule (_iterate_shift_rule, order 2) of two first-order-exact rules satisfies the second-order moments; shifting a shift by a period leaves the moments unchanged; the two-term rule (+-w/2 at +-pi/(2w)) satisfies the moments. The branch test of _get_shift_rule is transcribed over Q and REFUTED as a criterion for the closed form (branch_test_refuted: (1,3) passes the equidistant test but is not {w,..,Rw}); the repaired test (exact version) is proved to imply {w,..,Rw}. process_shifts is transcribed over Q; merging and sorting preserve sum c g(s) for every g (all rules). Validation run against /repo on every check: the real generate_shift_rule / generate_multi_shift_rule are run on generated frequency sets (multiples, offset-equally-spaced, integer non-equidistant, non-commensurate, dense), default/explicit shifts, orders 1-2 (3-4 in thorough) and the moment conditions of the returned float rule are evaluated on the exact values of the floats (IEEE double with exactly rounded sums as a filter: pass only if residual <= 1e-10*scale; everything else is decided in 40-digit mpmath arithmetic against 1e-8*scale; by the theorem that IS exactness up to the stated residual); the rule is also applied to random trigonometric polynomials at random points (direct oracle); branch decision (observed by counting linear-solver calls) and process_shifts are compared with the Gallina model inside Coq.",
    "note": "NOT proved in Coq: that the equidistant closed-form coefficients satisfy the moments for arbitrary R (only R=1 is a theorem); that linalg_solve returns a solution. Both are validated per generated instance only (residual <= 1e-8*scale, scale = max(1,sum|c|)*max(1,w)+w^order). The period wrap of _iterate_shift_rule is proved sound only for a true period (w*T in 2*pi*Z); frequencies_to_period rounds non-integer frequencies to 5 decimals (and truncates with np.int64), so for order >= 2 the wrap period need not be a period of the spectrum: such failures are real (inexact at the 1e-5 level) and are reported under the stable key finding:period_wrap_rounded_frequencies when (and only when) the value of the real frequencies_to_period is not a common period of the case's frequencies; a fixed corpus case triggers it on every run. Cases in which the implementation itself warns about a (near-)singular system or raises LinAlgError are excluded from the exactness check and counted (e.g. default shifts with frequencies (1,2,4)); np.allclose on the default-shift test is modelled with a 50-digit rational pi and generated explicit shifts are either exactly the defaults or far from them (a shift within rtol=1e-5 of the default gets the closed-form coefficients and is then inexact at the 1e-5 level: by design, not probed). Real-number theorems use the stdlib real axioms. The Gallina transcriptions (branch test, process_shifts) are tied to /repo only by the correspondence run; process_shifts is tied on dyadic data where float arithmetic is exact.",
    "assumptions": ["frequencies are finite floats/ints; jax/torch/autograd array inputs are outside the model",
                    "explicit shifts are not within the np.allclose tolerance band of the default shifts unless equal to them",
                    "exactness is checked up to residual 1e-8*scale (double-precision filter at 1e-10*scale, 40-digit decision otherwise) on the exact float values"],
    "trusted": ["hand-written model coq/Num/ShiftRulesModel.v tied to /repo by correspondence only",
                "mpmath 40-digit evaluation of sin/cos for the per-instance moment check",
                "Coq stdlib axiomatisation of the reals (Print Assumptions lists them)"],
}

mpmath.mp.dps = 40
MPF = mpmath.mpf
TOLREL = MPF("1e-8")


# ------------------------------------------------------------------ helpers shared by generator/oracle
def default_shifts(freqs):
    fs = sorted(f for f in freqs if f > 0)
    n = len(fs)
    return [(2 * mu - 1) * math.pi / (2 * n * fs[0]) for mu in range(1, n + 1)]


def rnd10(x):
    return round(Fraction(x) * 10 ** 10)  # python round on Fraction = half-even, like the model


def offset_equidistant(freqs, shifts):
    """the cause of the known defect: the call takes the closed-form branch (equally spaced sorted
    frequencies, default shifts) but the smallest frequency differs from the spacing."""
    fs = sorted(Fraction(f) for f in freqs if f > 0)
    if len(fs) < 2 or len(set(fs)) != len(fs):
        return False
    d = [rnd10(b - a) for a, b in zip(fs, fs[1:])]
    if len(set(d)) > 1:
        return False
    if rnd10(fs[1] - fs[0] - fs[0]) == 0:
        return False
    if shifts is None:
        return True
    ds = default_shifts(freqs)
    ss = sorted(shifts)
    return len(ss) == len(ds) and all(abs(a - b) <= 1e-8 + 1e-5 * abs(b) for a, b in zip(ss, ds))


class MP:
    """40-digit backend (decides every case the double backend does not clearly pass)"""
    num = staticmethod(lambda x: mpmath.mpf(x))
    cos, sin, pi = staticmethod(mpmath.cos), staticmethod(mpmath.sin), mpmath.pi
    fsum = staticmethod(lambda xs: mpmath.fsum(xs))


class FP:
    """IEEE double backend (math.fsum: exactly rounded sums); evaluation error <= ~1e-13*scale, used as a
    fast filter only: a case passes on it only with residual <= FAST_PASS, anything else goes to MP"""
    num = staticmethod(float)
    cos, sin, pi = staticmethod(math.cos), staticmethod(math.sin), math.pi
    fsum = staticmethod(math.fsum)


FAST_PASS = 1e-10


def period_not_true(freq_sets, periods):
    """cause of the second defect: a component differentiated to order >= 2 whose wrap period (the value of the
    real frequencies_to_period, which rounds non-integer frequencies to 5 decimals and truncates) is NOT a
    common period of its frequencies: some w*T/(2 pi) is not an integer"""
    for fs, T in zip(freq_sets, periods or []):
        if T is None:
            continue
        for w in fs:
            if w > 0:
                k = Fraction(w) * Fraction(T) / Fraction(2 * math.pi)
                if abs(k - round(k)) > Fraction(1, 10 ** 9):
                    return True
    return False


def ipow(B, w, n):
    """(i w)^n as (re, im) with 0^0 = 1"""
    if n == 0:
        return B.num(1), B.num(0)
    p = B.num(w) ** n
    z = B.num(0)
    return [(p, z), (z, p), (-p, z), (z, -p)][n % 4]


def moment_residuals_single(B, rule, freqs, order):
    """max over w in {0} U freqs of |sum c e^{i w s} - (i w)^order| / scale(w), on the exact float values"""
    cs = [(B.num(c), B.num(s)) for c, s in rule]
    sabs = B.fsum([abs(c) for c, _ in cs])
    worst, arg = B.num(0), None
    for w in [0] + sorted(set(f for f in freqs if f > 0)):
        wm = B.num(w)
        re = B.fsum([c * B.cos(wm * s) for c, s in cs])
        im = B.fsum([c * B.sin(wm * s) for c, s in cs])
        tr, ti = ipow(B, wm, order) if (w != 0 or order == 0) else (B.num(0), B.num(0))
        scale = max(1, sabs) * max(1, wm) + wm ** order
        r = max(abs(re - tr), abs(im - ti)) / scale
        if arg is None or r > worst:
            worst, arg = r, {"w": w, "sum_c_cos": float(re), "sum_c_sin": float(im),
                             "expected_cos": float(tr), "expected_sin": float(ti)}
    return worst, arg


def cmul(a, b):
    return a[0] * b[0] - a[1] * b[1], a[0] * b[1] + a[1] * b[0]


def moment_residuals_multi(B, rule, freqs, orders):
    rows = [[B.num(v) for v in row] for row in rule]
    sabs = B.fsum([abs(r[0]) for r in rows])
    worst, arg = B.num(0), None
    f1 = [0] + sorted(set(f for f in freqs[0] if f > 0))
    f2 = [0] + sorted(set(f for f in freqs[1] if f > 0))
    zero = (B.num(0), B.num(0))
    for w1 in f1:
        for w2 in f2:
            for sg in ((1, -1) if (w1 and w2) else (1,)):
                a, b = B.num(w1), B.num(sg * w2)
                re = B.fsum([r[0] * B.cos(a * r[1] + b * r[2]) for r in rows])
                im = B.fsum([r[0] * B.sin(a * r[1] + b * r[2]) for r in rows])
                t1 = ipow(B, abs(a), orders[0]) if w1 else zero
                if w2:
                    t2 = ipow(B, abs(b), orders[1])
                    if sg < 0 and orders[1] % 2 == 1:
                        t2 = (-t2[0], -t2[1])
                else:
                    t2 = zero
                tr, ti = cmul(t1, t2)
                scale = max(1, sabs) * max(1, a) * max(1, abs(b)) + a ** orders[0] * abs(b) ** orders[1]
                r_ = max(abs(re - tr), abs(im - ti)) / scale
                if arg is None or r_ > worst:
                    worst, arg = r_, {"w1": w1, "w2": sg * w2, "sum_re": float(re), "sum_im": float(im),
                                      "expected_re": float(tr), "expected_im": float(ti)}
    return worst, arg


def trig_poly(rng, freqs):
    fs = sorted(set(f for f in freqs if f > 0))
    return {"a0": rng.uniform(-1, 1), "terms": [[w, rng.uniform(-1, 1), rng.uniform(-1, 1)] for w in fs]}


def tp_eval(B, p, x, order):
    """order-th derivative of the polynomial at x"""
    v = [B.num(p["a0"]) if order == 0 else B.num(0)]
    for w, a, b in p["terms"]:
        w, a, b = B.num(w), B.num(a), B.num(b)
        # d^n/dx^n [a cos + b sin](wx) = w^n [a cos(wx + n pi/2) + b sin(wx + n pi/2)]
        ph = w * x + order * B.pi / 2
        v.append(w ** order * (a * B.cos(ph) + b * B.sin(ph)))
    return B.fsum(v)


def tp_amp(p):
    return abs(p["a0"]) + sum(abs(a) + abs(b) for _, a, b in p["terms"])


def oracle_single(B, rule, p, x, order):
    x = B.num(x)
    got = B.fsum([B.num(c) * tp_eval(B, p, x + B.num(s), 0) for c, s in rule])
    want = tp_eval(B, p, x, order)
    wmax = max([w for w, _, _ in p["terms"]] + [1])
    sabs = B.fsum([abs(B.num(c)) for c, _ in rule])
    scale = (max(1, sabs) * wmax + B.num(wmax) ** order) * max(tp_amp(p), 1e-3)
    return abs(got - want) / scale, float(got), float(want)


def oracle_multi(B, rule, p, q, x, y, orders):
    x, y = B.num(x), B.num(y)
    got = B.fsum([B.num(r[0]) * tp_eval(B, p, x + B.num(r[1]), 0) * tp_eval(B, q, y + B.num(r[2]), 0) for r in rule])
    want = tp_eval(B, p, x, orders[0]) * tp_eval(B, q, y, orders[1])
    w1 = max([w for w, _, _ in p["terms"]] + [1])
    w2 = max([w for w, _, _ in q["terms"]] + [1])
    sabs = B.fsum([abs(B.num(r[0])) for r in rule])
    scale = (max(1, sabs) * w1 * w2 + B.num(w1) ** orders[0] * B.num(w2) ** orders[1]) * max(tp_amp(p) * tp_amp(q), 1e-3)
    return abs(got - want) / scale, float(got), float(want)


def two_stage(fn, *args):
    """double backend as a filter, 40-digit backend for the decision of everything not clearly passing"""
    r = fn(FP, *args)
    if r[0] <= FAST_PASS:
        return r
    return fn(MP, *args)


# ------------------------------------------------------------------ generators
W_BASE = [1, 1, 1, 2, 3, 0.5, 0.25, 1.5, 2.5, 0.1, 0.7, 1.0, 2.0]


def gen_freqs(rng, maxR):
    """returns (class, list)"""
    r = rng.random()
    if r < 0.30:                                    # {w, 2w, ..., Rw}
        w = rng.choice(W_BASE)
        R = rng.randint(1, maxR)
        return "multiples", [w * k for k in range(1, R + 1)]
    if r < 0.52:                                    # equally spaced, offset: a + d*k with a != d
        R = rng.randint(2, min(maxR, 4))
        d = rng.choice([1, 1, 2, 1.0, 0.5, 0.1, 0.25, 3])
        a = rng.choice([1, 2, 3, 4, 0.5, 1.5, 2.0, 0.3, 5])
        if a == d:
            a = a + d
        ints = isinstance(a, int) and isinstance(d, int)
        fs = [a + d * k for k in range(R)]
        return "offset_equidistant", (fs if ints else [float(round(f, 6)) for f in fs])
    if r < 0.70:                                    # integers, not equally spaced
        R = rng.randint(3, max(3, min(maxR, 5)))
        while True:
            fs = sorted(rng.sample(range(1, 10), R))
            if len(set(b - a for a, b in zip(fs, fs[1:]))) > 1:
                return "integer_gaps", fs
    if r < 0.88:                                    # non-commensurate floats
        R = rng.randint(1, min(maxR, 5))
        fs = []
        while len(fs) < R:
            f = rng.choice([math.sqrt(2), math.pi / 3, math.e / 2, rng.uniform(0.3, 4.0), rng.uniform(0.3, 4.0)])
            if all(abs(f - g) > 0.15 for g in fs):
                fs.append(f)
        return "non_commensurate", fs
    R = rng.randint(3, maxR)                        # dense: many close frequencies
    base = rng.choice([1.0, 2.0, 0.5])
    step = rng.choice([0.1, 0.125, 0.05, 0.2])
    pool = [round(base + step * k, 4) for k in range(0, 12)]
    return "dense", sorted(rng.sample(pool, R))


def gen_shifts(rng, freqs):
    """None | exact defaults | random explicit shifts"""
    r = rng.random()
    fs = [f for f in freqs if f > 0]
    if r < 0.55 or not fs:
        return "default", None
    if r < 0.67:
        return "explicit_default", default_shifts(fs)
    wmin, wmax = min(fs), max(fs)
    hi = min(math.pi / wmin, 4 * math.pi / wmax) if len(fs) > 1 else math.pi / wmin
    ds = default_shifts(fs)
    for _ in range(200):
        ss = sorted(rng.uniform(0.05 * hi, 0.98 * hi) for _ in fs)
        if all(b - a > 0.06 * hi for a, b in zip(ss, ss[1:])) and \
                any(abs(a - b) > 1e-3 * abs(b) + 1e-6 for a, b in zip(ss, ds)):
            rng.shuffle(ss)
            return "explicit_random", ss
    return "default", None


def gen_single(rng, tier):
    maxR = 6
    order = rng.choice([1, 1, 1, 2, 2]) if tier == "quick" else rng.choice([1, 1, 1, 2, 2, 3, 4])
    if order >= 3:
        maxR = 3
    elif order == 2:
        maxR = 5
    cls, fs = gen_freqs(rng, maxR)
    if rng.random() < 0.3:
        fs = list(fs)
        rng.shuffle(fs)
    if rng.random() < 0.08:                         # non-positive entries are filtered by generate_shift_rule
        fs = fs + [rng.choice([0, -1, -0.5])]
    skind, sh = gen_shifts(rng, fs)
    return {"kind": "single", "cls": cls, "skind": skind, "freqs": fs, "shifts": sh, "order": order}


def gen_malformed(rng):
    r = rng.random()
    if r < 0.3:
        fs = rng.choice([[1, 1], [1, 2, 2], [0.5, 1.0, 0.5], [2.0, 2]])
        return {"kind": "single", "cls": "malformed", "skind": "default", "freqs": fs, "shifts": None, "order": 1}
    if r < 0.45:
        return {"kind": "single", "cls": "malformed", "skind": "default", "freqs": rng.choice([[], [0], [-1, -2]]),
                "shifts": None, "order": 1}
    if r < 0.75:
        fs = rng.choice([[1, 2], [1, 2, 3], [1.5], [1, 3]])
        n = len(fs) + rng.choice([-1, 1])
        return {"kind": "single", "cls": "malformed", "skind": "explicit_random", "freqs": fs,
                "shifts": [0.3 + 0.4 * k for k in range(n)], "order": 1}
    fs = rng.choice([[1, 2], [1, 2, 3], [2, 3]])
    sh = [0.3 + 0.4 * k for k in range(len(fs))]
    sh[-1] = sh[0]
    return {"kind": "single", "cls": "malformed", "skind": "explicit_random", "freqs": fs, "shifts": sh, "order": 1}


def gen_multi(rng, tier):
    comps = []
    for _ in range(2):
        while True:
            cls, fs = gen_freqs(rng, 3)
            if len(fs) <= 3:
                break
        skind, sh = gen_shifts(rng, fs)
        comps.append((cls, fs, skind, sh))
    orders = rng.choice([None, [1, 1], [1, 2], [2, 1]] + ([[2, 2]] if tier != "quick" else []))
    shifts = None if all(c[3] is None for c in comps) else [c[3] for c in comps]
    return {"kind": "multi", "cls": [c[0] for c in comps], "skind": [c[2] for c in comps],
            "freqs": [c[1] for c in comps], "shifts": shifts, "orders": orders}


def gen_process(rng):
    n = rng.randint(0, 9)
    rows = []
    tiny = Fraction(1, 2 ** 40)
    for _ in range(n):
        r = rng.random()
        c = Fraction(rng.randint(-32, 32), 16)
        if r < 0.12:
            c = tiny * rng.randint(-3, 3)                     # below tol: zeroed, row dropped
        s = Fraction(rng.randint(-16, 16), 8)
        r = rng.random()
        if rows and r < 0.3:
            s = rng.choice(rows)[1]                           # exact duplicate shift
        elif rows and r < 0.42:
            s = rng.choice(rows)[1] + tiny * rng.choice([1, -1, 2])   # duplicate after rounding to 10 decimals
        elif rows and r < 0.55:
            s = -rng.choice(rows)[1]                          # +/- pair: lexsort tie on |s|
        elif r < 0.62:
            s = tiny * rng.randint(-50, 50)                   # |s| < tol: set to 0
        rows.append((c, s))
    return {"kind": "process", "rule": [[c.numerator, c.denominator, s.numerator, s.denominator] for c, s in rows]}


# ------------------------------------------------------------------ Gallina printers
def gqf(x):
    return gq(Fraction(x))


def g_branch_case(c, o):
    obs = "BErr" if (o["status"] == "err" and not o.get("solve_calls")) else ("BSolve" if o.get("solve_calls") else "BEqui")
    sh = "None" if c["shifts"] is None else f"(Some {glist(c['shifts'], gqf)})"
    return f"CBranch {glist(c['freqs'], gqf)} {sh} {obs}"


def g_process_case(c, o):
    inp = glist(c["rule"], lambda r: f"({gq(Fraction(r[0], r[1]))}, {gq(Fraction(r[2], r[3]))})")
    out = glist(o["rule"], lambda r: f"({gqf(r[0])}, {gqf(r[1])})")
    return f"CProcess {inp} {out}"


CORPUS = [
    {"kind": "single", "cls": "multiples", "skind": "default", "freqs": [1], "shifts": None, "order": 1},
    {"kind": "single", "cls": "multiples", "skind": "default", "freqs": [1], "shifts": None, "order": 2},
    {"kind": "single", "cls": "multiples", "skind": "default", "freqs": [0.5, 1.0], "shifts": None, "order": 1},
    {"kind": "single", "cls": "multiples", "skind": "default", "freqs": [1, 2, 3], "shifts": None, "order": 1},
    {"kind": "single", "cls": "multiples", "skind": "default", "freqs": [1, 2], "shifts": None, "order": 2},
    # higher orders (the iterated product of rules has repeated factors: multinomial multiplicities)
    {"kind": "single", "cls": "multiples", "skind": "default", "freqs": [1, 2], "shifts": None, "order": 3},
    {"kind": "single", "cls": "multiples", "skind": "default", "freqs": [1, 2], "shifts": None, "order": 4},
    {"kind": "single", "cls": "multiples", "skind": "default", "freqs": [1], "shifts": None, "order": 3},
    {"kind": "single", "cls": "multiples", "skind": "default", "freqs": [0.5, 1.0, 1.5], "shifts": None, "order": 3},
    {"kind": "single", "cls": "integer_gaps", "skind": "explicit_random", "freqs": [1, 2, 4],
     "shifts": [math.pi / 3, 2 * math.pi / 3, math.pi / 4], "order": 1},
    {"kind": "single", "cls": "integer_gaps", "skind": "default", "freqs": [1, 2, 4], "shifts": None, "order": 1},
    # the DESIGN §5 item 8 witnesses
    {"kind": "single", "cls": "offset_equidistant", "skind": "default", "freqs": [1, 3], "shifts": None, "order": 1},
    {"kind": "single", "cls": "offset_equidistant", "skind": "default", "freqs": [3, 4], "shifts": None, "order": 1},
    {"kind": "single", "cls": "offset_equidistant", "skind": "default", "freqs": [2, 3, 4], "shifts": None, "order": 1},
    {"kind": "single", "cls": "offset_equidistant", "skind": "default", "freqs": [1.0, 1.1], "shifts": None, "order": 1},
    {"kind": "single", "cls": "offset_equidistant", "skind": "explicit_random", "freqs": [3, 4],
     "shifts": [0.2, 0.7], "order": 1},
    # second defect: wrap period from frequencies rounded to 5 decimals
    {"kind": "single", "cls": "non_commensurate", "skind": "explicit_random", "freqs": [math.pi / 3],
     "shifts": [2.177239621497128], "order": 2},
    {"kind": "multi", "cls": ["multiples", "multiples"], "skind": ["default", "default"], "freqs": [[1], [1]],
     "shifts": None, "orders": None},
    {"kind": "multi", "cls": ["multiples", "multiples"], "skind": ["default", "default"], "freqs": [[1], [1, 2]],
     "shifts": None, "orders": [1, 2]},
    {"kind": "process", "rule": [[1, 2, 1, 2], [1, 4, 1 + 2 ** 39, 2 ** 40], [1, 2 ** 40, 1, 1], [-1, 1, -1, 2], [1, 1, 1, 2 ** 41]]},
]


def run(ctx):
    ctx.coq_props()
    rng = ctx.rng
    quick = ctx.tier == "quick"
    n_single, n_multi, n_proc = (420, 70, 260) if quick else (3000, 500, 2000)
    cases = [dict(c) for c in CORPUS]
    for _ in range(n_single):
        cases.append(gen_malformed(rng) if rng.random() < 0.07 else gen_single(rng, ctx.tier))
    for _ in range(n_multi):
        cases.append(gen_multi(rng, ctx.tier))
    for _ in range(n_proc):
        cases.append(gen_process(rng))
    obs = ctx.run_impl("c35_impl.py", {"cases": cases})

    # ---- tie K: branch decision and process_shifts against the Gallina model
    tie_idx = [i for i, c in enumerate(cases) if c["kind"] in ("single", "process")]
    terms = []
    for i in tie_idx:
        c, o = cases[i], obs[i]
        if c["kind"] == "single":
            terms.append(g_branch_case(c, o))
        else:
            terms.append(g_process_case(c, o) if o["status"] == "ok" else f"CBranch [] None BSolve")
    bad = ctx.coq_eval_cases("cases", "From Coq Require Import QArith.\nFrom PLV Require Import Num.ShiftRulesModel.", terms, "check_case", chunk=250)
    for k in bad:
        i = tie_idx[k]
        c, o = cases[i], obs[i]
        what = ("branch decision of generate_shift_rule (closed form / linear solve / error) differs from the model"
                if c["kind"] == "single" else "process_shifts output differs from the model")
        ctx.violation("corr:" + json.dumps(c, sort_keys=True), {"case": c, "implementation": o,
                      "model": "evaluate check_case of coq/Num/ShiftRulesModel.v (coq/Gen/C35)"}, what=what)

    # ---- validation: moment conditions (= exactness, Props/C35.v) + direct oracle on the real output
    hist = {"single": 0, "multi": 0, "process": 0, "errors_expected_shape": 0, "closed_form_branch": 0,
            "solve_branch": 0, "excluded_singular_warned_or_raised": 0, "finding_hits": 0, "finding_period_hits": 0,
            "merged_rows_process": 0, "ill_conditioned_sum_abs_c_gt_1e6": 0}
    by_cls, by_order, by_skind = {}, {}, {}
    distinct = set()
    worst_res = 0.0
    checked = 0
    finding_examples = []
    for c, o in zip(cases, obs):
        hist[c["kind"]] += 1
        if c["kind"] == "process":
            if o["status"] == "ok" and len(o["rule"]) < len([r for r in c["rule"] if abs(Fraction(r[0], r[1])) >= Fraction(1, 10 ** 10)]):
                hist["merged_rows_process"] += 1
            continue
        cls = c["cls"] if c["kind"] == "single" else "multi:" + "+".join(c["cls"])
        by_cls[cls if c["kind"] == "single" else "multi"] = by_cls.get(cls if c["kind"] == "single" else "multi", 0) + 1
        if o["status"] == "err":
            if o.get("solve_calls") or o["type"] in ("LinAlgError", "nonfinite"):
                hist["excluded_singular_warned_or_raised"] += 1
            elif c.get("cls") == "malformed":
                hist["errors_expected_shape"] += 1
            else:
                ctx.violation("raised:" + json.dumps(c, sort_keys=True), {"case": c, "observed": o},
                              what="generate_shift_rule raised on distinct positive frequencies / well-formed shifts")
            continue
        if c.get("cls") == "malformed":
            # accepted although the model says error: reported by the tie above
            continue
        if c["kind"] == "single":
            by_order[c["order"]] = by_order.get(c["order"], 0) + 1
            by_skind[c["skind"]] = by_skind.get(c["skind"], 0) + 1
            hist["solve_branch" if o["solve_calls"] else "closed_form_branch"] += 1
        if o["warned"]:
            hist["excluded_singular_warned_or_raised"] += 1
            continue
        rule = o["rule"]
        if sum(abs(r[0]) for r in rule) > 1e6:
            hist["ill_conditioned_sum_abs_c_gt_1e6"] += 1
        crng = random.Random(json.dumps(c, sort_keys=True))      # polynomial/point tied to the case, not to the stream
        if c["kind"] == "single":
            res, arg = two_stage(moment_residuals_single, rule, c["freqs"], c["order"])
            p = trig_poly(crng, c["freqs"])
            x = crng.uniform(-3.2, 3.2)
            ores, got, want = two_stage(oracle_single, rule, p, x, c["order"])
            cause = offset_equidistant(c["freqs"], c["shifts"]) and o["solve_calls"] == 0
            cause2 = period_not_true([c["freqs"]], o.get("periods"))
            witness = {"trig_poly": p, "x": x, "rule_value": got, "derivative": want}
        else:
            orders = c["orders"] or [1, 1]
            res, arg = two_stage(moment_residuals_multi, rule, c["freqs"], orders)
            p, q = trig_poly(crng, c["freqs"][0]), trig_poly(crng, c["freqs"][1])
            x, y = crng.uniform(-3.2, 3.2), crng.uniform(-3.2, 3.2)
            ores, got, want = two_stage(oracle_multi, rule, p, q, x, y, orders)
            shs = c["shifts"] or [None, None]
            cause = any(offset_equidistant(f, s) for f, s in zip(c["freqs"], shs))
            cause2 = period_not_true(c["freqs"], o.get("periods"))
            witness = {"trig_poly_x": p, "trig_poly_y": q, "x": x, "y": y, "rule_value": got, "derivative": want}
        checked += 1
        distinct.add(json.dumps([c["freqs"], c["shifts"], c.get("order", c.get("orders"))]))
        fail = res > TOLREL or ores > TOLREL
        if not fail:
            worst_res = max(worst_res, float(res), float(ores))
            continue
        replay = {"case": c, "rule": rule, "moment_violated": arg, "moment_residual_over_scale": float(res),
                  "oracle": witness, "oracle_residual_over_scale": float(ores)}
        if cause:
            hist["finding_hits"] += 1
            if len(finding_examples) < 3:
                finding_examples.append({"freqs": c["freqs"], "moment": arg})
            replay["repro"] = "from pennylane.gradients import generate_shift_rule; import numpy as np; r = generate_shift_rule((1, 3)); print(sum(c*np.sin(3*s) for c, s in r))  # 1.0, expected 3"
            ctx.violation(FINDING_KEY, replay,
                          what="generate_shift_rule uses the equidistant closed form for frequencies that are equally spaced "
                               "but not {w,2w,..,Rw} (smallest frequency != spacing): the rule is not exact, e.g. "
                               "generate_shift_rule((1,3)) differentiates sin(3x) at 0 to 1.0 instead of 3")
        elif cause2:
            hist["finding_period_hits"] += 1
            replay["repro"] = "import math, numpy as np; from pennylane.gradients import generate_shift_rule; w = math.pi/3; r = generate_shift_rule((w,), shifts=(2.177239621497128,), order=2); print(sum(c*np.cos(w*s) for c, s in r), -w*w)  # -1.0966653 vs -1.0966227"
            ctx.violation(FINDING_KEY_PERIOD, replay,
                          what="generate_shift_rule(order>=2) wraps the iterated shifts with frequencies_to_period, which rounds "
                               "non-integer frequencies to 5 decimals (and truncates): the wrap period is not a period of the "
                               "spectrum and the rule is inexact at the 1e-5 level, e.g. generate_shift_rule((pi/3,), "
                               "shifts=(2.1772396,), order=2)")
        else:
            ctx.violation("exact:" + json.dumps(c, sort_keys=True), replay,
                          what="returned shift rule violates the moment conditions (is not exact) for its frequency spectrum")
    ctx.coverage.update({
        "evaluations": len(cases), "distinct_nontrivial": len(distinct), "exactness_checked": checked,
        "worst_passing_residual_over_scale": float(worst_res),
        "rule": "seeded generator: frequency classes multiples/offset_equidistant/integer_gaps/non_commensurate/dense (R<=6), "
                "shifts default/explicit-default/explicit-random, orders 1-2 (3-4 thorough), 7% malformed; 2-parameter multi rules; "
                "dyadic process_shifts rules with forced duplicates/near-duplicates/sub-tolerance entries; non-trivial = accepted call "
                "whose rule was checked against the moment conditions and a random trigonometric polynomial",
        "input_distribution": {"kinds": hist, "freq_classes": by_cls, "orders": by_order, "shift_kinds": by_skind},
        "finding_examples": finding_examples,
    })
    for c, o in list(zip(cases, obs))[:3] + [(cases[len(CORPUS) + 1], obs[len(CORPUS) + 1])]:
        ctx.sample({"case": c, "observed": o})
