"""C47 Resource estimation composes additively (pennylane.estimator.estimate + WireResourceManager)."""
from vlib import *

PID = "C47"
META = {
    "level": "proof",
    "technique": "Coq proofs by induction on fuel/decomposition lists/histories over a Gallina transcription of estimate.py's counting recursion and WireResourceManager, with the operator classes as oracles; vm_compute correspondence against qp.estimator.estimate and the real WireResourceManager",
    "design_ref": "DESIGN.md §3 C47",
    "text": "Kernel-checked theorems (Props/C47.v), for ALL decomposition oracles, gate sets, fuel bounds, workflows and allocate/free histories: every successful estimate's count of a gate x equals the pure weight sum_{(op,k)} k*W(op,x), hence estimate(w1++w2) = estimate(w1)+estimate(w2) on gate counts, n copies (and scalar n) multiply counts by n, estimates compose sequentially; the wire manager's zeroed/any_state stay >= 0 over every history of non-negative requests (an error arises exactly under the transcribed raise conditions), total >= algo, and zeroed+any_state at the end = max(initial work wires, peak number of simultaneously outstanding allocated wires) so every allocation is accounted for; the estimator's effect on the manager is exactly such a history (its pure request trace), which is non-negative for non-negative oracles/scalars. Tie: the model is evaluated inside Coq on the same random workflows (qfunc / Resources / single-operator entry points, ~37 real operator classes incl. nested Adjoint/Controlled/Pow and operators that allocate auxiliary wires with and without imbalance, random gate sets, budgets, tight flag) and on random allocate/free histories, and compared with the implementation's gate_types dictionary, zeroed/any_state/algo wires and error behaviour; additivity, repetition and the wire bounds are also checked directly on the implementation's outputs.",
    "note": "Oracles (recorded by calling the class methods directly, not verified): each operator class's resource_decomp / overridden adjoint_/controlled_/pow_resource_decomp results, tracking names, op.wires and op.num_wires of queued operators. Modelled, not verified: default ResourceConfig only (no custom decompositions; the None->configured-precision parameter substitution is re-implemented in the driver and thereby cross-checked, not modelled in Coq); Prod/ChangeOpBasis and templates that take operators as arguments are outside the generated workflows; PennyLane (non-estimator) operators mapped through _map_to_resource_op and QNode workflows are not exercised; the Python recursion is unbounded while the model uses fuel 200 (theorems hold for every fuel; running out of fuel is a distinct error the tie never accepts). Errors are compared as raised/not raised, not by exception type. Additivity is about gate counts: wire totals are not additive and tight-budget errors depend on the manager state, so the additivity theorem assumes the three estimates succeed (it allows three different managers).",
    "assumptions": ["non-negative GateCount counts / Allocate sizes / scalars for the wire-bookkeeping theorems (checked on the recorded oracle table each run)",
                    "default ResourceConfig (config=None)"],
    "trusted": ["hand-written model coq/Disc/EstimatorModel.v tied to /repo by correspondence only",
                "harness/impl/c47_impl.py oracle-table extraction from the operator classes"],
}

DEFAULT_GS = ["Toffoli", "T", "CNOT", "X", "Y", "Z", "S", "Hadamard"]   # documented default of estimate()


# ------------------------------------------------------------------ generators
def leaf(rng):
    r = rng.random()
    if r < 0.40:
        c = rng.choice(["Hadamard", "X", "Y", "Z", "S", "T", "CNOT", "Toffoli", "SWAP", "CZ", "CCZ", "CSWAP", "CH",
                        "Identity", "RZ", "CRZ", "PhaseShift", "TemporaryAND", "TwoQubitComparator",
                        "SingleQubitComparator"])
        return {"c": c}
    if r < 0.47:            # the operator whose allocations and frees do not balance (wire requests scale)
        return {"c": "AliasSampling", "kw": {"num_coeffs": rng.randint(2, 5)}}
    k = rng.randrange(17)
    if k == 0:
        return {"c": "RX", "kw": {"precision": rng.choice([0.001, 0.01])}}
    if k == 1:
        n = rng.randint(1, 5)
        return {"c": "MultiControlledX", "kw": {"num_ctrl_wires": n, "num_zero_ctrl": rng.randint(0, n)}}
    if k == 2:
        return {"c": "QFT", "kw": {"num_wires": rng.randint(1, 4)}}
    if k == 3:
        return {"c": "MultiRZ", "kw": {"num_wires": rng.randint(1, 4)}}
    if k == 4:
        return {"c": "PauliRot", "kw": {"pauli_string": "".join(rng.choice("XYZ") for _ in range(rng.randint(1, 3)))}}
    if k == 5:
        return {"c": "SemiAdder", "kw": {"max_register_size": rng.randint(1, 5)}}
    if k == 6:
        return {"c": "QROM", "kw": {"num_bitstrings": rng.randint(2, 6), "size_bitstring": rng.randint(1, 3),
                                   "restored": rng.random() < 0.5,
                                   "select_swap_depth": rng.choice([None, None, 1, 2])}}
    if k == 7:
        return {"c": "AliasSampling", "kw": {"num_coeffs": rng.randint(2, 5)}}
    if k == 8:
        return {"c": "RegisterComparator", "kw": {"first_register": rng.randint(1, 4), "second_register": rng.randint(1, 4),
                                                 "geq": rng.random() < 0.5}}
    if k == 9:
        return {"c": "IntegerComparator", "kw": {"value": rng.randint(1, 9), "register_size": rng.randint(2, 4),
                                                "geq": rng.random() < 0.5}}
    if k == 10:
        return {"c": "AQFT", "kw": {"order": rng.randint(1, 3), "num_wires": rng.randint(2, 5)}}
    if k == 11:
        return {"c": "PhaseGradient", "kw": {"num_wires": rng.randint(1, 5)}}
    if k == 12:
        return {"c": "OutOfPlaceSquare", "kw": {"register_size": rng.randint(1, 4)}}
    if k == 13:
        return {"c": "UniformStatePrep", "kw": {"num_states": rng.randint(2, 9)}}
    if k == 14:
        return {"c": "SelectPauliRot", "kw": {"rot_axis": rng.choice("XYZ"), "num_ctrl_wires": rng.randint(1, 3)}}
    if k == 15:
        return {"c": "BasisRotation", "kw": {"dim": rng.randint(2, 4)}}
    return {"c": "ControlledPhaseShift"}


def gen_op(rng, wired, depth=0):
    """operator spec; `wired` tells whether the leaf gets wire labels (controls then get labels too)"""
    r = rng.random()
    if depth >= 3 or r < (0.55 if depth == 0 else 0.6):
        return leaf(rng)
    inner = gen_op(rng, wired, depth + 1)
    k = rng.random()
    if k < 0.35:
        return {"adj": inner}
    if k < 0.75:
        n = rng.randint(1, 3)
        sp = {"ctrl": inner, "n": n, "z": rng.choice([0, 0, rng.randint(0, n)])}
        if wired:   # labelled controls at EVERY level (an unlabelled Controlled drops its base's labels)
            sp["cw"] = 100 + 10 * depth + rng.randint(0, 2)
        return sp
    return {"pow": inner, "p": rng.choice([0, 1, 2, 2, 3, 4, 5, -1])}


def gen_entry(rng):
    wired = rng.random() < 0.5
    e = {"op": gen_op(rng, wired and rng.random() < 0.7)}
    e["w"] = rng.randint(0, 6) if wired else None
    return e


GS_EXTRA = [{"b": "RZ"}, {"b": "RX"}, {"b": "RY"}, {"b": "SWAP"}, {"b": "CZ"}, {"b": "TemporaryAND"}, {"b": "QFT(3)"},
            {"b": "QFT(2)"}, {"b": "MultiControlledX"}, {"b": "Identity"}, {"b": "GlobalPhase"}, {"b": "SemiAdder"},
            {"b": "CSWAP"}, {"b": "PhaseShift"}, {"b": "ControlledPhaseShift"}, {"b": "QROM"}, {"b": "NoSuchGate"},
            {"a": {"b": "T"}}, {"a": {"b": "S"}}, {"a": {"b": "TemporaryAND"}}, {"a": {"b": "QFT(3)"}},
            {"c": {"b": "X"}, "n": 1, "z": 0}, {"c": {"b": "S"}, "n": 1, "z": 0}, {"c": {"b": "RZ"}, "n": 1, "z": 0},
            {"c": {"b": "X"}, "n": 2, "z": 1}, {"c": {"b": "Hadamard"}, "n": 2, "z": 0},
            {"pw": {"b": "X"}, "pz": 2}, {"pw": {"b": "T"}, "pz": 3}, {"pw": {"b": "QFT(2)"}, "pz": 2},
            {"a": {"c": {"b": "S"}, "n": 1, "z": 0}}]


def gen_gs(rng):
    r = rng.random()
    if r < 0.35:
        return None
    base = [{"b": s} for s in DEFAULT_GS]
    if r < 0.85:            # complete enough to terminate, plus extras; maybe drop decomposable members
        gs = [g for g in base if g["b"] in ("T", "Hadamard", "CNOT") or rng.random() < 0.6]
    else:                   # may miss an indispensable gate -> ResourcesUndefinedError
        gs = [g for g in base if rng.random() < 0.7]
    gs += rng.sample(GS_EXTRA, rng.randint(0, 5))
    rng.shuffle(gs)
    return gs


def gs_str(g):
    if "b" in g:
        return g["b"]
    if "a" in g:
        return f"Adjoint({gs_str(g['a'])})"
    if "c" in g:
        return f"C({gs_str(g['c'])}, num_ctrl_wires={g['n']},num_zero_ctrl={g['z']})"
    return f"Pow({gs_str(g['pw'])}, {g['pz']})"


def budget(rng):
    return {"z": rng.choice([0, 0, 0, 1, 2, 3, 5, 10, 60, 200]), "a": rng.choice([0, 0, 0, 0, 1, 3, 70, 200, 400]),
            "tight": rng.random() < 0.25}


def dedup_ops(entries):
    seen, out = set(), []
    for e in entries:
        k = json.dumps(e["op"], sort_keys=True)
        if k not in seen:
            seen.add(k)
            out.append(e)
    return out


def gen_cases(rng, n):
    """returns (cases, groups); groups = direct-oracle relations between case indices"""
    cases, groups = [], []

    def q(entries, gs, b):
        cases.append({"path": "q", "ops": entries, "gs": gs, **b})
        return len(cases) - 1

    def r(entries, counts, algo, gs, b):
        cases.append({"path": "r", "ops": [{"op": e["op"]} for e in entries], "counts": counts, "algo": algo,
                      "gs": gs, **b})
        return len(cases) - 1

    # corpus first
    b0 = {"z": 0, "a": 0, "tight": False}
    qft = {"op": {"c": "QFT", "kw": {"num_wires": 3}}, "w": None}
    alias = {"op": {"c": "AliasSampling", "kw": {"num_coeffs": 3}}, "w": None}
    mcx = {"op": {"c": "MultiControlledX", "kw": {"num_ctrl_wires": 4, "num_zero_ctrl": 1}}, "w": 2}
    q([{"op": {"c": "Hadamard"}, "w": None}, {"op": {"c": "CNOT"}, "w": None}, qft], None, b0)
    q([{"op": {"c": "Hadamard"}, "w": None}, {"op": {"c": "CNOT"}, "w": None}, alias], None, b0)
    q([alias, mcx], None, {"z": 150, "a": 0, "tight": True})
    q([alias], None, {"z": 100, "a": 0, "tight": True})
    q([{"op": {"adj": alias["op"]}, "w": None}], None, b0)
    q([{"op": {"adj": alias["op"]}, "w": None}], None, {"z": 0, "a": 200, "tight": False})
    q([{"op": {"ctrl": qft["op"], "n": 2, "z": 1, "cw": 100}, "w": 0}, {"op": {"pow": {"adj": {"c": "T"}}, "p": 3}, "w": 1}],
      [{"b": s} for s in DEFAULT_GS] + [{"a": {"b": "T"}}], b0)
    r([alias, qft], [3, 0], 4, None, b0)
    # unbalanced Deallocate under a scalar > 1 (frees 63 * 3 any_state wires)
    r([{"op": {"adj": alias["op"]}}], [3], 2, None, {"z": 0, "a": 200, "tight": False})
    q([{"op": {"pow": {"adj": alias["op"]}, "p": 2}, "w": None}, alias], None, {"z": 4, "a": 130, "tight": True})
    r([mcx], [-1], 5, None, {"z": 5, "a": 5, "tight": False})
    q([], None, b0)
    cases.append({"path": "op", "ops": [{"op": {"pow": {"pow": {"c": "X"}, "p": 2}, "p": 3}}], "gs": [{"b": "T"}, {"b": "Hadamard"}, {"b": "S"}], **b0})

    while len(cases) < n:
        k = rng.random()
        gs = gen_gs(rng)
        if k < 0.04:        # unbalanced frees under a scalar: Adjoint(AliasSampling) with enough any_state wires
            al = {"op": {"adj": {"c": "AliasSampling", "kw": {"num_coeffs": rng.randint(2, 5)}}}, "w": None}
            es = dedup_ops([al] + [gen_entry(rng) for _ in range(rng.randint(0, 2))])
            r(es, [rng.randint(2, 4)] + [rng.randint(0, 3) for _ in es[1:]], rng.randint(0, 9), gs,
              {"z": rng.choice([0, 5, 100]), "a": rng.choice([300, 500]), "tight": rng.random() < 0.3})
        elif k < 0.30:
            q([gen_entry(rng) for _ in range(rng.choice([0, 1, 1, 2, 3, 4, 6]))], gs, budget(rng))
        elif k < 0.45:
            es = dedup_ops([gen_entry(rng) for _ in range(rng.randint(1, 4))])
            cs = [rng.choice([0, 1, 1, 2, 3, 5, 7]) if rng.random() < 0.97 else -rng.randint(1, 2) for _ in es]
            r(es, cs, rng.randint(0, 12), gs, budget(rng))
        elif k < 0.55:
            cases.append({"path": "op", "ops": [{"op": gen_op(rng, False)}], "gs": gs, **budget(rng)})
        elif k < 0.80:      # additivity triple: same settings, three fresh managers
            b = budget(rng)
            w1 = [gen_entry(rng) for _ in range(rng.randint(0, 3))]
            w2 = [gen_entry(rng) for _ in range(rng.randint(1, 3))]
            groups.append(("add", q(w1, gs, b), q(w2, gs, b), q(w1 + w2, gs, b)))
        else:               # repetition: n copies in a qfunc, scalar n in a Resources object
            b = budget(rng)
            e = gen_entry(rng)
            m = rng.randint(2, 4)
            e0 = {"op": e["op"], "w": None}
            groups.append(("rep", m, q([e], gs, b), q([e] * m, gs, b), r([e0], [1], 3, gs, b), r([e0], [m], 3, gs, b)))
    return cases, groups


def gen_hists(rng, n):
    hs = [{"z": 2, "a": 2, "algo": 0, "tight": False, "ops": [["g", 3], ["f", 5], ["f", 1]]},
          {"z": 2, "a": 0, "algo": 4, "tight": True, "ops": [["g", 2], ["g", 1]]},
          {"z": 0, "a": 0, "algo": 1, "tight": False, "ops": []}]
    while len(hs) < n:
        malformed = rng.random() < 0.08
        z, a = rng.choice([0, 0, 1, 2, 4, 8, 20]), rng.choice([0, 0, 0, 1, 3, 9])
        ops, out = [], a
        for _ in range(rng.choice([1, 2, 3, 5, 8, 12, 20])):
            if rng.random() < 0.55:
                k = rng.choice([0, 1, 1, 2, 3, 5, 9])
                ops.append(["g", k]); out += k
            else:           # mostly frees that fit, sometimes one too many
                k = rng.randint(0, max(out, 0)) if rng.random() < 0.85 else out + rng.randint(1, 3)
                ops.append(["f", k]); out -= min(k, max(out, 0))
            if malformed and rng.random() < 0.3:
                ops[-1][1] = -rng.randint(1, 4)
        hs.append({"z": z if not malformed else rng.choice([z, -1]), "a": a, "algo": rng.randint(0, 9),
                   "tight": rng.random() < 0.35, "ops": ops})
    return hs


# ------------------------------------------------------------------ Gallina printers
def g_rop(r):
    k = r[0]
    if k == "b":
        return f"(Base {gz(r[1])})"
    if k == "a":
        return f"(Adj {g_rop(r[1])})"
    if k == "c":
        return f"(Ctrl {g_rop(r[1])} {gz(r[2])} {gz(r[3])})"
    return f"(PowO {g_rop(r[1])} {gz(r[2])})"


def g_act(a):
    if a[0] == "g":
        return f"AGate {g_rop(a[1])} {gz(a[2])}"
    return f"{'AAlloc' if a[0] == 'A' else 'ADealloc'} {gz(a[1])}"


def g_dres(d):
    if d == "none":
        return "DNone"
    if d == "raise":
        return "DRaise"
    return f"(DList {glist(d, g_act)})"


def g_name(g, names, unknown):
    if "b" in g:
        s = g["b"]
        if s in names:
            return f"(NBase {gz(names[s])})"
        unknown.setdefault(s, -2 - len(unknown))
        return f"(NBase {gz(unknown[s])})"
    if "a" in g:
        return f"(NAdj {g_name(g['a'], names, unknown)})"
    if "c" in g:
        return f"(NCtrl {g_name(g['c'], names, unknown)} {gz(g['n'])} {gz(g['z'])})"
    return f"(NPow {g_name(g['pw'], names, unknown)} {gz(g['pz'])})"


def g_header(t):
    names = glist(t["base"], lambda b: f"({gz(b['code'])}, {gz(b['name'])})")
    dec = glist(t["dec"], lambda e: f"({gz(e[0])}, {g_dres(e[1])})")
    adj = glist(t["adj"], lambda e: f"({gz(e[0])}, {g_dres(e[1])})")
    ctl = glist(t["ctl"], lambda e: f"({gz(e[0][0])}, {gz(e[0][1])}, {gz(e[0][2])}, {g_dres(e[1])})")
    pw = glist(t["pow"], lambda e: f"({gz(e[0][0])}, {gz(e[0][1])}, {g_dres(e[1])})")
    return "\n".join([
        "From Coq Require Import List ZArith Bool.", "From PLV Require Import Disc.EstimatorModel.",
        "Import ListNotations.",
        f"Definition t_names : list (Z * Z) := {names}.",
        f"Definition t_dec : list (Z * dres) := {dec}.",
        f"Definition t_adj : list (Z * dres) := {adj}.",
        f"Definition t_ctl : list (Z * Z * Z * dres) := {ctl}.",
        f"Definition t_pow : list (Z * Z * dres) := {pw}.",
        f"Definition D : oracle := table_oracle t_names t_dec t_adj t_ctl t_pow {gz(t['x'])}."])


def g_workflow(c, o):
    wf = o["wf"]
    if c["path"] == "q":
        return "(WQ " + glist(wf, lambda e: f"(mkQ {g_rop(e['r'])} {glist(e['w'], gz)} {gz(e['nw'])})") + ")"
    if c["path"] == "r":
        return f"(WR {gz(o['algo'])} " + glist(wf, lambda e: f"({g_rop(e[0])}, {gz(e[1])})") + ")"
    return f"(WOp {g_rop(wf['r'])} {gz(wf['nw'])})"


def g_case(c, o, names, unknown):
    gs = c["gs"] if c["gs"] is not None else [{"b": s} for s in DEFAULT_GS]
    inp = (f"(mkE {glist(gs, lambda g: g_name(g, names, unknown))} {g_workflow(c, o)} {gz(c['z'])} {gz(c['a'])} "
           f"{gbool(c['tight'])})")
    res = o["res"]
    if res == "ERR":
        exp = "None"
    else:
        exp = (f"(Some ({glist(res['gt'], lambda e: f'({g_rop(e[0])}, {gz(e[1])})')}, {gz(res['z'])}, {gz(res['a'])}, "
               f"{gz(res['algo'])}))")
    return f"({inp}, ({exp} : obs))"


def g_hist(h, o):
    ops = glist(h["ops"], lambda e: f"{'RGrab' if e[0] == 'g' else 'RFree'} {gz(e[1])}")
    return (f"((mkWM {gz(h['z'])} {gz(h['a'])} {gz(h['algo'])} {gbool(h['tight'])}, {ops}), "
            f"({gz(o[0])}, {gz(o[1])}, {gz(o[2])}, {gz(o[3])}, {gz(o[4])}))")


# ------------------------------------------------------------------ direct oracles on the implementation
def cdict(res):
    return {json.dumps(k): v for k, v in res["gt"]}


def add_dict(a, b):
    out = dict(a)
    for k, v in b.items():
        out[k] = out.get(k, 0) + v
    return out


def nz(d):
    return {k: v for k, v in d.items() if v != 0}


def peak_total(h):
    """max(initial work wires, peak outstanding) for an error-free non-negative history"""
    w0, out = h["z"] + h["a"], h["a"]
    pk = out
    for k, n in h["ops"]:
        out += n if k == "g" else -n
        pk = max(pk, out)
    return max(w0, pk), out


def has_symbolic(op):
    return "c" not in op


def depth(op):
    for k in ("adj", "ctrl", "pow"):
        if k in op:
            return 1 + depth(op[k])
    return 0


def run(ctx):
    ctx.coq_props()
    quick = ctx.tier == "quick"
    rng = ctx.rng
    cases, groups = gen_cases(rng, 420 if quick else 6000)
    hists = gen_hists(rng, 1200 if quick else 20000)
    payload_cases = [dict(c, gs=None if c["gs"] is None else [gs_str(g) for g in c["gs"]]) for c in cases]
    out = ctx.run_impl("c47_impl.py", {"cases": payload_cases, "hists": hists})
    obs, hobs, table = out["cases"], out["hists"], out["table"]

    # ---- tie K: model evaluated in Coq on the recorded oracle table
    unknown = {}
    header = g_header(table)
    terms = [g_case(c, o, table["names"], unknown) for c, o in zip(cases, obs)]
    bad = ctx.coq_eval_cases("est", header, terms, "check_case D", chunk=60)
    for i in bad:
        ctx.violation("corr:" + json.dumps(cases[i], sort_keys=True),
                      {"case": cases[i], "implementation": obs[i],
                       "model": "coq/Gen/C47/est_*.v: check_case D is false for this case"},
                      what="estimate() differs from the proved model of the counting recursion / wire manager")
    hterms = [g_hist(h, o) for h, o in zip(hists, hobs)]
    hbad = ctx.coq_eval_cases("hist", "From PLV Require Import Disc.EstimatorModel.", hterms, "check_hist")
    for i in hbad:
        ctx.violation("corr-hist:" + json.dumps(hists[i], sort_keys=True),
                      {"history": hists[i], "implementation [failing index, zeroed, any_state, algo, total]": hobs[i]},
                      what="WireResourceManager differs from the proved model on an allocate/free history")

    # ---- hypothesis of the wire theorems on the recorded oracle: every count / allocation size >= 0
    neg = 0
    for key in ("dec", "adj", "ctl", "pow"):
        for e in table[key]:
            if isinstance(e[1], list):
                neg += sum(1 for a in e[1] if a[-1] < 0)

    imbalanced = set()
    for code, d in table["dec"]:
        if isinstance(d, list) and sum(a[1] if a[0] == "A" else -a[1] if a[0] == "D" else 0 for a in d) != 0:
            imbalanced.add(code)

    def mentions(r, codes):
        return r[1] in codes if r[0] == "b" else mentions(r[1], codes)

    # ---- direct oracles
    stat = {"q": 0, "r": 0, "op": 0, "errors": 0, "gate_set_default": 0, "symbolic_workflows": 0, "nesting>1": 0,
            "allocating": 0, "left_any_state": 0, "tight": 0, "tight_errors": 0, "add_groups_checked": 0,
            "rep_groups_checked": 0, "negative_scalar": 0,
            "imbalanced_root_with_scalar>1": 0}
    distinct = set()
    for c, o in zip(cases, obs):
        stat[c["path"]] += 1
        stat["gate_set_default"] += c["gs"] is None
        stat["tight"] += c["tight"]
        ds = [depth(e["op"]) for e in c["ops"]]
        stat["symbolic_workflows"] += any(d > 0 for d in ds)
        stat["nesting>1"] += any(d > 1 for d in ds)
        negsc = c["path"] == "r" and any(k < 0 for k in c["counts"])
        if c["path"] == "r":
            stat["imbalanced_root_with_scalar>1"] += any(mentions(e[0], imbalanced) and e[1] > 1 for e in o["wf"])
        stat["negative_scalar"] += negsc
        res = o["res"]
        if res == "ERR":
            stat["errors"] += 1
            stat["tight_errors"] += c["tight"]
            continue
        if res["z"] + res["a"] > c["z"] + c["a"]:
            stat["allocating"] += 1
        if res["a"] > c["a"]:
            stat["left_any_state"] += 1
        if len(res["gt"]) > 1:
            distinct.add(json.dumps(c, sort_keys=True))
        if not negsc:
            tot = res["z"] + res["a"] + res["algo"]
            if res["z"] < 0 or res["a"] < 0 or tot < res["algo"] or res["z"] + res["a"] < c["z"] + c["a"]:
                ctx.violation("direct-wires:" + json.dumps(c, sort_keys=True), {"case": c, "observed": res},
                              what="wire bookkeeping went negative / total below algorithmic or pre-allocated wires")
            if c["tight"] and res["z"] + res["a"] != c["z"] + c["a"]:
                ctx.violation("direct-tight:" + json.dumps(c, sort_keys=True), {"case": c, "observed": res},
                              what="tight budget but the work-wire total changed")
    for g in groups:
        if g[0] == "add":
            _, i1, i2, i12 = g
            r1, r2, r12 = obs[i1]["res"], obs[i2]["res"], obs[i12]["res"]
            if r12 != "ERR" and r1 == "ERR":
                ctx.violation("direct-prefix:" + json.dumps(cases[i12], sort_keys=True),
                              {"w1": cases[i1], "w12": cases[i12]}, what="estimate(w1+w2) succeeds but estimate(w1) raises")
            if "ERR" in (r1, r2, r12):
                continue
            stat["add_groups_checked"] += 1
            if nz(cdict(r12)) != nz(add_dict(cdict(r1), cdict(r2))):
                ctx.violation("direct-add:" + json.dumps(cases[i12], sort_keys=True),
                              {"w1": cases[i1], "w2": cases[i2], "est_w1": r1, "est_w2": r2, "est_w1w2": r12},
                              what="estimate(w1+w2) gate counts != estimate(w1) + estimate(w2)")
        else:
            _, m, i1, im, j1, jm = g
            r1, rm, s1, sm = (obs[i]["res"] for i in (i1, im, j1, jm))
            for tag, one, many, idx in (("copies", r1, rm, im), ("scalar", s1, sm, jm)):
                if "ERR" in (one, many):
                    continue
                stat["rep_groups_checked"] += 1
                if nz(cdict(many)) != nz({k: m * v for k, v in cdict(one).items()}):
                    ctx.violation(f"direct-rep-{tag}:" + json.dumps(cases[idx], sort_keys=True),
                                  {"n": m, "single": one, "repeated": many, "case": cases[idx]},
                                  what=f"gate counts of {m} {tag} != {m} * counts of one")
            if "ERR" not in (r1, s1) and nz(cdict(r1)) != nz(cdict(s1)):
                ctx.violation("direct-paths:" + json.dumps(cases[i1], sort_keys=True),
                              {"qfunc": r1, "resources": s1, "case": cases[i1]},
                              what="qfunc and Resources entry points disagree on gate counts of one operator")
    hstat = {"histories": len(hists), "raised": 0, "tight": 0, "grew": 0, "malformed": 0}
    for h, o in zip(hists, hobs):
        hstat["tight"] += h["tight"]
        hstat["raised"] += o[0] >= 0
        nonneg = h["z"] >= 0 and all(n >= 0 for _, n in h["ops"])
        hstat["malformed"] += not nonneg
        if o[1] + o[2] > h["z"] + h["a"]:
            hstat["grew"] += 1
        if not nonneg:
            continue
        bad_h = o[1] < 0 or o[2] < 0 or o[4] < o[3] or o[4] != o[1] + o[2] + o[3]
        if o[0] < 0:
            w, outst = peak_total(h)
            bad_h |= (o[1] + o[2] != w) or (o[2] != outst)
        if bad_h:
            ctx.violation("direct-hist:" + json.dumps(h, sort_keys=True), {"history": h, "observed": o},
                          what="WireResourceManager: negative count, total below algorithmic wires, or total != max(initial, peak outstanding)")
    if neg:
        ctx.notes.append(f"{neg} negative counts in the recorded oracle table: the wire theorems' hypothesis does not hold for those operators")
    n_eval = len(cases) + len(hists)
    ctx.coverage.update({
        "evaluations": n_eval, "distinct_nontrivial": len(distinct),
        "rule": "seeded generator: workflows over ~37 estimator operator classes (random parameters), 45% wrapped in Adjoint/Controlled/Pow up to depth 3, optional wire labels; entry points qfunc/Resources(scalars 0..7, rarely negative)/single operator; gate sets: default 35%, otherwise default subset + symbolic/extra names (15% may lack an indispensable gate); budgets zeroed 0..200, any_state 0..70, tight 25%; 25% additivity triples, 20% repetition groups; wire-manager histories of 1..20 grab/free requests (8% malformed: negative sizes); non-trivial = successful estimate with >1 distinct counted gate",
        "input_distribution": dict(stat, **{"hist_" + k: v for k, v in hstat.items()}),
        "oracle_table": {"base_operators": len(table["base"]), "decomp": len(table["dec"]), "adjoint": len(table["adj"]),
                         "controlled": len(table["ctl"]), "pow": len(table["pow"]), "negative_counts": neg, "imbalanced_decomps": len(imbalanced),
                         "gate_set_names_without_operator": sorted(unknown)},
    })
    shown = 0
    for c, o in zip(cases, obs):
        if shown < 4 and c["path"] != "r" or shown == 0:
            ctx.sample({"case": c, "observed": o["res"]})
            shown += 1
    ctx.sample({"history": hists[0], "observed": hobs[0]})
