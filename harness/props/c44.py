"""C44 Shots specifications are interpreted consistently."""
from vlib import *

PID = "C44"
META = {
    "level": "proof",
    "technique": "Coq proof by induction over a hand-written Gallina model of Shots + vm_compute correspondence against pennylane.measurements.Shots",
    "design_ref": "DESIGN.md §3 C44",
    "text": "12 kernel-checked theorems (Props/C44.v) state every clause of the property for all specifications: total = sum of expanded list, iteration = expansion, vector = canonical run-length encoding, bins = prefix sums, partitioned flag, add = concatenation (None neutral), mul = map with truncation, reject iff invalid. The model's executable definitions are run inside Coq on the same generated specifications and operations as the implementation and every observable is compared.",
    "note": "Trusted: Coq kernel; the hand transcription of core/shots.py is tied only by the correspondence run (generated cases, incl. malformed stream); abstract (jax tracer) shot values are not modelled; floats in Shots*float are modelled as exact dyadic rationals.",
    "assumptions": ["JAX-abstract shot values (math.is_abstract) are outside the model",
                    "Python bool shot values are outside the model"],
    "trusted": ["hand-written model coq/Disc/ShotsModel.v tied to /repo by correspondence only"],
}

BAD_ITEMS = ["float", "str", "triple", "single", "none", "fpair"]


def gen_item(rng):
    r = rng.random()
    if r < 0.55:
        return rng.choice([1, 2, 3, 5, 10, 100, rng.randint(1, 2000)])
    if r < 0.85:
        return [rng.choice([1, 2, 3, 5, 10, rng.randint(1, 50)]), rng.choice([1, 1, 2, 3, rng.randint(1, 6)])]
    if r < 0.90:
        return rng.choice([0, -1, -7])
    if r < 0.95:
        return [rng.choice([0, 3, -2]), rng.choice([0, 2, -1])]
    return {"bad": rng.choice(BAD_ITEMS)}


def gen_spec(rng, valid_bias=0.8):
    r = rng.random()
    if r < 0.08:
        return None
    if r < 0.2:
        return rng.choice([1, 2, 7, 100, 123456789012]) if rng.random() < 0.8 else rng.choice([0, -3])
    if r < 0.23:
        return {"bad": rng.choice(["float", "str"])}
    n = rng.choice([0, 1, 1, 2, 3, 4, 5, 6, 8])
    items = []
    for _ in range(n):
        if items and rng.random() < 0.4:   # force mergeable neighbours
            prev = items[-1]
            s = prev if isinstance(prev, int) else (prev[0] if isinstance(prev, list) else 3)
            items.append(s if rng.random() < 0.5 else [s, rng.randint(1, 3)])
        else:
            it = gen_item(rng)
            if rng.random() < valid_bias and (isinstance(it, dict) or (isinstance(it, int) and it < 1) or (isinstance(it, list) and min(it) < 1)):
                it = rng.randint(1, 9)
            items.append(it)
    return items


def g_item(i):
    if isinstance(i, dict):
        return "IBad"
    if isinstance(i, list):
        return f"(IPair {gz(i[0])} {gz(i[1])})"
    return f"(IInt {gz(i)})"


def g_spec(s):
    if s is None:
        return "SNone"
    if isinstance(s, dict):
        return "SBad"
    if isinstance(s, list):
        return f"(SSeq {glist(s, g_item)})"
    return f"(SInt {gz(s)})"


def g_obs(o):
    if o == "ERR":
        return "None"
    tot = gopt(o["total"], gz)
    pr = lambda p: f"({gz(p[0])}, {gz(p[1])})"
    return (f"(Some ({tot}, {glist(o['vec'], pr)}, {glist(o['iter'], gz)}, {glist(o['bins'], pr)}, "
            f"{gbool(o['part'])}, {gz(o['ncopies'])}))")


def g_case(c):
    if c["op"] == "mk":
        return f"OMk {g_spec(c['a'])}"
    if c["op"] == "add":
        return f"OAdd {g_spec(c['a'])} {g_spec(c['b'])}"
    return f"OMul {g_spec(c['a'])} {gz(c['p'])} {gz(c['q'])}"


def direct_oracle(c, o):
    """the property itself, evaluated on the implementation's observations (used for the search)"""
    if o == "ERR":
        return True
    it = o["iter"]
    ok = (o["total"] is None and it == []) or o["total"] == sum(it)
    exp = [s for s, k in o["vec"] for _ in range(k)]
    ok &= exp == it
    ok &= all(o["vec"][j][0] != o["vec"][j + 1][0] for j in range(len(o["vec"]) - 1))
    acc, bins = 0, []
    for s in it:
        bins.append([acc, acc + s]); acc += s
    ok &= bins == o["bins"] and o["ncopies"] == len(it) and o["part"] == (len(it) > 1)
    return ok


def run(ctx):
    ctx.coq_props()
    n = 1500 if ctx.tier == "quick" else 12000
    rng = ctx.rng
    cases = [  # corpus first
        {"op": "mk", "a": [3, 3, [3, 2], 4]}, {"op": "mk", "a": []}, {"op": "mk", "a": [[5, 1], [5, 1]]},
        {"op": "mul", "a": [4, [6, 2]], "p": 1, "q": 4}, {"op": "add", "a": None, "b": [1, 2]},
        {"op": "add", "a": [2, 2], "b": [2, [2, 3]]}, {"op": "mul", "a": [1, 5], "p": 1, "q": 2},
    ]
    while len(cases) < n:
        r = rng.random()
        if r < 0.5:
            cases.append({"op": "mk", "a": gen_spec(rng)})
        elif r < 0.75:
            cases.append({"op": "add", "a": gen_spec(rng, 0.95), "b": gen_spec(rng, 0.95)})
        else:
            p, q = rng.choice([(2, 1), (3, 1), (1, 1), (0, 1), (-1, 1), (1, 2), (1, 4), (3, 2), (3, 4), (5, 2), (2, 1)])
            cases.append({"op": "mul", "a": gen_spec(rng, 0.95), "p": p, "q": q})
    obs = ctx.run_impl("c44_impl.py", {"cases": cases})
    terms = [f"({g_case(c)}, {g_obs(o)})" for c, o in zip(cases, obs)]
    bad = ctx.coq_eval_cases("cases", "From PLV Require Import Disc.ShotsModel.", terms, "check_case")
    hist = {"mk": 0, "add": 0, "mul": 0, "errors": 0, "merged": 0}
    distinct = set()
    for c, o in zip(cases, obs):
        hist[c["op"]] += 1
        if o == "ERR":
            hist["errors"] += 1
        else:
            if len(o["vec"]) < len(o["iter"]):
                hist["merged"] += 1
            if len(o["iter"]) > 1:
                distinct.add(json.dumps(c, sort_keys=True))
        if not direct_oracle(c, o):
            ctx.violation("direct:" + json.dumps(c, sort_keys=True), {"case": c, "observed": o},
                          what="Shots observers disagree with the expanded list")
    for i in bad:
        c, o = cases[i], obs[i]
        # the model is proved to satisfy the property; a disagreement means the implementation (or the
        # tie) changed.  If the direct oracle also fails it is reported above; report the diverging case.
        ctx.violation("corr:" + json.dumps(c, sort_keys=True), {"case": c, "implementation": o,
                      "model": "see coq/Gen/C44 (run shows model differs)"},
                      found_input=True, what="implementation differs from the proved model of Shots")
    ctx.coverage.update({"evaluations": len(cases), "distinct_nontrivial": len(distinct),
                         "rule": "seeded generator: specs None/int/sequence (mergeable neighbours forced 40%), malformed stream ~15%; ops mk/add/mul (int and dyadic scalars); non-trivial = accepted spec expanding to >1 entry",
                         "input_distribution": hist})
    for c, o in list(zip(cases, obs))[:4]:
        ctx.sample({"case": c, "observed": o})
