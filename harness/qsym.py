"""QSym: the translator of the proof engine = symbolic execution of PennyLane's own numeric code.

Scalars:
  Lin  – a real (or purely imaginary) linear form  u * (sum_j a_j*theta_j + b*pi + c),  a_j,b,c in Q,
         u in {1, i}.  This is what gate *parameters* are (theta/2, -phi, theta+pi/2, 1j*theta ...).
  Sym  – an element of the Laurent-polynomial ring K_N[z_1^±1..z_m^±1], K_N = Q(zeta_N),
         z_j = exp(i*theta_j/D).  This is what matrix *entries* are.
cos/sin/exp map Lin -> Sym exactly.  Anything that is not expressible raises NotExtractable
(fail closed).  The module-level CFG fixes N (root-of-unity order) and D for a session.

PennyLane's compute_matrix / decomposition code runs unchanged on numpy object arrays holding
these scalars (numpy dispatches ufuncs on object arrays to the methods .cos/.sin/.exp/.conjugate/.sqrt).
"""
from __future__ import annotations
import cmath, math
from fractions import Fraction as Fr
from functools import lru_cache
import numpy as np


class NotExtractable(Exception):
    pass


class Cfg:
    N = 8      # zeta = exp(2 pi i / N);  hz = N/2 ; zeta^hz = -1
    D = 8      # z_j = exp(i theta_j / D)
    nvars = 0


CFG = Cfg()
SQRT_TABLE = []   # list of (square : Sym, root : Sym), set by the harness for the current extraction


def set_cfg(N=8, D=8, nvars=0):
    CFG.N, CFG.D, CFG.nvars = N, D, nvars
    recognise_const.cache_clear()


def hz():
    return CFG.N // 2


# ----------------------------------------------------------------------------- K_N = Q(zeta_N)
def k_zero():
    return (Fr(0),) * hz()


def k_const(q):
    return (Fr(q),) + (Fr(0),) * (hz() - 1)


def k_zeta_pow(e):
    h = hz()
    e %= 2 * h
    s = 1
    if e >= h:
        e -= h
        s = -1
    return tuple(Fr(s) if i == e else Fr(0) for i in range(h))


def k_add(a, b):
    return tuple(x + y for x, y in zip(a, b))


def k_neg(a):
    return tuple(-x for x in a)


def k_scale(a, q):
    return tuple(x * q for x in a)


def k_mul(a, b):
    h = hz()
    r = [Fr(0)] * h
    for i, x in enumerate(a):
        if x == 0:
            continue
        for j, y in enumerate(b):
            if y == 0:
                continue
            k = i + j
            if k >= h:
                r[k - h] -= x * y
            else:
                r[k] += x * y
    return tuple(r)


def k_conj(a):
    # zeta^k -> zeta^-k = -zeta^(hz-k)
    h = hz()
    r = [Fr(0)] * h
    r[0] = a[0]
    for k in range(1, h):
        r[h - k] -= a[k]
    return tuple(r)


def k_num(a):
    z = cmath.exp(2j * math.pi / CFG.N)
    return sum(float(x) * z ** k for k, x in enumerate(a))


def k_is_zero(a):
    return not any(a)


def k_inv(a):
    """inverse in the field via linear algebra over Q"""
    h = hz()
    # matrix of multiplication by a
    cols = [k_mul(a, k_zeta_pow(j)) for j in range(h)]
    M = [[cols[j][i] for j in range(h)] + [Fr(1 if i == 0 else 0)] for i in range(h)]
    for c in range(h):
        p = next((r for r in range(c, h) if M[r][c] != 0), None)
        if p is None:
            raise NotExtractable("division by zero in K_N")
        M[c], M[p] = M[p], M[c]
        pv = M[c][c]
        M[c] = [x / pv for x in M[c]]
        for r in range(h):
            if r != c and M[r][c] != 0:
                f = M[r][c]
                M[r] = [x - f * y for x, y in zip(M[r], M[c])]
    return tuple(M[i][h] for i in range(h))


@lru_cache(maxsize=100000)
def recognise_const(c):
    """complex float -> element of K_N (exact), or raise NotExtractable."""
    c = complex(c)
    h = hz()
    # fast path: Gaussian rationals
    def rat(x):
        f = Fr(x).limit_denominator(4096)
        return f if abs(float(f) - x) < 1e-13 * max(1, abs(x)) else None
    ra, ia = rat(c.real), rat(c.imag)
    if ra is not None and ia is not None:
        r = list(k_const(ra))
        if ia != 0:
            r = list(k_add(tuple(r), k_scale(k_zeta_pow(h // 2), ia)))
        return tuple(r)
    import mpmath
    mpmath.mp.dps = 30
    # surd path: real and imaginary parts as a + b*sqrt2 (+ c*sqrt3 + d*sqrt6 when 24 | N)
    if CFG.N % 8 == 0:
        e8 = CFG.N // 8
        r2 = k_add(k_zeta_pow(e8), k_neg(k_zeta_pow(3 * e8)))
        surds = [(mpmath.sqrt(2), r2)]
        if CFG.N % 24 == 0:
            e12 = CFG.N // 12
            r3 = k_add(k_zeta_pow(e12), k_neg(k_zeta_pow(5 * e12)))
            surds += [(mpmath.sqrt(3), r3), (mpmath.sqrt(6), k_mul(r2, r3))]
        I_ = k_zeta_pow(h // 2)

        def part(x):
            if abs(x) < 1e-15:
                return k_zero()
            rel = mpmath.pslq([mpmath.mpf(x), mpmath.mpf(1)] + [sv for sv, _ in surds], tol=mpmath.mpf(10) ** -12, maxcoeff=20000, maxsteps=100000)
            if rel is None or rel[0] == 0:
                return None
            acc = k_const(Fr(-rel[1], rel[0]))
            for (sv, kv), r in zip(surds, rel[2:]):
                acc = k_add(acc, k_scale(kv, Fr(-r, rel[0])))
            return acc
        pr, pi_ = part(c.real), part(c.imag)
        if pr is not None and pi_ is not None:
            a = k_add(pr, k_mul(pi_, I_))
            if abs(k_num(a) - c) < 1e-11:
                return a
    basis = [cmath.exp(2j * math.pi * k / CFG.N) for k in range(h)]
    # real-linear system: find rationals a_k with sum a_k zeta^k = c ; use PSLQ on real and imaginary parts jointly
    # trick: combine as  re + T*im  with a transcendental-looking T to get a single relation
    T = mpmath.mpf("1.2345678910111213141516171819202122232425")
    vec = [mpmath.mpf(c.real) + T * mpmath.mpf(c.imag)] + [mpmath.mpf(b.real) + T * mpmath.mpf(b.imag) for b in basis]
    rel = mpmath.pslq(vec, tol=mpmath.mpf(10) ** -11, maxcoeff=5000, maxsteps=100000)
    if rel is None or rel[0] == 0:
        raise NotExtractable(f"unrecognised constant {c} in Q(zeta_{CFG.N})")
    a = tuple(Fr(-r, rel[0]) for r in rel[1:])
    if abs(k_num(a) - c) > 1e-11:
        raise NotExtractable(f"unrecognised constant {c}")
    return a


def recognise_real_lin(x):
    """float -> (pi_coeff, rational const) for use inside an angle expression; rational first if small"""
    x = float(x)
    f = Fr(x).limit_denominator(64)
    if abs(float(f) - x) < 1e-14 * max(1, abs(x)):
        return Fr(0), f
    g = Fr(x / math.pi).limit_denominator(256)
    if abs(float(g) * math.pi - x) < getattr(CFG, "pi_tol", 1e-13) * max(1, abs(x)):
        return g, Fr(0)
    f = Fr(x).limit_denominator(1 << 20)
    if abs(float(f) - x) < 1e-15 * max(1, abs(x)):
        return Fr(0), f
    raise NotExtractable(f"unrecognised real constant {x} in angle expression")


# ----------------------------------------------------------------------------- Lin
class Lin:
    __array_priority__ = 2000
    __slots__ = ("a", "b", "c", "im")

    def __init__(self, a, b=Fr(0), c=Fr(0), im=False):
        self.a = tuple(Fr(x) for x in a)
        self.b = Fr(b)
        self.c = Fr(c)
        self.im = bool(im)

    @staticmethod
    def var(j, n=None):
        n = CFG.nvars if n is None else n
        return Lin([1 if i == j else 0 for i in range(n)])

    @staticmethod
    def of(x):
        if isinstance(x, Lin):
            return x
        if isinstance(x, Sym):
            q = x.as_rational()
            if q is None:
                raise NotExtractable("ring element used as an angle")
            return Lin([0] * CFG.nvars, 0, q)
        if isinstance(x, (bool, np.bool_)):
            x = int(x)
        if isinstance(x, (int, np.integer, Fr)):
            return Lin([0] * CFG.nvars, 0, Fr(int(x)) if not isinstance(x, Fr) else x)
        x = complex(x)
        if x.imag == 0:
            b, c = recognise_real_lin(x.real)
            return Lin([0] * CFG.nvars, b, c)
        if x.real == 0:
            b, c = recognise_real_lin(x.imag)
            return Lin([0] * CFG.nvars, b, c, im=True)
        raise NotExtractable(f"complex constant {x} in angle expression")

    def is_const(self):
        return not any(self.a)

    def is_zero(self):
        return not any(self.a) and self.b == 0 and self.c == 0

    def _pad(self, n):
        return self.a + (Fr(0),) * (n - len(self.a))

    def __add__(self, o):
        if isinstance(o, Sym):
            return self.to_sym() + o
        o = Lin.of(o)
        if o.is_zero():
            return self
        if self.is_zero():
            return o
        if self.im != o.im:
            raise NotExtractable("real + imaginary angle")
        n = max(len(self.a), len(o.a))
        return Lin([x + y for x, y in zip(self._pad(n), o._pad(n))], self.b + o.b, self.c + o.c, self.im)
    __radd__ = __add__

    def __neg__(self):
        return Lin([-x for x in self.a], -self.b, -self.c, self.im)

    def __pos__(self):
        return self

    def __sub__(self, o):
        if isinstance(o, Sym):
            return self.to_sym() - o
        return self + (-Lin.of(o))

    def __rsub__(self, o):
        return (-self) + o

    def scale(self, q):
        return Lin([x * q for x in self.a], self.b * q, self.c * q, self.im)

    def __mul__(self, o):
        if isinstance(o, Sym):
            q = o.as_rational()
            if q is not None:
                return self.scale(q)
            return self.to_sym() * o
        if isinstance(o, Lin):
            if o.is_const() and o.b == 0:
                r = self.scale(o.c)
                if o.im:
                    r = r._times_i()
                return r
            if self.is_const() and self.b == 0:
                return o * self
            raise NotExtractable("product of two angle expressions")
        if isinstance(o, (bool, np.bool_)):
            o = int(o)
        if isinstance(o, (int, np.integer, Fr)):
            return self.scale(Fr(int(o)) if not isinstance(o, Fr) else o)
        o = complex(o)
        if o.imag == 0:
            b, c = recognise_real_lin(o.real)
            if b != 0:
                if self.is_const() and self.b == 0:      # rational * (q pi)
                    return Lin([0] * len(self.a), b * self.c, 0, self.im)
                raise NotExtractable("angle * pi-multiple")
            return self.scale(c)
        if o.real == 0:
            b, c = recognise_real_lin(o.imag)
            if b != 0:
                raise NotExtractable("angle * i*pi-multiple")
            return self.scale(c)._times_i()
        raise NotExtractable("angle * general complex")
    __rmul__ = __mul__

    def _times_i(self):
        if self.im:
            return Lin([-x for x in self.a], -self.b, -self.c, False)
        return Lin(self.a, self.b, self.c, True)

    def __truediv__(self, o):
        if isinstance(o, Sym):
            q = o.as_rational()
            if q is None:
                raise NotExtractable("angle / ring element")
            return self.scale(1 / q)
        if isinstance(o, Lin):
            if o.is_const() and o.b == 0 and o.c != 0 and not o.im:
                return self.scale(1 / o.c)
            raise NotExtractable("angle / angle")
        if isinstance(o, (int, np.integer)):
            return self.scale(Fr(1, int(o)))
        b, c = recognise_real_lin(float(o))
        if b != 0 or c == 0:
            raise NotExtractable("angle / irrational")
        return self.scale(1 / c)

    def __rtruediv__(self, o):
        return Sym.of(o) / self.to_sym()

    def __mod__(self, o):
        # parameters are formal reals: x % (2 pi k) is the identity on everything periodic; keep x
        raise NotExtractable("modulo on a symbolic angle")

    def __pow__(self, k):
        return self.to_sym() ** k

    def _monomial(self, sign=1):
        """exp(i*sign*self) for a real form, as a Sym monomial"""
        if self.c != 0:
            raise NotExtractable("exp of i*(rational): transcendental")
        ex = []
        for x in self.a:
            e = x * CFG.D * sign
            if e.denominator != 1:
                raise NotExtractable(f"angle coefficient {x} not a multiple of 1/D (D={CFG.D})")
            ex.append(int(e))
        p = self.b * hz() * sign          # exp(i b pi) = zeta^(b*hz)
        if p.denominator != 1:
            raise NotExtractable(f"pi-multiple {self.b} not representable with N={CFG.N}")
        ex = tuple(ex) + (0,) * (CFG.nvars - len(ex))
        return Sym({ex: k_zeta_pow(int(p))})

    def exp(self):
        if self.is_zero():
            return Sym.of(1)
        if self.im:
            return self._monomial()
        raise NotExtractable("exp of a real angle expression")

    def cos(self):
        if self.im:
            raise NotExtractable("cos of imaginary")
        return (self._monomial(1) + self._monomial(-1)) * Fr(1, 2)

    def sin(self):
        if self.im:
            raise NotExtractable("sin of imaginary")
        d = self._monomial(1) - self._monomial(-1)
        return d * Sym({(0,) * CFG.nvars: k_scale(k_zeta_pow(hz() // 2), Fr(-1, 2))})   # 1/(2i) = -i/2

    def conjugate(self):
        return -self if self.im else self
    conj = conjugate

    @property
    def real(self):
        return Lin.of(0) if self.im else self

    @property
    def imag(self):
        return Lin(self.a, self.b, self.c, False) if self.im else Lin.of(0)

    def to_sym(self):
        if self.is_const() and self.b == 0:
            s = Sym.of(self.c)
            return s * Sym.of(1j) if self.im else s
        raise NotExtractable("angle expression used as a matrix entry / in a product (non-polynomial)")

    def num(self, thetas):
        v = sum(float(x) * t for x, t in zip(self.a, thetas)) + float(self.b) * math.pi + float(self.c)
        return 1j * v if self.im else v

    def __abs__(self):
        if self.is_const() and self.b == 0:
            return Lin([0] * len(self.a), 0, abs(self.c))
        raise NotExtractable("abs of symbolic angle")

    def __eq__(self, o):
        try:
            o = Lin.of(o)
        except Exception:
            return False
        n = max(len(self.a), len(o.a))
        if self._pad(n) == o._pad(n) and self.b == o.b and self.c == o.c and (self.im == o.im or self.is_zero()):
            return True
        if self.is_const() and o.is_const():
            return False
        raise NotExtractable("data-dependent comparison on a symbolic angle")

    def __ne__(self, o):
        return not self.__eq__(o)

    def _cmp(self, o):
        o = Lin.of(o)
        if self.is_const() and o.is_const() and not self.im and not o.im:
            return (float(self.b) * math.pi + float(self.c)) - (float(o.b) * math.pi + float(o.c))
        raise NotExtractable("data-dependent comparison on a symbolic angle")

    def __lt__(self, o): return self._cmp(o) < 0
    def __le__(self, o): return self._cmp(o) <= 0
    def __gt__(self, o): return self._cmp(o) > 0
    def __ge__(self, o): return self._cmp(o) >= 0

    def __hash__(self):
        return hash((self.a, self.b, self.c, self.im))

    def __bool__(self):
        if self.is_const():
            return not self.is_zero()
        raise NotExtractable("truth value of a symbolic angle")

    def __float__(self):
        if self.is_const() and not self.im:
            return float(self.b) * math.pi + float(self.c)
        raise TypeError("symbolic angle")

    def __complex__(self):
        if self.is_const():
            return complex(self.num([]))
        raise TypeError("symbolic angle")

    def __repr__(self):
        return f"Lin({[str(x) for x in self.a]},pi*{self.b},{self.c}{',i' if self.im else ''})"


# ----------------------------------------------------------------------------- Sym
class Sym:
    __array_priority__ = 2000
    __slots__ = ("t",)

    def __init__(self, t=None):
        self.t = {m: c for m, c in (t or {}).items() if any(c)}

    @staticmethod
    def of(x):
        if isinstance(x, Sym):
            return x
        if isinstance(x, Lin):
            return x.to_sym()
        m0 = (0,) * CFG.nvars
        if isinstance(x, (bool, np.bool_)):
            x = int(x)
        if isinstance(x, (int, np.integer)):
            return Sym({m0: k_const(int(x))})
        if isinstance(x, Fr):
            return Sym({m0: k_const(x)})
        if isinstance(x, np.ndarray) and x.shape == ():
            return Sym.of(x.item())
        return Sym({m0: recognise_const(complex(x))})

    def as_rational(self):
        if not self.t:
            return Fr(0)
        if len(self.t) == 1:
            (m, c), = self.t.items()
            if not any(m) and not any(c[1:]):
                return c[0]
        return None

    def as_const(self):
        if not self.t:
            return k_zero()
        if len(self.t) == 1:
            (m, c), = self.t.items()
            if not any(m):
                return c
        return None

    @staticmethod
    def _arr(o):
        return isinstance(o, np.ndarray) and o.ndim > 0

    def _bc(self, o, f):
        out = np.empty(o.shape, dtype=object)
        for i, x in enumerate(o.flat):
            out.flat[i] = f(x)
        return out

    def __add__(self, o):
        if Sym._arr(o):
            return self._bc(o, lambda x: self + x)
        o = Sym.of(o)
        t = dict(self.t)
        for m, c in o.t.items():
            t[m] = k_add(t[m], c) if m in t else c
        return Sym(t)
    __radd__ = __add__

    def __neg__(self):
        return Sym({m: k_neg(c) for m, c in self.t.items()})

    def __pos__(self):
        return self

    def __sub__(self, o):
        if Sym._arr(o):
            return self._bc(o, lambda x: self - x)
        return self + (-Sym.of(o))

    def __rsub__(self, o):
        if Sym._arr(o):
            return self._bc(o, lambda x: x - self)
        return Sym.of(o) + (-self)

    def __mul__(self, o):
        if Sym._arr(o):
            return self._bc(o, lambda x: self * x)
        if isinstance(o, Lin) and not (o.is_const() and o.b == 0):
            raise NotExtractable("matrix entry * symbolic angle (non-polynomial)")
        o = Sym.of(o)
        t = {}
        for m1, c1 in self.t.items():
            for m2, c2 in o.t.items():
                m = tuple(a + b for a, b in zip(m1, m2))
                p = k_mul(c1, c2)
                t[m] = k_add(t[m], p) if m in t else p
        return Sym(t)
    __rmul__ = __mul__

    def inv(self):
        if len(self.t) != 1:
            raise NotExtractable("division by a non-monomial ring element")
        (m, c), = self.t.items()
        return Sym({tuple(-e for e in m): k_inv(c)})

    def __truediv__(self, o):
        return self * Sym.of(o).inv()

    def __rtruediv__(self, o):
        return Sym.of(o) * self.inv()

    def __pow__(self, k):
        if isinstance(k, (Sym, Lin)):
            q = Sym.of(k).as_rational()
            if q is None or q.denominator != 1:
                raise NotExtractable("non-integer power")
            k = int(q)
        if isinstance(k, float):
            if k != int(k):
                if k == 0.5:
                    return self.sqrt()
                raise NotExtractable("non-integer power")
            k = int(k)
        k = int(k)
        if k < 0:
            return self.inv() ** (-k)
        r, b = Sym.of(1), self
        while k:
            if k & 1:
                r = r * b
            b = b * b
            k >>= 1
        return r

    def conjugate(self):
        return Sym({tuple(-e for e in m): k_conj(c) for m, c in self.t.items()})
    conj = conjugate

    @property
    def real(self):
        return (self + self.conjugate()) * Fr(1, 2)

    @property
    def imag(self):
        return (self - self.conjugate()) * Sym({(0,) * CFG.nvars: k_scale(k_zeta_pow(hz() // 2), Fr(-1, 2))})

    def sqrt(self):
        q = self.as_rational()
        if q is not None and q >= 0:
            return Sym.of(math.sqrt(float(q)))
        # registered square roots (harness declares e.g. sqrt(sin^2) = sin on the documented domain)
        for sq, root in SQRT_TABLE:
            if (self - sq).t == {}:
                return root
            # proportional: self = c * sq with c a non-negative rational
            if sq.t and set(self.t) == set(sq.t):
                m0 = next(iter(sq.t))
                k0 = next(i for i, x in enumerate(sq.t[m0]) if x != 0)
                if self.t[m0][k0] != 0:
                    c = self.t[m0][k0] / sq.t[m0][k0]
                    if c > 0 and (self - sq * c).t == {}:
                        return root * Sym.of(math.sqrt(float(c)))
        raise NotExtractable("sqrt of a ring element")

    def exp(self):
        q = self.as_const()
        if q is not None and k_is_zero(q):
            return Sym.of(1)
        raise NotExtractable("exp of a ring element")

    def cos(self):
        if not self.t:
            return Sym.of(1)
        raise NotExtractable("cos of a ring element")

    def sin(self):
        if not self.t:
            return Sym.of(0)
        raise NotExtractable("sin of a ring element")

    def __abs__(self):
        q = self.as_rational()
        if q is not None:
            return Sym.of(abs(q))
        raise NotExtractable("abs of a ring element")

    def num(self, thetas):
        tot = 0
        for m, c in self.t.items():
            ph = sum(e * t / CFG.D for e, t in zip(m, thetas))
            tot += k_num(c) * cmath.exp(1j * ph)
        return tot

    def __eq__(self, o):
        try:
            o = Sym.of(o)
        except Exception:
            return False
        d = self - o
        if not d.t:
            return True
        if self.as_const() is not None and o.as_const() is not None:
            return False
        raise NotExtractable("data-dependent comparison on a ring element")

    def __ne__(self, o):
        return not self.__eq__(o)

    def __hash__(self):
        return hash(tuple(sorted(self.t.items())))

    def __bool__(self):
        if self.as_const() is not None:
            return bool(self.t)
        raise NotExtractable("truth value of a ring element")

    def __float__(self):
        q = self.as_rational()
        if q is not None:
            return float(q)
        raise TypeError("symbolic ring element")

    def __complex__(self):
        c = self.as_const()
        if c is not None:
            return complex(k_num(c))
        raise TypeError("symbolic ring element")

    def __repr__(self):
        return "Sym" + str({m: tuple(str(x) for x in c) for m, c in self.t.items()})

    # ---- Gallina
    def gallina(self):
        terms = []
        for m in sorted(self.t):
            c = self.t[m]
            for k, q in enumerate(c):
                if q != 0:
                    ex = [k] + list(m)
                    while ex and ex[-1] == 0:
                        ex.pop()
                    es = "; ".join(f"({e})" if e < 0 else str(e) for e in ex)
                    terms.append(f"(({q.numerator}) # {q.denominator}, [{es}]%Z)")
        return "[" + "; ".join(terms) + "]"


def to_sym(x):
    return Sym.of(x)


def sym_array(a):
    """numpy (object or numeric) array -> nested lists of Sym"""
    a = np.asarray(a, dtype=object) if not isinstance(a, np.ndarray) else a
    if a.ndim == 0:
        return Sym.of(a.item())
    return [sym_array(x) for x in a]


def gallina_mat(M):
    return "[" + ";\n  ".join("[" + "; ".join(e.gallina() for e in row) + "]" for row in M) + "]"


def num_mat(M, thetas):
    return np.array([[e.num(thetas) for e in row] for row in M], dtype=complex)


def var_array(j):
    """the formal parameter theta_j as a shape-(1,) object array (keeps ndarray-ness in PennyLane code)"""
    a = np.empty((1,), dtype=object)
    a[0] = Lin.var(j)
    return a


def lin_array(l):
    a = np.empty((1,), dtype=object)
    a[0] = l
    return a
