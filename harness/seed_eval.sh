#!/bin/bash
# usage: seed_eval.sh <PID> <i>   -- confirms a candidate seeded change from /tmp/mut_<pid>_out and runs our check on it
# (scratch worktree /tmp/mut_<pid>; never touches /repo).  Writes /tmp/seed_results/<PID>_<i>.json
PID=$1; I=$2; lc=$(echo $PID | tr 'A-Z' 'a-z'); WT=/tmp/mut_${lc}_$I; OUT=/tmp/mut_${lc}_out; RES=/tmp/seed_results; mkdir -p $RES
HEAD=$(git -C /repo rev-parse HEAD)
git -C /repo worktree remove --force $WT >/dev/null 2>&1
git -C /repo worktree add --detach $WT $HEAD >/dev/null 2>&1 || { echo "{\"pid\":\"$PID\",\"i\":$I,\"error\":\"worktree\"}" > $RES/${PID}_$I.json; exit 0; }
clean_demo=$(cd /tmp && PYTHONPATH=$WT PYTHONHASHSEED=0 timeout 900 /venv/bin/python $OUT/demo$I.py 2>&1 | grep -E "^PROPERTY" | head -1)
if ! git -C $WT apply $OUT/patch$I.diff 2>/tmp/seed_results/${PID}_$I.applyerr; then
  echo "{\"pid\":\"$PID\",\"i\":$I,\"error\":\"patch does not apply to current HEAD\"}" > $RES/${PID}_$I.json; git -C /repo worktree remove --force $WT; exit 0; fi
imp=$(cd /tmp && PYTHONPATH=$WT /venv/bin/python -c "import pennylane; print('ok')" 2>&1 | tail -1)
mut_demo=$(cd /tmp && PYTHONPATH=$WT PYTHONHASHSEED=0 timeout 900 /venv/bin/python $OUT/demo$I.py 2>&1 | grep -E "^PROPERTY" | head -1)
# pinned suite on the mutated tree
(cd $WT && PYTHONPATH=$WT timeout 1800 /venv/bin/python -m pytest -ra -q -p no:cacheprovider --timeout=900 --continue-on-collection-errors --junitxml=$RES/${PID}_$I.junit.xml > $RES/${PID}_$I.pytest.log 2>&1)
suite=$(/venv/bin/python - <<PY
import json, xml.etree.ElementTree as ET
b=json.load(open('/root/.vp/BASELINE.json'))['stable_pass']
try:
    res={}
    for tc in ET.parse('$RES/${PID}_$I.junit.xml').iter('testcase'):
        res[tc.get('classname','')+"::"+tc.get('name','')]=not any(ch.tag in ('failure','error','skipped') for ch in tc)
    miss=[s for s in b if s!="::" and not res.get(s, False)]
    print(json.dumps({"baseline_tests":len(b)-1,"not_passing":len(miss),"examples":miss[:3]}))
except Exception as e:
    print(json.dumps({"error":repr(e)}))
PY
)
# our check against the mutated tree
chk=$(cd /verif && VERIF_REPO=$WT timeout 3000 ./check $PID 2>&1 | grep -E "^VIOLATION|^KNOWN|^\[C" | head -12)
viol=$(echo "$chk" | grep -c "^VIOLATION")
/venv/bin/python - <<PY > $RES/${PID}_$I.json
import json
print(json.dumps({"pid":"$PID","i":$I,"clean_demo":"""$clean_demo"""[:300],"mutated_demo":"""$mut_demo"""[:400],"import":"$imp","suite":$suite,"check_violations":$viol,"check_output":"""$chk"""[:1500]}))
PY
# keep replays of the detection as evidence next to the seed, then clean the global replay dir of them
git -C /repo worktree remove --force $WT >/dev/null 2>&1
cat $RES/${PID}_$I.json | cut -c1-600
