"""Circuit generator and reference polynomials shared by the differentiation properties (C34, C37, C38)."""
import sys, json, random, math, time, warnings, itertools
sys.path.insert(0, "/verif/harness")
warnings.filterwarnings("ignore")
from gradlib import *

rng = random.Random(0)


def set_rng(r):
    global rng
    rng = r


PI = math.pi
ONEQ = ["RX", "RY", "RZ", "PhaseShift"]
TWOQ = ["CRX", "CRY", "CRZ", "ControlledPhaseShift", "IsingXX", "IsingYY", "IsingZZ", "IsingXY", "SingleExcitation"]
FIXED1 = ["Hadamard", "S", "T", "PauliX", "PauliY", "PauliZ", "SX"]
FIXED2 = ["CNOT", "CZ", "SWAP", "CY"]
PYTH = [(3, 4), (4, 3), (5, 12), (12, 5), (8, 15)]


def fixed_angle():
    if rng.random() < 0.5:
        return rng.choice([1, 2, 3, -1, -2, 5, 6, 7]) * PI / 4
    p, q = rng.choice(PYTH)
    return 2 * math.atan2(rng.choice([1, -1]) * q, p)


def gen_expr(nx):
    k = rng.random()
    i = rng.randrange(nx)
    if k < 0.55:
        return ["lin", i, rng.choice([1, 1, 1, 2, -1, 0.5]), rng.choice([0, 0, PI / 4, -PI / 2])]
    if k < 0.7 and nx > 1:
        return ["prod", i, (i + 1) % nx]
    if k < 0.85:
        return ["sin", i]
    return ["sq", i]


def gen_spec(light=False):
    nw = rng.choice([1, 2, 2, 3]) if not light else rng.choice([1, 2])
    nx = rng.choice([1, 2, 2, 3])
    steps = []
    ntrain = 0
    target = rng.choice([1, 2, 3, 4]) if not light else rng.choice([1, 2, 3])
    for _ in range(rng.randint(3, 7)):
        r = rng.random()
        if r < 0.45 and ntrain < target:
            if nw >= 2 and rng.random() < 0.4:
                name = rng.choice(TWOQ)
                ws = rng.sample(range(nw), 2)
            else:
                name = rng.choice(ONEQ + (["Rot"] if rng.random() < 0.15 else []))
                ws = [rng.randrange(nw)]
            if name == "Rot":
                ps = [gen_expr(nx), ["fix", fixed_angle()], gen_expr(nx)]
                ntrain += 2
            else:
                ps = [gen_expr(nx)]
                ntrain += 1
            steps.append({"name": name, "wires": ws, "params": ps})
        elif r < 0.6:
            if rng.random() < 0.3:      # non-trainable multi-parameter gate (parameter-index bookkeeping of adjoint / shift rules)
                name = rng.choice(["Rot", "U3", "U2"])
                k = {"Rot": 3, "U3": 3, "U2": 2}[name]
                steps.append({"name": name, "wires": [rng.randrange(nw)], "params": [["fix", fixed_angle()] for _ in range(k)]})
            else:
                name = rng.choice(ONEQ)
                steps.append({"name": name, "wires": [rng.randrange(nw)], "params": [["fix", fixed_angle()]]})
        elif r < 0.8 or nw == 1:
            steps.append({"name": rng.choice(FIXED1), "wires": [rng.randrange(nw)], "params": []})
        else:
            steps.append({"name": rng.choice(FIXED2), "wires": rng.sample(range(nw), 2), "params": []})
    if ntrain == 0:
        steps.append({"name": "RY", "wires": [0], "params": [gen_expr(nx)]})
    meas = []
    for _ in range(rng.choice([1, 1, 2, 3])):
        k = rng.random()
        if k < 0.45:
            ws = rng.sample(range(nw), rng.randint(1, min(nw, 2)))
            meas.append({"k": "expval", "word": [rng.choice("XYZ") for _ in ws], "wires": ws})
        elif k < 0.6:
            terms = []
            for _ in range(rng.randint(2, 3)):
                ws = rng.sample(range(nw), rng.randint(1, min(nw, 2)))
                terms.append([rng.choice([0.5, -1.5, 2, 0.25, -0.75]), [rng.choice("XYZ") for _ in ws], ws])
            meas.append({"k": "ham", "terms": terms})
        elif k < 0.85:
            ws = sorted(rng.sample(range(nw), rng.randint(1, min(nw, 2))))
            meas.append({"k": "probs", "wires": ws})
        else:
            ws = rng.sample(range(nw), 1)
            meas.append({"k": "var", "word": [rng.choice("XYZ")], "wires": ws})
    return {"nw": nw, "nx": nx, "steps": steps, "meas": meas}


def word_op(word, ws):
    P = {"X": qp.X, "Y": qp.Y, "Z": qp.Z}
    o = P[word[0]](ws[0])
    for c, w in zip(word[1:], ws[1:]):
        o = o @ P[c](w)
    return o


def meas_of(m):
    if m["k"] == "expval":
        return qp.expval(word_op(m["word"], m["wires"]))
    if m["k"] == "var":
        return qp.var(word_op(m["word"], m["wires"]))
    if m["k"] == "probs":
        return qp.probs(wires=m["wires"])
    if m["k"] == "ham":
        return qp.expval(qp.Hamiltonian([t[0] for t in m["terms"]], [word_op(t[1], t[2]) for t in m["terms"]]))
    raise ValueError(m)


def expr_val(e, x, M):
    """value of a gate-parameter expression with the math module M (np / autograd / jax / torch)"""
    if e[0] == "fix":
        return e[1]
    if e[0] == "lin":
        return e[2] * x[e[1]] + e[3]
    if e[0] == "prod":
        return x[e[1]] * x[e[2]]
    if e[0] == "sin":
        return M.sin(x[e[1]])
    if e[0] == "sq":
        return x[e[1]] ** 2
    raise ValueError(e)


def expr_grad(e, x):
    g = [0.0] * len(x)
    if e[0] == "lin":
        g[e[1]] = e[2]
    elif e[0] == "prod":
        g[e[1]] += x[e[2]]
        g[e[2]] += x[e[1]]
    elif e[0] == "sin":
        g[e[1]] = math.cos(x[e[1]])
    elif e[0] == "sq":
        g[e[1]] = 2 * x[e[1]]
    return g


def formal_tape(spec):
    """tape with one formal variable per trainable gate parameter"""
    tp = [(si, pi) for si, s in enumerate(spec["steps"]) for pi, p in enumerate(s["params"]) if p[0] != "fix"]
    cfg(len(tp))
    ops = []
    for si, s in enumerate(spec["steps"]):
        ps = []
        for pi, p in enumerate(s["params"]):
            ps.append(p[1] if p[0] == "fix" else fvar(tp.index((si, pi))))
        ops.append(getattr(qp, s["name"])(*ps, wires=s["wires"]))
    train = []
    idx = 0
    for s in spec["steps"]:
        for p in s["params"]:
            if p[0] != "fix":
                train.append(idx)
            idx += 1
    meas = [meas_of(m) for m in spec["meas"] if m["k"] != "var"]
    return qp.tape.QuantumScript(ops, meas, trainable_params=train), tp


def all_refs(spec, tp):
    """reference polynomials for every measurement component in QNode output order (var included)"""
    cfg(len(tp))
    tape, _ = formal_tape(spec)
    wo = list(range(spec["nw"]))
    n0 = len(wo)
    st0 = sym_state(tape_gates(tape, wo), n0)
    out = []
    for m in spec["meas"]:
        mp = meas_of(m)
        if m["k"] == "var":
            S = op_matrix_sym(mp.obs)
            ws = [wo.index(w) for w in mp.obs.wires]
            from qx import s_mul
            obs1 = [(Sym.of(1), [(ws, S)])]
            obs2 = [(Sym.of(1), [(ws, s_mul(S, S))])]
            E, E2 = sym_expect(st0, obs1, n0), sym_expect(st0, obs2, n0)
            out.append({"kind": "var", "E": E, "E2": E2, "dE": [sym_pderiv(E, j) for j in range(len(tp))],
                        "dE2": [sym_pderiv(E2, j) for j in range(len(tp))]})
        else:
            for lab, obs in meas_components(mp, wo):
                E = sym_expect(st0, obs, n0)
                out.append({"kind": "lin", "E": E, "dE": [sym_pderiv(E, j) for j in range(len(tp))]})
    return out




def ser(S):
    return [[complex(qsym.k_num(c)).real, complex(qsym.k_num(c)).imag, list(m)] for m, c in S.t.items()]
