"""Shared machinery for the /verif checks.

Every property module `harness/props/cXX.py` defines
    PID, META (dict for MANIFEST), run(ctx)
and uses the Ctx object below for: Coq compilation of the property theorems, evaluation of
Gallina models on generated cases (tie K), compilation of generated obligations (tie X),
violation reporting (VIOLATION / KNOWN-FINDING protocol) and the evidence file.
"""
from __future__ import annotations

import hashlib
import json
import os
import random
import re
import subprocess
import sys
import time
from pathlib import Path

VERIF = Path(__file__).resolve().parent.parent
COQ = VERIF / "coq"
GEN = COQ / "Gen"
EVID = VERIF / "evidence"
REPLAYS = VERIF / "replays"
KNOWN = VERIF / "harness" / "known_findings.json"
REPO = Path(os.environ.get("VERIF_REPO", "/repo"))
PY = "/venv/bin/python"
COQ_Q = ["-Q", str(COQ), "PLV"]

BASE_TRUSTED = [
    "Coq 8.16.1 kernel and its vm_compute machine (no native_compute)",
    "coqc/coq_makefile build of /verif/coq (full .vo, no -vos)",
]


def sh(cmd, timeout=600, cwd=None, env=None, input=None):
    e = dict(os.environ)
    e.update({"PYTHONPATH": str(REPO), "PYTHONHASHSEED": "0", "OMP_NUM_THREADS": "1"})
    if env:
        e.update(env)
    try:
        p = subprocess.run(cmd, cwd=cwd, env=e, capture_output=True, text=True, timeout=timeout,
                           input=input)
        return p.returncode, p.stdout, p.stderr
    except subprocess.TimeoutExpired as ex:
        return 124, (ex.stdout or b"").decode() if isinstance(ex.stdout, bytes) else (ex.stdout or ""), "TIMEOUT"


# ------------------------------------------------------------------ Gallina literal printers
def gz(n):
    n = int(n)
    return f"({n})%Z" if n < 0 else f"{n}%Z"


def gnat(n):
    n = int(n)
    assert 0 <= n < 5000, "large nat literal"
    return f"{n}%nat"


def gbool(b):
    return "true" if b else "false"


def glist(xs, f=str):
    return "[" + "; ".join(f(x) for x in xs) + "]"


def gopt(x, f=str):
    return "None" if x is None else f"(Some {f(x)})"


def gq(fr):
    from fractions import Fraction
    fr = Fraction(fr)
    return f"({fr.numerator} # {fr.denominator})%Q"


def gstr(s):
    return '"' + s.replace('"', '""') + '"%string'


def gpair(a, b):
    return f"({a}, {b})"


class CoqError(Exception):
    pass


class Ctx:
    def __init__(self, pid, tier, seed, meta):
        self.pid = pid
        self.tier = tier
        self.seed = seed
        self.meta = meta
        self.rng = random.Random(seed * 1000003 + int(pid[1:]))
        self.t0 = time.time()
        self.violations = []      # dicts
        self.known_hits = []
        self.obligations = 0
        self.discharged = 0
        self.coverage = {}
        self.assumptions = list(meta.get("assumptions", []))
        self.trusted = list(BASE_TRUSTED) + list(meta.get("trusted", []))
        self.axioms = set()
        self.samples = []
        self.notes = []
        self.gen_dir = GEN / pid
        self.gen_dir.mkdir(parents=True, exist_ok=True)
        for f in self.gen_dir.glob("*"):
            try:
                f.unlink()
            except OSError:
                pass
        self._known = [k for k in json.loads(KNOWN.read_text()) if k.get("property") == pid] if KNOWN.exists() else []

    # ------------------------------------------------------------------ Coq
    def coqc(self, vfile: Path, timeout=600):
        """compile one .v under the PLV load path; returns (ok, stdout+stderr)"""
        rc, out, err = sh(["coqc", *COQ_Q, str(vfile)], timeout=timeout, cwd=str(COQ))
        return rc == 0, out + ("\n" + err if err.strip() else "")

    def ensure_static(self, targets):
        """make sure the static theory files (relative to coq/, .vo) are built and current."""
        rc, o, e = sh(["bash", str(VERIF / "setup.sh"), *targets], timeout=3600, cwd=str(VERIF))
        if rc != 0:
            raise CoqError("static theory does not build: " + (o + e)[-3000:])

    def coq_props(self, extra_static=()):
        """Re-check Props/<pid>.v (the property theorems, each `exact lemma` + Print Assumptions).
        Counts theorems as obligations and records the axioms reported."""
        pf = COQ / "Props" / f"{self.pid}.v"
        src = pf.read_text()
        thms = re.findall(r"^\s*(?:Theorem|Lemma|Corollary)\s+(\w+)", src, flags=re.M)
        n = len(thms)
        self.obligations += n
        try:
            self.ensure_static([f"Props/{self.pid}.vo", *extra_static])
        except CoqError as ex:
            self.broken_obligation("static-theory", f"Props/{self.pid}.v", str(ex))
            return False
        # recompile the Props file itself to capture Print Assumptions for this run
        ok, out = self.coqc(pf)
        if not ok:
            self.broken_obligation("props-file", f"Props/{self.pid}.v", out[-3000:])
            return False
        self.discharged += n
        self.coverage.setdefault("theorems", []).extend(thms)
        closed = len(re.findall(r"Closed under the global context", out))
        for m in re.finditer(r"^([A-Za-z_][\w\.']*)\s*:", out, flags=re.M):
            self.axioms.add(m.group(1))
        self.coverage["print_assumptions_closed"] = closed
        return True

    def coq_eval_cases(self, name, header, cases, check_fn, chunk=400, timeout=900, par=8):
        """Tie K.  `cases` is a list of Gallina terms (strings) of one type T; `check_fn` is a
        Gallina term of type T -> bool (true = model agrees with the recorded implementation
        behaviour).  The model is evaluated by vm_compute inside coqc; returns the list of indices of
        failing cases.  Files: Gen/<pid>/<name>_<k>.v"""
        files = []
        for k in range(0, len(cases), chunk):
            part = cases[k:k + chunk]
            f = self.gen_dir / f"{name}_{k // chunk}.v"
            body = [header, "Require Import List ZArith. Import ListNotations.",
                    "Fixpoint bad_idx {A} (f : A -> bool) (i : nat) (l : list A) : list nat :=",
                    "  match l with [] => [] | x :: r => if f x then bad_idx f (S i) r else i :: bad_idx f (S i) r end.",
                    "Definition cases :=", "  [ " + "\n  ; ".join(part) + " ].",
                    f"Definition chk := {check_fn}.",
                    'Set Printing Width 1000000. Set Printing Depth 1000000.',
                    "Eval vm_compute in (bad_idx chk 0%nat cases)."]
            f.write_text("\n".join(body) + "\n")
            files.append((k, f))
        bad = []
        from concurrent.futures import ThreadPoolExecutor

        def one(kf):
            k, f = kf
            ok, out = self.coqc(f, timeout=timeout)
            return k, f, ok, out
        with ThreadPoolExecutor(max_workers=par) as ex:
            for k, f, ok, out in ex.map(one, files):
                if not ok:
                    raise CoqError(f"case file {f} failed to compile:\n{out[-3000:]}")
                m = re.search(r"=\s*\[(.*?)\]\s*:\s*list nat", out, flags=re.S)
                if not m:
                    raise CoqError(f"cannot parse coqc output for {f}: {out[-500:]}")
                idxs = [int(x) for x in re.findall(r"\d+", m.group(1))]
                bad.extend(k + i for i in idxs)
        self.coverage["correspondence_cases"] = self.coverage.get("correspondence_cases", 0) + len(cases)
        return sorted(bad)

    def coq_eval_terms(self, name, header, terms, timeout=900):
        """Evaluate Gallina terms with vm_compute, one `Eval` each, and return raw output strings
        (use only for small outputs)."""
        f = self.gen_dir / f"{name}.v"
        body = [header, 'Set Printing Width 1000000. Set Printing Depth 1000000.']
        for i, t in enumerate(terms):
            body.append(f"Definition t_{i} := {t}.")
            body.append(f"Eval vm_compute in t_{i}.")
        f.write_text("\n".join(body) + "\n")
        ok, out = self.coqc(f, timeout=timeout)
        if not ok:
            raise CoqError(f"{f} failed:\n{out[-3000:]}")
        res = re.split(r"^\s*=\s", out, flags=re.M)[1:]
        res = [re.sub(r"\s*:\s[^:]*$", "", r.strip(), flags=re.S).strip() for r in res]
        return res

    def coq_obligations(self, name, header, lemmas, chunk=60, timeout=1200, par=12):
        """Tie X.  `lemmas` = list of (lemma_name, statement, proof_script).  Each chunk is one
        file; a failing file is bisected lemma by lemma.  Returns list of failed lemma names."""
        from concurrent.futures import ThreadPoolExecutor
        files = []
        for k in range(0, len(lemmas), chunk):
            part = lemmas[k:k + chunk]
            f = self.gen_dir / f"{name}_{k // chunk}.v"
            f.write_text(header + "\n" + "\n".join(
                f"Lemma {n} : {s}.\nProof. {p} Qed." for n, s, p in part) + "\n")
            files.append((part, f))
        failed = []
        self.obligations += len(lemmas)

        def one(pf):
            part, f = pf
            ok, out = self.coqc(f, timeout=timeout)
            if ok:
                return []
            bad = []
            for n, s, p in part:
                g = self.gen_dir / f"{name}_single_{n}.v"
                g.write_text(header + "\n" + f"Lemma {n} : {s}.\nProof. {p} Qed.\n")
                ok1, out1 = self.coqc(g, timeout=timeout)
                if not ok1:
                    bad.append((n, out1[-1500:]))
            if not bad:
                bad.append((part[0][0] + "_file", out[-1500:]))
            return bad
        with ThreadPoolExecutor(max_workers=par) as ex:
            for bad in ex.map(one, files):
                failed.extend(bad)
        self.discharged += len(lemmas) - len(failed)
        return failed

    # ------------------------------------------------------------------ implementation side
    def run_impl(self, script_name, payload, timeout=1800):
        """Run harness/impl/<script_name> under /venv python with PYTHONPATH=/repo, JSON in/out."""
        script = VERIF / "harness" / "impl" / script_name
        rc, out, err = sh([PY, str(script)], timeout=timeout, input=json.dumps(payload), cwd=str(VERIF))
        if rc != 0:
            raise RuntimeError(f"impl driver {script_name} failed rc={rc}: {err[-3000:]}")
        # last line is the JSON
        line = out.strip().splitlines()[-1]
        return json.loads(line)

    # ------------------------------------------------------------------ reporting
    def sample(self, s):
        if len(self.samples) < 6:
            self.samples.append(s)

    def _known_match(self, key):
        for k in self._known:
            if k.get("status", "known") != "known":
                continue
            pat = k.get("key")
            if pat and (pat == key or (k.get("regex") and re.fullmatch(pat, key))):
                return k
        return None

    def violation(self, key, replay, found_input=True, what=""):
        """Report a violation identified by `key` (stable identification of the failing input /
        call site).  Known findings are downgraded to KNOWN-FINDING lines."""
        k = self._known_match(key)
        if k is not None:
            if key not in [h["key"] for h in self.known_hits]:
                self.known_hits.append({"key": key, "what": k.get("what", what)})
            return
        if any(v["key"] == key for v in self.violations):
            return
        REPLAYS.mkdir(exist_ok=True)
        h = hashlib.sha1((self.pid + key).encode()).hexdigest()[:10]
        path = REPLAYS / f"{self.pid}-{h}.json"
        doc = {"property": self.pid, "key": key, "what": what, "failing_input_found": bool(found_input),
               "seed": self.seed, "tier": self.tier, "replay": replay,
               "how_to_rerun": f"cd /verif && ./check {self.pid} --replay {path}"}
        path.write_text(json.dumps(doc, indent=1, default=str))
        self.violations.append({"key": key, "path": str(path), "found": bool(found_input), "what": what})

    def broken_obligation(self, kind, name, detail, search=None):
        """A proof obligation / correspondence no longer checks.  `search` (optional callable)
        looks for a concrete failing input on the implementation and returns a replay dict or None."""
        witness = None
        if search is not None:
            try:
                witness = search()
            except Exception as ex:  # search itself must never mask the report
                detail += f"\n(search raised {ex!r})"
        if witness is not None:
            self.violation(f"{kind}:{name}", {"obligation": name, "witness": witness, "detail": detail},
                           found_input=True, what=f"{kind} {name} broken; failing input found")
        else:
            self.violation(f"{kind}:{name}", {"obligation": name, "detail": detail,
                                             "no_longer_checks": name},
                           found_input=False, what=f"{kind} {name} no longer checks")

    def finish(self):
        wall = time.time() - self.t0
        cov = dict(self.coverage)
        cov.setdefault("obligations", self.obligations)
        cov.setdefault("discharged", self.discharged)
        cov.setdefault("checker_cmd", f"coqc -Q /verif/coq PLV (Props/{self.pid}.v, Gen/{self.pid}/*.v); ./check {self.pid} --tier {self.tier}")
        tb = self.trusted + (["axioms reported by Print Assumptions: " + ", ".join(sorted(self.axioms))]
                             if self.axioms else ["Print Assumptions: closed under the global context"])
        cov.setdefault("trusted_base", tb)
        cov.setdefault("samples", self.samples or ["(none)"])
        if "evaluations" not in cov:
            cov["evaluations"] = cov.get("correspondence_cases", 0)
        cov["known_findings_hit"] = self.known_hits
        cov["notes"] = self.notes
        ev = {"property_id": self.pid, "tier": self.tier, "seed": self.seed,
              "level": self.meta.get("level", "proof") if self.meta.get("level", "proof") in ("exploration", "fault_enumeration", "model_checking", "proof", "translation_validation", "other") else "proof", "coverage": cov,
              "assumptions": self.assumptions, "wall_s": round(wall, 2),
              "violations": len(self.violations)}
        EVID.mkdir(exist_ok=True)
        (EVID / f"{self.pid}.json").write_text(json.dumps(ev, indent=1, default=str))
        for h in self.known_hits:
            print(f"KNOWN-FINDING: property={self.pid} {h['what']} [{h['key']}]")
        shown = sorted(self.violations, key=lambda v: (not v["found"], len(v["key"])))[:8]
        for v in shown:
            tail = "" if v["found"] else " no-failing-input-found"
            print(f"VIOLATION property={self.pid} replay={v['path']}{tail}")
        if len(self.violations) > len(shown):
            print(f"({len(self.violations) - len(shown)} further violating cases written under {REPLAYS})")
        print(f"[{self.pid}] tier={self.tier} seed={self.seed} obligations={self.obligations} "
              f"discharged={self.discharged} cases={cov.get('correspondence_cases', 0)} "
              f"violations={len(self.violations)} known={len(self.known_hits)} wall={wall:.1f}s")
        return 1 if self.violations else 0
