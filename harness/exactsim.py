"""Exact reference simulation in Coq (Lin/ExactSim.v): circuits of constant gate matrices over Q(zeta_8) are run
by vm_compute and the final state is read back as exact rationals.  Harness side (no PennyLane needed)."""
import cmath, math, re
from fractions import Fraction as Fr
import numpy as np

HEADER = """From Coq Require Import List ZArith QArith Bool.
From PLV Require Import Alg.Poly Lin.Vec Lin.PVec Lin.ExactSim.
Import ListNotations.
Open Scope Q_scope.
Set Printing Width 1000000. Set Printing Depth 1000000.
"""


def _parse_states(txt, hz):
    """parse '= [[(1, 2); (0, 1); ...]; ...] : list (list (Z * Z))' blocks -> list of complex arrays"""
    out = []
    z = [cmath.exp(1j * math.pi * k / hz) for k in range(hz)]
    for block in re.split(r"^\s*=\s", txt, flags=re.M)[1:]:
        block = block.split(": list")[0]
        block = block.replace("%Z", "")
        pairs = re.findall(r"\(\s*\(?(-?\d+)\)?\s*,\s*(\d+)\s*\)", block)
        vals = [Fr(int(a), int(b)) for a, b in pairs]
        assert len(vals) % hz == 0
        amps = []
        for i in range(0, len(vals), hz):
            amps.append(sum(float(vals[i + k]) * z[k] for k in range(hz)))
        out.append(np.array(amps, dtype=complex))
    return out


def exact_states(ctx, name, circuits, hz=4, chunk=25, par=8):
    """circuits: list of (n_wires, gallina_circuit_string).  Returns list of numpy complex state vectors (exact values
    rounded to float only at the very end)."""
    from concurrent.futures import ThreadPoolExecutor
    files = []
    for k in range(0, len(circuits), chunk):
        f = ctx.gen_dir / f"{name}_{k // chunk}.v"
        body = [HEADER]
        for n, circ in circuits[k:k + chunk]:
            body.append(f"Eval vm_compute in (run_state {hz}%Z {n}%nat {circ}).")
        f.write_text("\n".join(body) + "\n")
        files.append(f)

    def one(f):
        ok, out = ctx.coqc(f, timeout=1200)
        if not ok:
            from vlib import CoqError
            raise CoqError(f"exact simulation file {f} failed: {out[-2000:]}")
        return _parse_states(out, hz)
    res = []
    with ThreadPoolExecutor(max_workers=par) as ex:
        for r in ex.map(one, files):
            res.extend(r)
    assert len(res) == len(circuits), (len(res), len(circuits))
    ctx.obligations += len(circuits)
    ctx.discharged += len(circuits)
    return res


# ---- exact post-processing in Python from an exact state (floats only at the end) ----
def probs(state, n, wires):
    p = np.abs(state) ** 2
    p = p.reshape([2] * n)
    other = tuple(i for i in range(n) if i not in wires)
    p = p.sum(axis=other) if other else p
    # remaining axes are in increasing wire index; reorder to `wires`
    rem = [i for i in range(n) if i in wires]
    perm = [rem.index(w) for w in wires]
    return np.transpose(p, perm).reshape(-1)


def expval(state, n, obs_matrix, wires):
    """<psi| O |psi> with O a 2^k x 2^k numpy matrix on `wires`"""
    k = len(wires)
    psi = state.reshape([2] * n)
    psi = np.moveaxis(psi, wires, range(k)).reshape(2 ** k, -1)
    return float(np.real(np.einsum("ai,ab,bi->", psi.conj(), obs_matrix, psi)))
