"""Catalogue of operator instances (with formal parameters) and extraction of every registered
decomposition rule applicable to them.  Shared by C10 (matrix), C11 (resources), C13 (measurement branches)."""
from __future__ import annotations
import inspect, math, random, re, itertools
import numpy as np
from qx import *
from qx import _get_decomp_args
from pennylane.decomposition import decomposition_rule as dr


def registry():
    try:
        return dr._decompositions_var.get()
    except Exception:
        return dr._decompositions_private


def find_cls(name):
    for mod in (qp, qp.templates, qp.ops, qp.ops.op_math):
        c = getattr(mod, name, None)
        if inspect.isclass(c):
            return c
    return None


def rules_for(op):
    """every rule the decomposition system may apply to this operator instance"""
    try:
        from pennylane.decomposition.decomposition_graph import DecompositionGraph
        from pennylane.decomposition.resources import resource_rep
        g = DecompositionGraph.__new__(DecompositionGraph)
        g._fixed_decomps = {}
        g._alt_decomps = {}
        from pennylane.core.operator.operator2 import Operator2
        rep = op if isinstance(op, Operator2) else resource_rep(type(op), **op.resource_params)
        return list(g._get_decompositions(rep))
    except Exception:
        return list(qp.list_decomps(op))


def fixed_arity_classes():
    out = []
    for name in sorted(k for k in registry() if "(" not in k):
        cls = find_cls(name)
        if cls is None:
            continue
        npar, nw = getattr(cls, "num_params", None), getattr(cls, "num_wires", None)
        if isinstance(npar, int) and isinstance(nw, int) and 0 < nw <= 4 and npar <= 3:
            out.append((name, cls, npar, nw))
    return out


SKIP_FIXED = {"QubitUnitary", "DiagonalQubitUnitary", "BasisState", "StatePrep", "SubroutineOp", "LabelledOp", "MarkedOp"}


def catalog(tier="quick", labels="int"):
    """list of (label, nvars, factory) ; factory() builds the operator with formal parameters"""
    items = []
    L = (lambda i: i) if labels == "int" else (lambda i: ["a", "q1", 7, "z", "w4", "c"][i])

    def add(label, nvars, f):
        items.append((label, nvars, f))
    for name, cls, npar, nw in fixed_arity_classes():
        if name in SKIP_FIXED:
            continue
        def mk(cls=cls, npar=npar, nw=nw):
            return cls(*[var_array(j) for j in range(npar)], wires=[L(i) for i in range(nw)])
        add(name, npar, mk)
        reg = registry()
        if f"Adjoint({name})" in reg or True:
            add(f"Adjoint({name})", npar, lambda mk=mk: qp.adjoint(mk(), lazy=True))
        for z in ((2, -1) if tier == "quick" else (0, 1, 2, 3, -1, -2, 4)):
            if name in RESTRICTED:
                continue
            add(f"Pow({name},{z})", npar, lambda mk=mk, z=z: qp.pow(mk(), z, lazy=True))
        if nw <= 2:
            cfgs = [((10,), (1,)), ((10, 11), (1, 0))] if tier == "quick" else \
                   [((10,), (1,)), ((10,), (0,)), ((10, 11), (1, 1)), ((10, 11), (1, 0)), ((10, 11, 12), (0, 1, 1))]
            for cw, cv in cfgs:
                if nw + len(cw) > 4:
                    continue
                add(f"C({name},{''.join(map(str, cv))})", npar,
                    lambda mk=mk, cw=cw, cv=cv: qp.ctrl(mk(), control=list(cw), control_values=list(cv)))
    # variable arity families
    for nw in ((2, 3) if tier == "quick" else (1, 2, 3, 4)):
        add(f"MultiRZ[{nw}]", 1, lambda nw=nw: qp.MultiRZ(var_array(0), wires=list(range(nw))))
    words = ["X", "Y", "ZX", "XYZ"] if tier == "quick" else ["X", "Y", "Z", "XX", "YZ", "ZX", "IY", "XYZ", "ZZZ", "XIY", "YYXZ"]
    for w in words:
        add(f"PauliRot[{w}]", 1, lambda w=w: qp.PauliRot(var_array(0), w, wires=list(range(len(w)))))
    mcx = [(2, "11", 0, None), (3, "101", 0, None), (3, "111", 1, "zeroed"), (3, "110", 1, "borrowed"), (4, "1111", 2, "zeroed"),
           (3, "111", 2, "borrowed"), (4, "1111", 3, "borrowed")]      # more work wires than the rule needs
    # every control-value pattern for 1..3 controls (the rules have special cases for few controls and for zeros)
    import itertools as _it
    for _nc in (1, 2, 3):
        for _cv in _it.product("01", repeat=_nc):
            if (_nc, "".join(_cv), 0, None) not in mcx:
                mcx.append((_nc, "".join(_cv), 0, None))
    if tier != "quick":
        mcx += [(2, "00", 0, None), (4, "1010", 1, "borrowed"), (4, "1111", 1, "zeroed"), (4, "0111", 2, "borrowed"), (5, "11111", 3, "zeroed")]
    for nc, cv, nwork, wt in mcx:
        def mkx(nc=nc, cv=cv, nwork=nwork, wt=wt):
            kw = {}
            if nwork:
                kw = {"work_wires": [f"w{i}" for i in range(nwork)], "work_wire_type": wt}
            return qp.MultiControlledX(wires=list(range(nc + 1)), control_values=[int(c) for c in cv], **kw)
        add(f"MCX[{cv},{nwork}{wt or ''}]", 0, mkx)
    return items


def _tand_pred(op, adj):
    cv = [int(bool(x)) for x in (getattr(op, "hyperparameters", {}) or {}).get("control_values", (1, 1))]
    if adj:
        return lambda bits: bits[2] == int(bits[0] == cv[0] and bits[1] == cv[1])
    return lambda bits: bits[2] == 0


def documented_domain(op):
    """operators whose documentation restricts the input domain: predicate on the bits of op.wires
    (None = all inputs).  Taken from the class docstrings, not from any rule."""
    nm = op.name
    if nm in ("TemporaryAND", "Elbow"):
        return _tand_pred(op, False)
    if nm in ("Adjoint(TemporaryAND)", "Adjoint(Elbow)"):
        return _tand_pred(op.base, True)
    return None


RESTRICTED = {"TemporaryAND", "Elbow"}


class Extracted:
    """result of extracting one (operator instance, rule)"""
    def __init__(self, label, rule_name):
        self.label, self.rule = label, rule_name
        self.status = None       # 'ok' | 'mcm' | 'notex' | 'inapplicable' | 'error'
        self.detail = ""
        self.n = 0
        self.op_idx = []
        self.cols_zero = []
        self.gates = []          # [(wire_idx, SymMatrix)]
        self.N = self.D = None
        self.op = None
        self.rr = None


def extract_op(label, nvars, factory, rng, cfgs=((8, 8), (8, 16), (16, 16), (16, 32), (32, 32))):
    """returns (op, {cfg: M_op or None}, [Extracted ...])"""
    install_patches()
    set_cfg(8, 8, nvars)
    try:
        op = factory()
    except Exception as e:
        return None, None, [("construct", f"{type(e).__name__}: {e}")]
    try:
        rules = rules_for(op)
    except Exception as e:
        return op, None, [("rules", f"{type(e).__name__}: {e}")]
    try:
        params, args, kwargs = _get_decomp_args(op)
    except Exception as e:
        return op, None, [("decomp_args", f"{type(e).__name__}: {e}")]
    res = []
    mats = {}
    for rule in rules:
        ex = Extracted(label, getattr(rule, "name", str(rule))[:60])
        ex.op = op
        res.append(ex)
        try:
            if not rule.is_applicable(**params):
                ex.status = "inapplicable"
                continue
        except Exception as e:
            ex.status, ex.detail = "error", f"is_applicable: {type(e).__name__}: {e}"
            continue
        last = ""
        for (N, D) in cfgs:
            set_cfg(N, D, nvars)
            try:
                if (N, D) not in mats:
                    S = op_matrix_sym(op)
                    ok, w = spot_check(op, S, rng)
                    if not ok:
                        raise NotExtractable(f"spot-check of operator matrix failed ({w})")
                    mats[(N, D)] = S
                rr = run_rule(rule, op)
                ex.rr = rr
                if rr.has_mcm:
                    ex.status = "mcm"
                    break
                aw = all_wires_of(rr)
                if len(aw) > 6:
                    raise NotExtractable(f"{len(aw)} wires: too large for the symbolic engine")
                gates = []
                for o in rr.ops:
                    So = op_matrix_sym(o)
                    ok, w = spot_check(o, So, rng)
                    if not ok:
                        raise NotExtractable(f"spot-check of emitted {o.name} failed ({w})")
                    gates.append(([aw.index(x) for x in o.wires], So))
                ex.status, ex.n, ex.gates, ex.N, ex.D = "ok", len(aw), gates, N, D
                ex.op_idx = list(range(len(rr.op_wires)))
                ex.cols_zero = [aw.index(x) for x in rr.extra_zero]
                dom = documented_domain(op)
                ex.cols_explicit = None
                if dom is not None:
                    n_, k_ = len(aw), len(rr.op_wires)
                    ex.cols_explicit = [c for c in range(1 << n_)
                                        if dom([(c >> (n_ - 1 - i)) & 1 for i in range(k_)])
                                        and all(((c >> (n_ - 1 - z)) & 1) == 0 for z in ex.cols_zero)]
                break
            except NotExtractable as e:
                last = last or f"[N={N},D={D}] " + str(e)
                if "too large" in str(e):
                    break
                continue
            except Exception as e:
                ex.status, ex.detail = "error", f"{type(e).__name__}: {str(e)[:200]}"
                break
        if ex.status is None:
            ex.status, ex.detail = "notex", last[:300]
    return op, mats, res


def numeric_rule_check(op, rule, thetas, tol=1e-8):
    """direct executable statement of C10 on the implementation at one parameter point.
    returns None if fine / not applicable, else a dict describing the failure"""
    nop = bind_numeric(op, thetas)
    params, args, kwargs = _get_decomp_args(nop)
    if not rule.is_applicable(**params):
        return None
    with AnnotatedQueue() as q:
        rule(*args, **kwargs)
    ops = q.queue
    if any("Measure" in o.name or o.name == "Conditional" for o in ops):
        return None
    hyper = getattr(nop, "hyperparameters", {}) or {}
    ww = list(hyper.get("work_wires", []) or getattr(nop, "work_wires", []) or [])
    wtype = str(hyper.get("work_wire_type", "borrowed")).lower()
    tape = qp.tape.QuantumScript(ops)
    dyn_any = False
    if any(o.name in ("Allocate", "Deallocate") for o in ops):
        dyn_any = any(o.name == "Allocate" and "zero" not in str(getattr(o, "state", "zero")).lower() for o in ops)
        [tape], _ = qp.transforms.resolve_dynamic_wires(tape, min_int=1000)
    extra = [w for w in tape.wires if w not in nop.wires]
    wo = list(nop.wires) + extra
    if len(wo) > 10:
        return None
    M = qp.matrix(tape, wire_order=wo) if len(tape.operations) else np.eye(2 ** len(wo))
    ref = qp.matrix(nop, wire_order=list(nop.wires))
    d, k = ref.shape[0], 2 ** len(extra)
    M4 = M.reshape(d, k, d, k)
    dom = documented_domain(nop)
    nw_ = len(nop.wires)
    keep = [c for c in range(d) if dom is None or dom([(c >> (nw_ - 1 - i)) & 1 for i in range(nw_)])]
    if dyn_any or (extra and all(w in ww for w in extra) and not wtype.startswith("zero")):
        # arbitrary-state extra wires: must act as ref (x) identity
        full = np.kron(ref, np.eye(k))
        kk = [c * k + j for c in keep for j in range(k)]
        err = float(np.abs(M[:, kk] - full[:, kk]).max())
    else:
        err = float(np.abs(M4[:, 0, :, 0][:, keep] - ref[:, keep]).max())
        if k > 1:
            err = max(err, float(np.abs(M4[:, 1:, :, 0][:, :, keep]).max()))
    if err > tol:
        return {"thetas": list(thetas), "max_abs_err": err, "emitted": [repr(o)[:80] for o in ops][:40]}
    return None
