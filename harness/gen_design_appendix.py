"""Regenerates the machine-written tables of DESIGN.md section 8 (between the AUTO markers) from
harness/known_findings.json, harness/props/*.py META, harness/ready.json and seeded/*/meta*.json."""
import json, re, sys, importlib, glob, os
sys.path.insert(0, "/verif/harness")
sys.path.insert(0, "/verif/harness/props")
V = "/verif"
kf = json.load(open(f"{V}/harness/known_findings.json"))
ready = json.load(open(f"{V}/harness/ready.json"))
props = {json.loads(l)["id"]: json.loads(l) for l in open(f"{V}/properties.jsonl")}


def esc(s):
    return str(s).replace("|", "\\|").replace("\n", " ")


out = []
out.append("### 8.4 Genuine defects repaired in /repo (one `fix:` commit each)\n")
out.append("| property | commit | what failed on the unchanged tree |\n|---|---|---|")
for k in kf:
    if k.get("status") == "fixed":
        out.append(f"| {k['property']} | `{k['commit']}` | {esc(k['what'])} |")
out.append("\n### 8.5 Known findings (genuine defects recorded, not repaired)\n")
out.append("Each is matched by its stable key only; any other violation of the same property is still reported.\n")
out.append("| property | key | failing input / what fails |\n|---|---|---|")
for k in kf:
    if k.get("status", "known") == "known":
        out.append(f"| {k['property']} | `{esc(k['key'])}`{' (regex)' if k.get('regex') else ''} | {esc(k['what'])} |")
out.append("\n### 8.8 Deciding method per claimed property (from the check modules' META)\n")
out.append("| id | title | technique |\n|---|---|---|")
for pid in sorted(ready):
    try:
        m = importlib.import_module(pid.lower())
        out.append(f"| {pid} | {esc(props[pid]['title'])} | {esc(m.META.get('technique', ''))} |")
    except Exception as e:
        out.append(f"| {pid} | {esc(props[pid]['title'])} | (module import failed: {type(e).__name__}) |")
seeds = sorted(glob.glob(f"{V}/seeded/*/meta*.json"))
out.append("\n### 8.7 Seeded changes (independent sub-agents) and which checks catch them\n")
out.append("Each change was produced by a sub-agent that saw only the property text and a scratch worktree; it was kept after we re-confirmed, in a scratch worktree at the current /repo HEAD, that the patch applies, `import pennylane` works, the 256 baseline tests still pass, and the demo prints PROPERTY HOLDS on the clean tree and PROPERTY VIOLATED on the changed tree.\n")
out.append("| seed | what was changed | caught by `./check <id>` | how |\n|---|---|---|---|")
for f in seeds:
    m = json.load(open(f))
    d = os.path.basename(os.path.dirname(f))
    out.append(f"| {d}/{os.path.basename(f).replace('meta','patch').replace('.json','.diff')} | {esc(m.get('summary',''))} | {esc(m.get('detected',''))} | {esc(m.get('detected_by',''))} |")
txt = "\n".join(out) + "\n"
D = open(f"{V}/DESIGN.md").read()
a, b = "<!-- AUTO-BEGIN -->", "<!-- AUTO-END -->"
if a in D:
    D = D[:D.index(a) + len(a)] + "\n" + txt + D[D.index(b):]
    open(f"{V}/DESIGN.md", "w").write(D)
    print("updated", len(txt))
else:
    print("markers missing")
