"""C26: (a) symbolic execution of default.qubit's apply_operation kernels on formal basis columns;
(b) whole-circuit executions on default.qubit with exactly representable angles + the exact circuits for Coq."""
import sys, json, random, math, itertools, time
sys.path.insert(0, "/verif/harness")
from qrules import *
from qx import pyth_angle, exact_circuit_gallina
from pennylane.devices.qubit import apply_operation
import numpy as np
try:
    import jax
    jax.config.update('jax_enable_x64', True)
except Exception:
    pass

req = json.load(sys.stdin)
rng = random.Random(req["seed"])
tier = req["tier"]
install_patches()
items, oblig, runs = [], [], []


def basis_state(n, c):
    st = np.empty((2,) * n, dtype=object)
    for idx in itertools.product([0, 1], repeat=n):
        st[idx] = Sym.of(1 if sum(b << (n - 1 - i) for i, b in enumerate(idx)) == c else 0)
    return st


KERNEL_OPS = [("PauliX", 0, 1), ("PauliY", 0, 1), ("PauliZ", 0, 1), ("Hadamard", 0, 1), ("S", 0, 1), ("T", 0, 1), ("SX", 0, 1), ("Identity", 0, 1),
              ("RX", 1, 1), ("RY", 1, 1), ("RZ", 1, 1), ("PhaseShift", 1, 1), ("Rot", 3, 1), ("U2", 2, 1), ("U3", 3, 1),
              ("CNOT", 0, 2), ("CY", 0, 2), ("CZ", 0, 2), ("CH", 0, 2), ("SWAP", 0, 2), ("ISWAP", 0, 2), ("SISWAP", 0, 2), ("ECR", 0, 2),
              ("CRX", 1, 2), ("CRY", 1, 2), ("CRZ", 1, 2), ("CRot", 3, 2), ("ControlledPhaseShift", 1, 2), ("IsingXX", 1, 2), ("IsingYY", 1, 2),
              ("IsingZZ", 1, 2), ("IsingXY", 1, 2), ("PSWAP", 1, 2), ("SingleExcitation", 1, 2), ("Toffoli", 0, 3), ("CSWAP", 0, 3), ("CCZ", 0, 3),
              ("MultiRZ", 1, 3), ("DoubleExcitation", 1, 4), ("GlobalPhase", 1, 0), ("MCX3", 0, 4), ("GroverOperator", 0, 3), ("CtrlRX2", 1, 3)]


def mk(name, p, ws):
    if name == "GlobalPhase":
        return qp.GlobalPhase(p[0])
    if name == "MCX3":
        return qp.MultiControlledX(wires=ws, control_values=[1, 0, 1])
    if name == "GroverOperator":
        return qp.GroverOperator(wires=ws)
    if name == "CtrlRX2":
        return qp.ctrl(qp.RX(p[0], wires=ws[2]), control=ws[:2], control_values=[0, 1])
    if name == "MultiRZ":
        return qp.MultiRZ(p[0], wires=ws)
    cls = getattr(qp, name)
    return cls(*p[:cls.num_params], wires=ws) if name != "Identity" else qp.Identity(wires=ws)


t0 = time.time()
for name, npar, nw in KERNEL_OPS:
    sizes = [max(nw, 1) + 1] if tier == "quick" else [max(nw, 1), max(nw, 1) + 1, min(max(nw, 1) + 2, 5)]
    for n in sizes:
        poss = [list(range(nw))] if nw == 0 else [list(range(n - nw, n)), list(range(nw - 1, -1, -1))] + \
            ([rng.sample(range(n), nw) for _ in range(2)] if tier != "quick" else [rng.sample(range(n), nw)])
        seen = set()
        for ws in poss:
            if tuple(ws) in seen:
                continue
            seen.add(tuple(ws))
            it = {"kind": "kernel", "op": name, "n": n, "wires": ws, "status": "ok", "detail": ""}
            items.append(it)
            try:
                set_cfg(8, 8, npar)
                op = mk(name, [var_array(j) for j in range(npar)], ws)
                if name == "GroverOperator":
                    raise NotExtractable("no symbolic matrix (template)")
                S = op_matrix_sym(op)
                ok, w = spot_check(op, S, rng)
                if not ok:
                    raise NotExtractable(f"spot-check {w}")
                cols = []
                for c in range(2 ** n):
                    out = np.asarray(apply_operation(op, basis_state(n, c)))
                    if out.ndim == n + 1 and out.shape[0] == 1:
                        out = out[0]
                    if out.shape != (2,) * n:
                        raise NotExtractable(f"kernel output shape {out.shape}")
                    cols.append("([" + "; ".join(Sym.of(x).gallina() for x in out.reshape(-1)) + f"], {c}%nat)")
                oblig.append({"name": f"ob_{len(oblig)}", "op": name, "n": n, "wires": ws,
                              "stmt": f"kernel_cols_ok 4%Z {n}%nat {g_nats(ws)} {g_mat(S)} [{'; '.join(cols)}] = true"})
                it["lemma"] = oblig[-1]["name"]
            except NotExtractable as e:
                it["status"], it["detail"] = "notex", str(e)[:200]
            except Exception as e:
                it["status"], it["detail"] = "error", f"{type(e).__name__}: {str(e)[:200]}"
kernel_wall = time.time() - t0

# ------------------------------------------------------------------ (b) whole circuits
G1 = ["RX", "RY", "RZ", "PhaseShift", "Hadamard", "PauliX", "PauliY", "PauliZ", "S", "T", "SX"]
G2 = ["CNOT", "CZ", "CY", "SWAP", "CRX", "CRY", "CRZ", "IsingXX", "IsingZZ", "IsingYY", "ControlledPhaseShift", "ISWAP", "CH"]
G3 = ["Toffoli", "CSWAP", "CCZ"]


def rand_ops(labels):
    ops = []
    nw = len(labels)
    for _ in range(rng.randint(2, 5 + 2 * nw)):
        r = rng.random()
        if r < 0.5 or nw == 1:
            nm = rng.choice(G1); ws = [rng.choice(labels)]
        elif r < 0.9 or nw == 2:
            nm = rng.choice(G2); ws = rng.sample(labels, 2)
        else:
            nm = rng.choice(G3); ws = rng.sample(labels, 3)
        cls = getattr(qp, nm)
        ops.append(cls(*[pyth_angle(rng) for _ in range(cls.num_params)], wires=ws))
    if rng.random() < 0.15:
        ops.append(qp.GlobalPhase(rng.choice([math.pi / 2, math.pi / 4, math.pi])))
    if rng.random() < 0.2 and nw >= 2:
        a, b = rng.sample(labels, 2)
        ops.append(qp.ctrl(qp.RY(pyth_angle(rng), wires=b), control=a, control_values=[0]))
    if rng.random() < 0.15:
        ops.append(qp.adjoint(qp.S(rng.choice(labels))))
    return ops


def jsonable(x):
    a = np.asarray(x)
    if np.iscomplexobj(a):
        return {"re": np.real(a).tolist(), "im": np.imag(a).tolist()}
    return {"re": a.astype(float).tolist()}


LABELSETS = [[0, 1, 2, 3, 4, 5], ["a", "b", "c", "d"], [3, "q", 0, "aux"], [10, 20]]
ncirc = 60 if tier == "quick" else 600
interfaces = ["numpy", "numpy", "numpy", "autograd", "jax", "torch"]
for ci in range(ncirc):
    nw = rng.choice([1, 2, 2, 3, 3, 4, 5]) if tier == "quick" else rng.choice([1, 2, 3, 4, 5, 6])
    labels = list(rng.choice(LABELSETS))
    while len(labels) < nw:
        labels.append(f"w{len(labels)}")
    labels = labels[:nw]
    dev_wires = list(labels); rng.shuffle(dev_wires)
    ops = rand_ops(labels)
    if rng.random() < 0.15:       # mid-list state preparation at the start
        bits = [rng.randint(0, 1) for _ in labels]
        ops = [qp.BasisState(np.array(bits), wires=labels)] + ops
    # measurements
    ms, mdesc = [], []
    for _ in range(rng.randint(1, 3)):
        r = rng.random()
        if r < 0.2:
            ms.append(qp.state()); mdesc.append({"kind": "state"})
        elif r < 0.45:
            k = rng.randint(1, nw); ws = rng.sample(labels, k)
            ms.append(qp.probs(wires=ws)); mdesc.append({"kind": "probs", "wires": ws})
        elif r < 0.8:
            k = rng.randint(1, min(2, nw)); ws = rng.sample(labels, k)
            word = [rng.choice("XYZ") for _ in ws]
            o = qp.prod(*[getattr(qp, "Pauli" + ch)(w) for ch, w in zip(word, ws)]) if k > 1 else getattr(qp, "Pauli" + word[0])(ws[0])
            if rng.random() < 0.6:
                ms.append(qp.expval(o)); mdesc.append({"kind": "expval", "word": word, "wires": ws})
            else:
                ms.append(qp.var(o)); mdesc.append({"kind": "var", "word": word, "wires": ws})
        elif r < 0.9:
            ws = rng.sample(labels, rng.randint(1, nw))
            ms.append(qp.density_matrix(wires=ws)); mdesc.append({"kind": "dm", "wires": ws})
        else:
            ws = rng.sample(labels, rng.randint(1, nw))
            ms.append(qp.purity(wires=ws)); mdesc.append({"kind": "purity", "wires": ws})
    if sum(1 for d in mdesc if d["kind"] == "state") and len(ms) > 1:
        ms, mdesc = ms[:1], mdesc[:1]
    iface = rng.choice(interfaces)
    run = {"labels": labels, "dev_wires": dev_wires, "ops": [repr(o) for o in ops], "meas": mdesc, "interface": iface, "status": "ok"}
    runs.append(run)
    try:
        run["circuit"] = exact_circuit_gallina(ops, dev_wires)
        run["n"] = nw
        dev = qp.device("default.qubit", wires=dev_wires)

        def circuit():
            for o in ops:
                qp.apply(o)
            return tuple(qp.apply(m) for m in ms) if len(ms) > 1 else qp.apply(ms[0])
        qn = qp.QNode(circuit, dev, interface=None if iface == "numpy" else iface, diff_method=None if iface == "numpy" else "best")
        res = qn()
        res = res if isinstance(res, tuple) else (res,)
        run["results"] = [jsonable(r.detach().numpy() if hasattr(r, "detach") else r) for r in res]
    except NotExtractable as e:
        run["status"], run["detail"] = "notex", str(e)[:200]
    except Exception as e:
        run["status"], run["detail"] = "error", f"{type(e).__name__}: {str(e)[:300]}"
json.dump(oblig, open(req["outdir"] + "/obligations.json", "w"))
print(json.dumps({"items": items, "runs": runs, "kernel_wall": kernel_wall}))
