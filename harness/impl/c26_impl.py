"""C26: (a) symbolic execution of default.qubit's apply_operation kernels on formal basis columns;
(b) whole-circuit executions on default.qubit with exactly representable angles + the exact circuits for Coq."""
import sys, json, random, math, itertools, time
sys.path.insert(0, "/verif/harness")
from qrules import *
from qx import pyth_angle, exact_circuit_gallina
from pennylane.devices.qubit import apply_operation
import numpy as np
try:
    import jax
    jax.config.update('jax_enable_x64', True)
except Exception:
    pass

req = json.load(sys.stdin)
rng = random.Random(req["seed"])
tier = req["tier"]
install_patches()
items, oblig, runs = [], [], []


def basis_state(n, c):
    st = np.empty((2,) * n, dtype=object)
    for idx in itertools.product([0, 1], repeat=n):
        st[idx] = Sym.of(1 if sum(b << (n - 1 - i) for i, b in enumerate(idx)) == c else 0)
    return st


KERNEL_OPS = [("PauliX", 0, 1), ("PauliY", 0, 1), ("PauliZ", 0, 1), ("Hadamard", 0, 1), ("S", 0, 1), ("T", 0, 1), ("SX", 0, 1), ("Identity", 0, 1),
              ("RX", 1, 1), ("RY", 1, 1), ("RZ", 1, 1), ("PhaseShift", 1, 1), ("Rot", 3, 1), ("U2", 2, 1), ("U3", 3, 1),
              ("CNOT", 0, 2), ("CY", 0, 2), ("CZ", 0, 2), ("CH", 0, 2), ("SWAP", 0, 2), ("ISWAP", 0, 2), ("SISWAP", 0, 2), ("ECR", 0, 2),
              ("CRX", 1, 2), ("CRY", 1, 2), ("CRZ", 1, 2), ("CRot", 3, 2), ("ControlledPhaseShift", 1, 2), ("IsingXX", 1, 2), ("IsingYY", 1, 2),
              ("IsingZZ", 1, 2), ("IsingXY", 1, 2), ("PSWAP", 1, 2), ("SingleExcitation", 1, 2), ("Toffoli", 0, 3), ("CSWAP", 0, 3), ("CCZ", 0, 3),
              ("MultiRZ", 1, 3), ("DoubleExcitation", 1, 4), ("GlobalPhase", 1, 0), ("MCX3", 0, 4), ("GroverOperator", 0, 3), ("CtrlRX2", 1, 3)]


def mk(name, p, ws):
    if name == "GlobalPhase":
        return qp.GlobalPhase(p[0])
    if name == "MCX3":
        return qp.MultiControlledX(wires=ws, control_values=[1, 0, 1])
    if name == "GroverOperator":
        return qp.GroverOperator(wires=ws)
    if name == "CtrlRX2":
        return qp.ctrl(qp.RX(p[0], wires=ws[2]), control=ws[:2], control_values=[0, 1])
    if name == "MultiRZ":
        return qp.MultiRZ(p[0], wires=ws)
    cls = getattr(qp, name)
    return cls(*p[:cls.num_params], wires=ws) if name != "Identity" else qp.Identity(wires=ws)


t0 = time.time()
for name, npar, nw in KERNEL_OPS:
    sizes = [max(nw, 1) + 1] if tier == "quick" else [max(nw, 1), max(nw, 1) + 1, min(max(nw, 1) + 2, 5)]
    for n in sizes:
        poss = [list(range(nw))] if nw == 0 else [list(range(n - nw, n)), list(range(nw - 1, -1, -1))] + \
            ([rng.sample(range(n), nw) for _ in range(2)] if tier != "quick" else [rng.sample(range(n), nw)])
        seen = set()
        for ws in poss:
            if tuple(ws) in seen:
                continue
            seen.add(tuple(ws))
            it = {"kind": "kernel", "op": name, "n": n, "wires": ws, "status": "ok", "detail": ""}
            items.append(it)
            try:
                set_cfg(8, 8, npar)
                op = mk(name, [var_array(j) for j in range(npar)], ws)
                if name == "GroverOperator":
                    raise NotExtractable("no symbolic matrix (template)")
                S = op_matrix_sym(op)
                ok, w = spot_check(op, S, rng)
                if not ok:
                    raise NotExtractable(f"spot-check {w}")
                cols = []
                for c in range(2 ** n):
                    out = np.asarray(apply_operation(op, basis_state(n, c)))
                    if out.ndim == n + 1 and out.shape[0] == 1:
                        out = out[0]
                    if out.shape != (2,) * n:
                        raise NotExtractable(f"kernel output shape {out.shape}")
                    cols.append("([" + "; ".join(Sym.of(x).gallina() for x in out.reshape(-1)) + f"], {c}%nat)")
                oblig.append({"name": f"ob_{len(oblig)}", "op": name, "n": n, "wires": ws,
                              "stmt": f"kernel_cols_ok 4%Z {n}%nat {g_nats(ws)} {g_mat(S)} [{'; '.join(cols)}] = true"})
                it["lemma"] = oblig[-1]["name"]
            except NotExtractable as e:
                it["status"], it["detail"] = "notex", str(e)[:200]
            except Exception as e:
                it["status"], it["detail"] = "error", f"{type(e).__name__}: {str(e)[:200]}"
kernel_wall = time.time() - t0

# ------------------------------------------------------------------ (b) whole circuits
G1 = ["RX", "RY", "RZ", "PhaseShift", "Hadamard", "PauliX", "PauliY", "PauliZ", "S", "T", "SX"]
G2 = ["CNOT", "CZ", "CY", "SWAP", "CRX", "CRY", "CRZ", "IsingXX", "IsingZZ", "IsingYY", "ControlledPhaseShift", "ISWAP", "CH"]
G3 = ["Toffoli", "CSWAP", "CCZ"]


def rand_ops(labels):
    ops = []
    nw = len(labels)
    for _ in range(rng.randint(2, 5 + 2 * nw)):
        r = rng.random()
        if r < 0.5 or nw == 1:
            nm = rng.choice(G1); ws = [rng.choice(labels)]
        elif r < 0.9 or nw == 2:
            nm = rng.choice(G2); ws = rng.sample(labels, 2)
        else:
            nm = rng.choice(G3); ws = rng.sample(labels, 3)
        cls = getattr(qp, nm)
        ops.append(cls(*[pyth_angle(rng) for _ in range(cls.num_params)], wires=ws))
    if rng.random() < 0.15:
        ops.append(qp.GlobalPhase(rng.choice([math.pi / 2, math.pi / 4, math.pi])))
    if rng.random() < 0.2 and nw >= 2:
        a, b = rng.sample(labels, 2)
        ops.append(qp.ctrl(qp.RY(pyth_angle(rng), wires=b), control=a, control_values=[0]))
    if rng.random() < 0.15:
        ops.append(qp.adjoint(qp.S(rng.choice(labels))))
    return ops


def jsonable(x):
    a = np.asarray(x)
    if np.iscomplexobj(a):
        return {"re": np.real(a).tolist(), "im": np.imag(a).tolist()}
    return {"re": a.astype(float).tolist()}


# ---- leading state preparations.  The reference never sees the state-preparation operator: BasisState(bits, ws) is
# replaced by PauliX on the wires whose bit is 1 and StatePrep(v, ws) by the Householder reflection U = 1 - 2 w w^+ / |w|^2,
# w = e0 - v (v[0] real), the unitary with U|0..0> = v, both acting on |0...0> with ws[0] the most significant wire
# (the documented meaning of a state preparation on a wire list).
PREP_VECS = {1: [([3, 4j], 5), ([4, -3], 5), ([5, 12j], 13), ([0, 1j], 1), ([12, -5j], 13)],
             2: [([1, 2j, -2, 4], 5), ([2, 4, 5j, -6], 9), ([1, 1j, -1, -1j], 2), ([2, 0, 3j, -6], 7), ([0, 3, 0, 4j], 5)],
             3: [([3, 1j, -1, 1, -1j, 1, 1, -1], 4), ([1, 2j, -2, 4, 0, 0, 0, 0], 5), ([1, 1, 1j, -3, 1, -1, 1j, 1], 4),
                 ([2, 0, 4, 0, 0, 5j, 0, -6], 9)]}


def householder(v):
    v = np.asarray(v, dtype=complex)
    assert abs(v[0].imag) < 1e-15 and abs(np.vdot(v, v) - 1) < 1e-12 and abs(v[0] - 1) > 1e-9
    w = -v.copy(); w[0] += 1
    return np.eye(len(v), dtype=complex) - 2 * np.outer(w, w.conj()) / np.real(np.vdot(w, w))


def prep_pair(kind, data, ws):
    """(operator given to default.qubit, reference operators acting on |0..0>)"""
    if kind == "basis":
        return qp.BasisState(np.array(data), wires=ws), [qp.PauliX(w) for b, w in zip(data, ws) if b]
    num, den = data
    v = np.array(num, dtype=complex) / den
    return qp.StatePrep(v, wires=ws), [qp.QubitUnitary(householder(v), wires=ws)]


def meas_of(mdesc):
    ms = []
    for d in mdesc:
        if d["kind"] == "state":
            ms.append(qp.state())
        elif d["kind"] == "probs":
            ms.append(qp.probs(wires=d["wires"]))
        elif d["kind"] in ("expval", "var"):
            fs = [getattr(qp, "Pauli" + ch)(w) for ch, w in zip(d["word"], d["wires"])]
            o = qp.prod(*fs) if len(fs) > 1 else fs[0]
            ms.append(qp.expval(o) if d["kind"] == "expval" else qp.var(o))
        elif d["kind"] == "dm":
            ms.append(qp.density_matrix(wires=d["wires"]))
        elif d["kind"] == "vn_entropy":
            ms.append(qp.vn_entropy(wires=d["wires"], log_base=d["log_base"]))
        elif d["kind"] == "mutual_info":
            ms.append(qp.mutual_info(wires0=d["wires0"], wires1=d["wires1"], log_base=d["log_base"]))
        else:
            ms.append(qp.purity(wires=d["wires"]))
    return ms


def execute_case(labels, dev_wires, ops, ref_ops, ms, mdesc, iface, via="qnode"):
    """run `ops` on default.qubit; `ref_ops` (same circuit with the state preparation replaced as above) goes to the exact
    reference simulation"""
    run = {"labels": labels, "dev_wires": dev_wires, "ops": [repr(o) for o in ops], "meas": mdesc, "interface": iface, "status": "ok", "via": via}
    runs.append(run)
    try:
        run["circuit"] = exact_circuit_gallina(ref_ops, dev_wires)
        run["n"] = len(dev_wires)
        if via == "execute":      # plain tape execution, device without wires (dev_wires must then be sorted labels)
            res = qp.execute([qp.tape.QuantumScript(ops, ms)], qp.device("default.qubit"))[0]
        else:
            dev = qp.device("default.qubit", wires=dev_wires)

            def circuit():
                for o in ops:
                    qp.apply(o)
                return tuple(qp.apply(m) for m in ms) if len(ms) > 1 else qp.apply(ms[0])
            qn = qp.QNode(circuit, dev, interface=None if iface == "numpy" else iface, diff_method=None if iface == "numpy" else "best")
            res = qn()
        res = res if isinstance(res, tuple) else (res,)
        run["results"] = [jsonable(r.detach().numpy() if hasattr(r, "detach") else r) for r in res]
    except NotExtractable as e:
        run["status"], run["detail"] = "notex", str(e)[:200]
    except Exception as e:
        run["status"], run["detail"] = "error", f"{type(e).__name__}: {str(e)[:300]}"


# ---- fixed corpus (runs first, independent of the seed): leading state preparations whose wires are not 0..k-1 in
# ascending order, on registers labelled 0..n-1 (no relabelling happens then) and on labelled registers
A1, A2, A3 = 2 * math.atan2(8, 15), 2 * math.atan2(3, 4), 2 * math.atan2(-5, 12)      # rational half-angle cos/sin
FIXED = [
    # (labels, dev_wires, prep kind, prep data, prep wires, gates, measurements, interface, via)
    ([0, 1, 2], [0, 1, 2], "vec", PREP_VECS[2][0], [2, 0], [("RY", [A1], [1]), ("CNOT", [], [1, 2]), ("RX", [A2], [0])],
     [{"kind": "state"}], "numpy", "execute"),
    ([0, 1, 2], [0, 1, 2], "vec", PREP_VECS[2][0], [2, 0], [("RY", [A1], [1]), ("CNOT", [], [1, 2]), ("RX", [A2], [0])],
     [{"kind": "probs", "wires": [0, 1, 2]}, {"kind": "expval", "word": ["Z"], "wires": [0]}], "numpy", "execute"),
    ([0, 1], [0, 1], "vec", PREP_VECS[2][1], [1, 0], [("RX", [A3], [0])],
     [{"kind": "probs", "wires": [0, 1]}, {"kind": "expval", "word": ["Z", "X"], "wires": [0, 1]}], "numpy", "qnode"),
    ([0, 1], [0, 1], "vec", PREP_VECS[1][0], [1], [("RY", [A1], [0]), ("CNOT", [], [0, 1])],
     [{"kind": "state"}], "numpy", "qnode"),
    ([0, 1, 2], [2, 0, 1], "vec", PREP_VECS[2][3], [1, 2], [("Hadamard", [], [0]), ("CRX", [A2], [0, 1])],
     [{"kind": "dm", "wires": [1, 0]}, {"kind": "var", "word": ["Y"], "wires": [2]}], "numpy", "qnode"),
    ([0, 1, 2, 3], [0, 1, 2, 3], "vec", PREP_VECS[3][0], [3, 0, 2], [("RY", [A2], [1]), ("CZ", [], [1, 3]), ("IsingXX", [A1], [0, 2])],
     [{"kind": "state"}], "numpy", "qnode"),
    ([0, 1, 2], [0, 1, 2], "basis", [1, 0], [2, 0], [("RY", [A1], [1]), ("CNOT", [], [1, 0]), ("RX", [A2], [2])],
     [{"kind": "probs", "wires": [0, 1, 2]}, {"kind": "expval", "word": ["Z"], "wires": [2]}], "numpy", "execute"),
    ([0, 1, 2], [1, 2, 0], "basis", [0, 1, 1], [1, 2, 0], [("RX", [A3], [0]), ("CNOT", [], [0, 1])],
     [{"kind": "state"}], "numpy", "qnode"),
    ([0, 1, 2], [0, 1, 2], "basis", [1], [2], [("Hadamard", [], [0]), ("CNOT", [], [0, 1])],
     [{"kind": "probs", "wires": [2, 0]}, {"kind": "purity", "wires": [2]}], "numpy", "qnode"),
    ([0, 1, 2], [0, 1, 2], "vec", PREP_VECS[2][2], [2, 1], [("RY", [A1], [0]), ("Toffoli", [], [0, 2, 1])],
     [{"kind": "state"}], "autograd", "qnode"),
    ([0, 1], [0, 1], "vec", PREP_VECS[2][4], [1, 0], [("T", [], [1])],
     [{"kind": "state"}], "jax", "qnode"),
    ([0, 1, 2], [0, 1, 2], "vec", PREP_VECS[2][1], [2, 0], [("SX", [], [1]), ("CY", [], [1, 2])],
     [{"kind": "probs", "wires": [1, 2, 0]}], "torch", "qnode"),
    (["a", "b", "c"], ["b", "c", "a"], "vec", PREP_VECS[2][0], ["c", "a"], [("RY", [A1], ["b"]), ("CNOT", [], ["b", "c"])],
     [{"kind": "state"}], "numpy", "qnode"),
    ([3, "q", 0], [0, 3, "q"], "basis", [1, 0, 1], ["q", 0, 3], [("RX", [A2], [0]), ("CZ", [], [3, "q"])],
     [{"kind": "probs", "wires": [3, "q", 0]}, {"kind": "expval", "word": ["Z"], "wires": ["q"]}], "numpy", "qnode"),
]
# entropies / mutual information in several logarithm bases (log_base None = natural logarithm)
ENT_GATES = [("RY", [A1], [0]), ("RY", [A2], [1]), ("CNOT", [], [0, 1]), ("RY", [A3], [2]), ("CNOT", [], [1, 2])]
FIXED += [
    ([0, 1, 2], [0, 1, 2], None, None, None, ENT_GATES,
     [{"kind": "vn_entropy", "wires": [0], "log_base": None}, {"kind": "vn_entropy", "wires": [0], "log_base": 2},
      {"kind": "mutual_info", "wires0": [0], "wires1": [1], "log_base": None}], "numpy", "execute"),
    ([0, 1, 2], [0, 1, 2], None, None, None, ENT_GATES,
     [{"kind": "mutual_info", "wires0": [0], "wires1": [1], "log_base": 2}, {"kind": "mutual_info", "wires0": [0], "wires1": [1, 2], "log_base": 10},
      {"kind": "vn_entropy", "wires": [2, 1], "log_base": 10}], "numpy", "execute"),
    ([0, 1, 2], [2, 0, 1], None, None, None, ENT_GATES,
     [{"kind": "mutual_info", "wires0": [2], "wires1": [0], "log_base": 3}, {"kind": "vn_entropy", "wires": [1], "log_base": 0.5}], "numpy", "qnode"),
    (["a", "b", "c"], ["c", "a", "b"], "vec", PREP_VECS[2][1], ["c", "a"], [("RY", [A1], ["b"]), ("CNOT", [], ["b", "c"])],
     [{"kind": "mutual_info", "wires0": ["a"], "wires1": ["c", "b"], "log_base": 2}, {"kind": "vn_entropy", "wires": ["c"], "log_base": 2}], "numpy", "qnode"),
    ([0, 1], [0, 1], None, None, None, [("RY", [A2], [0]), ("CNOT", [], [0, 1])],
     [{"kind": "mutual_info", "wires0": [1], "wires1": [0], "log_base": 2}], "autograd", "qnode"),
    ([0, 1], [0, 1], None, None, None, [("RY", [A2], [0]), ("CNOT", [], [0, 1])],
     [{"kind": "mutual_info", "wires0": [0], "wires1": [1], "log_base": 10}, {"kind": "vn_entropy", "wires": [1], "log_base": 10}], "jax", "qnode"),
    ([0, 1], [0, 1], None, None, None, [("RY", [A1], [0]), ("CNOT", [], [0, 1])],
     [{"kind": "mutual_info", "wires0": [0], "wires1": [1], "log_base": 2}], "torch", "qnode"),
]
for labels, dev_wires, pk, pdata, pws, gates, mdesc, iface, via in FIXED:
    prep, ref = prep_pair(pk, pdata, pws) if pk else (None, [])
    body = [getattr(qp, nm)(*ps, wires=ws) for nm, ps, ws in gates]
    execute_case(labels, dev_wires, ([prep] if pk else []) + body, ref + body, meas_of(mdesc), mdesc, iface, via)
    runs[-1]["fixed"] = True

LABELSETS = [[0, 1, 2, 3, 4, 5], ["a", "b", "c", "d"], [3, "q", 0, "aux"], [10, 20]]
ncirc = 60 if tier == "quick" else 600
interfaces = ["numpy", "numpy", "numpy", "autograd", "jax", "torch"]
for ci in range(ncirc):
    nw = rng.choice([1, 2, 2, 3, 3, 4, 5]) if tier == "quick" else rng.choice([1, 2, 3, 4, 5, 6])
    labels = list(rng.choice(LABELSETS))
    while len(labels) < nw:
        labels.append(f"w{len(labels)}")
    labels = labels[:nw]
    dev_wires = list(labels); rng.shuffle(dev_wires)
    ops = rand_ops(labels)
    ref_ops = ops
    if rng.random() < 0.3:        # leading state preparation on a random wire subset in random order
        pws = rng.sample(labels, rng.randint(1, min(nw, 3)))
        if rng.random() < 0.5:
            prep, ref = prep_pair("basis", [rng.randint(0, 1) for _ in pws], pws)
        else:
            prep, ref = prep_pair("vec", rng.choice(PREP_VECS[len(pws)]), pws)
        ops, ref_ops = [prep] + ops, ref + ops
    # measurements
    ms, mdesc = [], []
    for _ in range(rng.randint(1, 3)):
        r = rng.random()
        if r < 0.2:
            ms.append(qp.state()); mdesc.append({"kind": "state"})
        elif r < 0.45:
            k = rng.randint(1, nw); ws = rng.sample(labels, k)
            ms.append(qp.probs(wires=ws)); mdesc.append({"kind": "probs", "wires": ws})
        elif r < 0.8:
            k = rng.randint(1, min(2, nw)); ws = rng.sample(labels, k)
            word = [rng.choice("XYZ") for _ in ws]
            o = qp.prod(*[getattr(qp, "Pauli" + ch)(w) for ch, w in zip(word, ws)]) if k > 1 else getattr(qp, "Pauli" + word[0])(ws[0])
            if rng.random() < 0.6:
                ms.append(qp.expval(o)); mdesc.append({"kind": "expval", "word": word, "wires": ws})
            else:
                ms.append(qp.var(o)); mdesc.append({"kind": "var", "word": word, "wires": ws})
        elif r < 0.87:
            ws = rng.sample(labels, rng.randint(1, nw))
            ms.append(qp.density_matrix(wires=ws)); mdesc.append({"kind": "dm", "wires": ws})
        elif r < 0.92:
            ws = rng.sample(labels, rng.randint(1, nw))
            ms.append(qp.purity(wires=ws)); mdesc.append({"kind": "purity", "wires": ws})
        elif r < 0.96 or nw == 1:
            ws = rng.sample(labels, rng.randint(1, nw))
            mdesc.append({"kind": "vn_entropy", "wires": ws, "log_base": rng.choice([None, 2, 10, 3])})
            ms.append(meas_of(mdesc[-1:])[0])
        else:
            ws = rng.sample(labels, rng.randint(2, nw)); k = rng.randint(1, len(ws) - 1)
            mdesc.append({"kind": "mutual_info", "wires0": ws[:k], "wires1": ws[k:], "log_base": rng.choice([None, 2, 10, 3])})
            ms.append(meas_of(mdesc[-1:])[0])
    if sum(1 for d in mdesc if d["kind"] == "state") and len(ms) > 1:
        ms, mdesc = ms[:1], mdesc[:1]
    iface = rng.choice(interfaces)
    execute_case(labels, dev_wires, ops, ref_ops, ms, mdesc, iface)
json.dump(oblig, open(req["outdir"] + "/obligations.json", "w"))
print(json.dumps({"items": items, "runs": runs, "kernel_wall": kernel_wall}))
