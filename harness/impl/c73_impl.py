"""C73 driver.  Runs scenarios (JSON on stdin) against the real Tracker / simulator_tracking wrappers.

Every device entry point is ALSO wrapped on the instance (outside the tracking wrapper), which records
independently: which entry point was called, whether a bare tape or a batch was passed, the circuits
(abstracted to the facts the tracking code looks at), the results the device returned, and whether
the tracker was active.  The output is the recorded program (lifecycle operations + device calls) and
the final state of the tracker (totals, history, latest, what the callback saw).
"""
import json
import sys
import warnings
from numbers import Number

import numpy as np

import pennylane as qp
from pennylane import numpy as pnp
from pennylane.devices import Device
from pennylane.devices.modifiers import simulator_tracking, single_tape_support
from pennylane.devices.qubit.sampling import get_num_shots_and_executions
from pennylane.measurements import ClassicalShadowMP, ExpectationMP, ShadowExpvalMP
from pennylane.ops import Identity, LinearCombination, Prod, SProd, Sum
from pennylane.tape import QuantumScript

warnings.filterwarnings("ignore")

KEYS = {"batches": 1, "simulations": 2, "executions": 3, "results": 4, "shots": 5, "resources": 6,
        "derivative_batches": 7, "derivatives": 8, "execute_and_derivative_batches": 9,
        "jvp_batches": 10, "jvps": 11, "execute_and_jvp_batches": 12, "vjp_batches": 13, "vjps": 14,
        "execute_and_vjp_batches": 15}
ENTRY = ["execute", "compute_derivatives", "execute_and_compute_derivatives", "compute_jvp",
         "execute_and_compute_jvp", "compute_vjp", "execute_and_compute_vjp"]
PL = {"X": 1, "Y": 2, "Z": 3}


def key_id(k):
    if k in KEYS:
        return KEYS[k]
    if k.startswith("u") and k[1:].isdigit():
        return 100 + int(k[1:])
    return 999


# ------------------------------------------------------------------ building circuits from specs
def mk_pw(w):
    ops = [{"X": qp.X, "Y": qp.Y, "Z": qp.Z, "I": qp.Identity}[p](i) for i, p in w]
    return ops[0] if len(ops) == 1 else qp.prod(*ops)


def mk_obs(o):
    k = o["k"]
    if k == "pw":
        return mk_pw(o["w"])
    if k == "herm":
        return qp.Hermitian(np.array([[1.0, 0.5], [0.5, -1.0]]), wires=o["w"])
    if k == "had":
        return qp.Hadamard(o["w"])
    if k == "ham":
        return qp.Hamiltonian([float(c) for c in o["c"]], [mk_obs(t) for t in o["t"]],
                              grouping_type="qwc" if o.get("group") else None)
    if k == "sum":
        return qp.sum(*[mk_obs(t) for t in o["t"]], grouping_type="qwc" if o.get("group") else None)
    if k == "sprod":
        return qp.s_prod(float(o["c"]), mk_obs(o["o"]))
    raise ValueError(k)


def mk_meas(m):
    t = m["t"]
    if t == "expval":
        return qp.expval(mk_obs(m["obs"]))
    if t == "var":
        return qp.var(mk_obs(m["obs"]))
    if t == "probs":
        return qp.probs(wires=m["wires"])
    if t == "probs_obs":
        return qp.probs(op=mk_obs(m["obs"]))
    if t == "sample":
        return qp.sample(wires=m["wires"])
    if t == "sample_obs":
        return qp.sample(mk_obs(m["obs"]))
    if t == "counts":
        return qp.counts(wires=m["wires"])
    if t == "shadow":
        return qp.classical_shadow(wires=m["wires"], seed=7)
    if t == "shadow_expval":
        return qp.shadow_expval(mk_obs(m["obs"]), seed=7)
    raise ValueError(t)


def mk_shots(s):
    if s is None or isinstance(s, int):
        return s
    return tuple(tuple(i) if isinstance(i, list) else i for i in s)


def mk_tape(c):
    ops = []
    b = c.get("bcast", 0)
    for j in range(c.get("nops", 1)):
        w = j % 3
        if j == 0 and b:
            ops.append(qp.RX(np.linspace(0.1, 0.9, b), wires=0))
        elif j % 3 == 2:
            ops.append(qp.CNOT([w, (w + 1) % 3]))
        else:
            ops.append(qp.RY(0.3 + 0.1 * j, wires=w))
    return QuantumScript(ops, [mk_meas(m) for m in c["meas"]], shots=mk_shots(c["shots"]))


# ------------------------------------------------------------------ abstraction of a circuit (at call time)
def abs_ti(o):
    if not isinstance(o, Sum):
        return {"grouping": None, "pauli_rep": False, "terms": [], "qwc": 0}
    gi = o.grouping_indices
    ts = list(o.terms()[1])
    terms = []
    for j, t in enumerate(ts):
        e = j
        for i in range(j):
            if ts[i] is t or ts[i] == t:
                e = i
                break
        terms.append([e, isinstance(t, Identity), [int(w) for w in t.wires]])
    has_rep = bool(o.pauli_rep)
    q = 0
    if has_rep and not gi and not isinstance(o, LinearCombination):
        with qp.QueuingManager.stop_recording():
            q = len(qp.pauli.group_observables(ts))          # graph-colouring oracle
    return {"grouping": len(gi) if gi else None, "pauli_rep": has_rep, "terms": terms, "qwc": q}


def abs_obs(o):
    if o is None:
        return None
    pw = None
    if qp.pauli.is_pauli_word(o):
        rep = o.pauli_rep
        word = next(iter(rep)) if rep is not None and len(rep) == 1 else {}
        pw = sorted([int(w), PL[p]] for w, p in word.items() if p in PL)
    cls = 1 if isinstance(o, LinearCombination) else (2 if isinstance(o, Sum) else 0)
    return {"pw": pw, "cls": cls, "ti": abs_ti(o)}


def res_token(n_ops, n_wires):
    return int(n_ops) * 100 + int(n_wires)


def abs_circuit(c):
    mps = c.measurements
    out = []
    eff = []
    for mp in mps:
        o = mp.obs
        s = qp.simplify(o) if isinstance(o, (Sum, SProd, Prod)) else o
        eff.append(s)
        out.append({"shadow": isinstance(mp, (ClassicalShadowMP, ShadowExpvalMP)),
                    "exp": isinstance(mp, ExpectationMP), "raw": abs_obs(o), "simp": abs_obs(s)})
    part = []
    if len(mps) > 1:
        pobs = [s for mp, s in zip(mps, eff)
                if not isinstance(mp, (ClassicalShadowMP, ShadowExpvalMP)) and s is not None and qp.pauli.is_pauli_word(s)]
        if pobs:
            part = [[int(i) for i in g] for g in qp.pauli.compute_partition_indices(pobs)]   # graph-colouring oracle
    sh = c.shots
    return {"shots": None if sh.total_shots is None else [[int(sc.shots), int(sc.copies)] for sc in sh.shot_vector],
            "meas": out, "part": part, "batch": None if c.batch_size is None else int(c.batch_size),
            "res": res_token(len(c.operations), len(c.wires)), "result": None}


# ------------------------------------------------------------------ the scenario runner
@simulator_tracking
@single_tape_support
class IntDev(Device):
    """a device whose results are planned Python values (ints, bools, None, strings): exact totals"""

    def __init__(self):
        super().__init__()
        self.plan = []

    def _pop(self):
        return self.plan.pop(0) if self.plan else 0

    def execute(self, circuits, execution_config=None):
        return tuple(self._pop() for _ in circuits)

    def compute_derivatives(self, circuits, execution_config=None):
        return tuple(0 for _ in circuits)

    def execute_and_compute_derivatives(self, circuits, execution_config=None):
        return tuple(self._pop() for _ in circuits), tuple(0 for _ in circuits)

    def compute_jvp(self, circuits, tangents, execution_config=None):
        return tuple(0 for _ in circuits)

    def execute_and_compute_jvp(self, circuits, tangents, execution_config=None):
        return tuple(self._pop() for _ in circuits), tuple(0 for _ in circuits)

    def compute_vjp(self, circuits, cotangents, execution_config=None):
        return tuple(0 for _ in circuits)

    def execute_and_compute_vjp(self, circuits, cotangents, execution_config=None):
        return tuple(self._pop() for _ in circuits), tuple(0 for _ in circuits)


class Runner:
    def __init__(self, case):
        self.case = case
        self.mode = case["mode"]
        self.dev = qp.device("default.qubit", seed=11) if self.mode == "dq" else IntDev()
        self.ops = []            # the recorded program
        self.cblog = []
        self.keep = []           # result objects (kept alive so that id() stays unique)
        self.tok = {}            # id(result object) -> token
        self.strs = {}
        cb = self.callback if case["callback"] else None
        self.tracker = qp.Tracker(self.dev, callback=cb, persistent=case["persistent"])
        for name in ENTRY:
            self.wrap(name)

    # -- value encoding
    def enc(self, key, v):
        if v is None:
            return None
        if isinstance(v, (bool, np.bool_)):
            return {"b": bool(v)}
        if isinstance(v, (int, np.integer)):
            return int(v)
        if key == "resources" and hasattr(v, "total_quantum_operations"):
            return {"t": res_token(v.total_quantum_operations, v.num_wires)}
        if id(v) in self.tok:
            return {"t": self.tok[id(v)]}
        if isinstance(v, str) and v in self.strs:
            return {"t": self.strs[v]}
        return {"t": -1}

    def enc_totals(self, d):
        return [[key_id(k), self.enc(k, v)] for k, v in d.items() if not (self.mode == "dq" and k == "results")]

    def enc_kw(self, d):
        return [[key_id(k), self.enc(k, v)] for k, v in d.items()]

    def callback(self, totals, history, latest):
        # snapshot now (the dicts are live references); result objects get their tokens only after the
        # device call returns, so `latest` is encoded at the end
        self.cblog.append([self.enc_totals(totals), list(latest.items())])

    def result_token(self, r):
        if self.mode == "dq":
            t = 1000 + len(self.keep)
            self.keep.append(r)
            self.tok[id(r)] = t
            return {"t": t}
        return self.enc("results", r)

    # -- the independent recording wrapper around a device entry point
    def wrap(self, name):
        inner = getattr(self.dev, name)

        def wrapper(circuits, *a, **k):
            single = isinstance(circuits, QuantumScript)
            batch = [circuits] if single else list(circuits)
            rec = {"op": "call", "entry": name, "single": single, "failed": False,
                   "active": bool(self.dev.tracker.active), "circuits": [abs_circuit(c) for c in batch]}
            self.ops.append(rec)
            if self.mode == "int" and name == "execute":     # planned results are known before the call
                for ac, r in zip(rec["circuits"], self.dev.plan):
                    ac["result"] = self.enc("results", r)
            try:
                out = inner(circuits, *a, **k)
            except Exception as ex:
                rec["failed"] = True
                rec["exc"] = type(ex).__name__
                raise
            if name == "execute" and self.mode == "dq":
                rs = [out] if single else list(out)
                for ac, r in zip(rec["circuits"], rs):
                    ac["result"] = self.result_token(r)
            return out
        setattr(self.dev, name, wrapper)

    # -- scenario steps
    def dec_val(self, v):
        if isinstance(v, dict):
            s = "s%d" % v["s"]
            self.strs[s] = 500 + v["s"]
            return s
        return v

    def call(self, st):
        tapes = [mk_tape(c) for c in st["circuits"]]
        arg = tapes[0] if st["single"] else tuple(tapes)
        name = st["entry"]
        if self.mode == "int":
            self.dev.plan = [self.dec_val(c.get("result", 0)) for c in st["circuits"]]
            f = getattr(self.dev, name)
            extra = () if name in ENTRY[:3] else (None,)
            return f(arg, *extra)
        cfg = qp.devices.ExecutionConfig(gradient_method="adjoint") if name != "execute" else None
        f = getattr(self.dev, name)
        if name in ENTRY[:3]:
            return f(arg, cfg)
        if name in ("compute_jvp", "execute_and_compute_jvp"):
            tang = tuple(tuple(1.0 for _ in t.trainable_params) for t in tapes)
            return f(arg, tang[0] if st["single"] else tang, cfg)
        cot = tuple(tuple(1.0 for _ in t.measurements) if len(t.measurements) > 1 else 1.0 for t in tapes)
        return f(arg, cot[0] if st["single"] else cot, cfg)

    def qnode(self, st):
        meas = st["meas"]
        kw = dict(st.get("kw", {}))

        @qp.qnode(self.dev, diff_method=st["diff"], **kw)
        def circ(x, y):
            if st.get("bcast"):
                qp.RX(np.linspace(0.2, 0.8, st["bcast"]), wires=2)
            qp.RX(x, 0)
            qp.RY(y, 1)
            qp.CNOT([0, 1])
            return tuple(mk_meas(m) for m in meas) if len(meas) > 1 else mk_meas(meas[0])
        if st["shots"] is not None:
            circ = qp.set_shots(circ, shots=mk_shots(st["shots"]))
        x = pnp.array(0.3, requires_grad=True)
        y = pnp.array(0.5, requires_grad=True)
        if st.get("grad"):
            def cost(a, b):
                r = circ(a, b)
                flat = []

                def rec(z):
                    if isinstance(z, (tuple, list)):
                        for q in z:
                            rec(q)
                    else:
                        flat.append(pnp.sum(z))
                rec(r)
                return sum(flat)
            qp.grad(cost)(x, y)
        else:
            circ(x, y)

    def run(self):
        tr = self.tracker
        for st in self.case["steps"]:
            o = st["op"]
            try:
                if o == "enter":
                    self.ops.append({"op": "enter"})
                    tr.__enter__()
                elif o == "exit":
                    self.ops.append({"op": "exit"})
                    tr.__exit__(None, None, None)
                elif o == "reset":
                    self.ops.append({"op": "reset"})
                    tr.reset()
                elif o == "record":
                    self.ops.append({"op": "record"})
                    tr.record()
                elif o == "update":
                    kw = {"u%d" % k if k >= 100 else [n for n, i in KEYS.items() if i == k][0]: self.dec_val(v)
                          for k, v in st["kw"]}
                    self.ops.append({"op": "update", "kw": [[key_id(k), self.enc(k, v)] for k, v in kw.items()]})
                    tr.update(**kw)
                elif o == "call":
                    self.call(st)
                elif o == "qnode":
                    self.qnode(st)
            except Exception as ex:      # the recorded program stays valid; remember that something raised
                self.ops.append({"op": "raised", "exc": type(ex).__name__, "step": o})
        # ---- final observation
        res_ok = True
        if self.mode == "dq":           # float results: the running sum is checked here with the same float additions
            nums = [v for v in tr.history.get("results", []) if v is not None and isinstance(v, Number)]
            if nums:
                acc = 0
                for v in nums:
                    acc = v + acc
                res_ok = "results" in tr.totals and bool(tr.totals["results"] == acc)
            else:
                res_ok = "results" not in tr.totals
        return {"ops": self.ops, "active": bool(tr.active), "totals": self.enc_totals(tr.totals),
                "history": [[key_id(k), [self.enc(k, v) for v in vs]] for k, vs in tr.history.items()],
                "latest": self.enc_kw(tr.latest),
                "cblog": [[t, [[key_id(k), self.enc(k, v)] for k, v in l]] for t, l in self.cblog], "results_total_ok": res_ok,
                "n_numeric_results": len([v for v in tr.history.get("results", []) if isinstance(v, Number)])}


def run_nse(c):
    t = mk_tape(c)
    a = abs_circuit(t)
    try:
        e, s = get_num_shots_and_executions(t)
        r = [int(e), int(s)]
    except TypeError:
        r = None
    return {"circuit": a, "nse": r}


def main():
    payload = json.load(sys.stdin)
    out = []
    for case in payload["cases"]:
        if case.get("mode") == "nse":
            out.append(run_nse(case["circuit"]))
        else:
            out.append(Runner(case).run())
    print(json.dumps(out))


main()
