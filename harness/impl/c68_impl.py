"""C68 driver: runs pennylane.kernels on the JSON cases from stdin; prints one JSON line.

Every float is returned as its exact value [numerator, denominator] (float.as_integer_ratio), so that the harness can
hand it to Coq as a rational.  For every kernel case the reference table Tref[a][b] = kernel(P[a], P[b]) is computed by
calling the kernel function directly on the pool of points, independently of the functions under test."""
import json
import math
import sys
from fractions import Fraction

import numpy as np
import pennylane as qp
from pennylane import kernels as kn


def ratio(x):
    x = float(x)
    if not math.isfinite(x):
        return "NAN"
    n, d = x.as_integer_ratio()
    return [n, d]


def mat_out(out):
    a = np.asarray(out)
    if a.ndim != 2:
        return "BADSHAPE:" + str(list(a.shape))
    a = a.astype(float)
    return [[ratio(v) for v in row] for row in a]


_qnode = {}


def qnode_kernel():
    if "k" not in _qnode:
        dev = qp.device("default.qubit", wires=2)

        @qp.qnode(dev)
        def circuit(x1, x2):
            qp.templates.AngleEmbedding(x1, wires=[0, 1])
            qp.adjoint(qp.templates.AngleEmbedding)(x2, wires=[0, 1])
            return qp.probs(wires=[0, 1])
        _qnode["k"] = lambda x1, x2: circuit(x1, x2)[0]
    return _qnode["k"]


def make_kernel(spec):
    """returns (pool of points as float arrays, raw kernel on arrays)"""
    kind = spec["kind"]
    if kind == "table":
        T = np.array(spec["T"], dtype=float)
        P = [np.array([float(i)]) for i in range(len(T))]
        return P, (lambda x, y: T[int(x[0]), int(y[0])])
    P = [np.array(p, dtype=float) for p in spec["P"]]
    if kind == "poly":
        a = np.array(spec["a"], dtype=float)
        c, deg, s = float(spec["c"]), int(spec["deg"]), float(spec["s"])
        return P, (lambda x, y: (c + np.sum(a * x * y)) ** deg + s * (x[0] - y[0]))
    if kind == "rbf":
        g = float(spec["gamma"])
        return P, (lambda x, y: np.exp(-g * np.sum((x - y) ** 2)))
    if kind == "asymf":
        return P, (lambda x, y: np.exp(-np.sum((x - y) ** 2)) * (1 + 0.25 * np.tanh(x[0] - 2 * y[0])))
    if kind == "qnode":
        k = qnode_kernel()
        return P, (lambda x, y: k(x, y))
    raise ValueError(kind)


def wrap(raw, ret):
    def k(x, y):
        v = raw(np.asarray(x, dtype=float), np.asarray(y, dtype=float))
        if ret == "pyfloat":
            return float(v)
        if ret == "np0d":
            return np.array(float(v))
        return np.float64(v)
    return k


def points(P, idx, xform):
    pts = [P[i].copy() for i in idx]
    if xform == "array" and pts:
        return np.array(pts)
    if xform == "nested":
        return [list(map(float, p)) for p in pts]
    return pts


def ref_table(P, raw):
    return [[ratio(raw(P[a], P[b])) for b in range(len(P))] for a in range(len(P))]


def labels(Y, yform):
    if yform == "array":
        return np.array(Y)
    if yform == "floatlist":
        return [float(y) for y in Y]
    return list(Y)


def run_kernel_case(c):
    P, raw = make_kernel(c["kernel"])
    k = wrap(raw, c.get("ret", "np64"))
    res = {"tref": ref_table(P, raw)}
    try:
        if c["fn"] == "km":
            res["out"] = mat_out(kn.kernel_matrix(points(P, c["X1"], c["xform"]), points(P, c["X2"], c["xform"]), k))
        elif c["fn"] == "sq":
            res["out"] = mat_out(kn.square_kernel_matrix(points(P, c["xs"], c["xform"]), k,
                                                         assume_normalized_kernel=c["an"]))
        else:
            X = points(P, c["xs"], c["xform"])
            Y = labels(c["Y"], c.get("yform", "list"))
            if c["normalize"] and c.get("alias", False):
                v = kn.target_alignment(X, Y, k, assume_normalized_kernel=c["an"],
                                        rescale_class_labels=c["rescale"])
            else:
                v = kn.polarity(X, Y, k, assume_normalized_kernel=c["an"], rescale_class_labels=c["rescale"],
                                normalize=c["normalize"])
            res["out"] = ratio(v)
    except Exception as e:  # noqa: BLE001  -- any escaped exception is the observable "raises"
        res["out"] = "ERR"
        res["exc"] = type(e).__name__
    return res


POST = {0: kn.threshold_matrix, 1: kn.displace_matrix, 2: kn.flip_matrix, 3: kn.closest_psd_matrix}


def run_post_case(c):
    K = np.array([[float(Fraction(s)) for s in row] for row in c["K"]], dtype=float)
    try:
        return {"out": mat_out(POST[c["which"]](K))}
    except Exception as e:  # noqa: BLE001
        return {"out": "ERR", "exc": type(e).__name__}


def run_batched_case(c):
    """vector-valued kernel (the math.ndim(matrix[0]) != 0 branch): raw outputs + reference values"""
    P, raw = make_kernel(c["kernel"])
    mults = np.array(c["mults"], dtype=float)
    kb = lambda x, y: raw(np.asarray(x, dtype=float), np.asarray(y, dtype=float)) * mults
    ref = [[[float(v) for v in kb(P[a], P[b])] for b in range(len(P))] for a in range(len(P))]
    try:
        if c["fn"] == "km":
            out = kn.kernel_matrix(points(P, c["X1"], "list"), points(P, c["X2"], "list"), kb)
        else:
            out = kn.square_kernel_matrix(points(P, c["xs"], "list"), kb, assume_normalized_kernel=c["an"])
        out = np.asarray(out, dtype=float)
        return {"shape": list(out.shape), "out": out.tolist(), "ref": ref}
    except Exception as e:  # noqa: BLE001
        return {"out": "ERR", "exc": type(e).__name__, "ref": ref}


def run_closest_case(c):
    K = np.array(c["K"], dtype=float)
    try:
        out = kn.closest_psd_matrix(K, fix_diagonal=True)
        return {"out": np.asarray(out, dtype=float).tolist()}
    except ImportError as e:
        return {"out": "NOCVXPY", "msg": str(e)}
    except Exception as e:  # noqa: BLE001
        return {"out": "ERR", "exc": type(e).__name__, "msg": str(e)[:200]}


def run_mitigate_case(c):
    K = np.array(c["K"], dtype=float)
    try:
        out = kn.mitigate_depolarizing_noise(K, c["num_wires"], c["method"], use_entries=c.get("use_entries"))
        return {"out": np.asarray(out, dtype=float).tolist()}
    except ValueError as e:
        return {"out": "VALUEERROR", "msg": str(e)[:80]}
    except Exception as e:  # noqa: BLE001
        return {"out": "ERR", "exc": type(e).__name__, "msg": str(e)[:200]}


def main():
    payload = json.load(sys.stdin)
    res = {
        "kernel": [run_kernel_case(c) for c in payload.get("kernel", [])],
        "post": [run_post_case(c) for c in payload.get("post", [])],
        "batched": [run_batched_case(c) for c in payload.get("batched", [])],
        "closest": [run_closest_case(c) for c in payload.get("closest", [])],
        "mitigate": [run_mitigate_case(c) for c in payload.get("mitigate", [])],
    }
    print(json.dumps(res))


main()
