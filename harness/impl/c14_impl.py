"""C14 driver: runs the real unitary-synthesis entry points of PennyLane on given unitaries.
stdin: {"mode": "synth", "cases": [{"n":1|2|3|4, "U": [[ [re,im], ...], ...], "eps": [entry point ids]}]}
   ->  {"results": [[{"ep":..,"ops":[..],"err":..,"err_phase":..,"phase":..} | {"ep":..,"raised":..}, ...], ...]}
       {"mode": "templates", ...} -> Coq obligations for the circuit templates with FORMAL angles (part A).
Operators are serialised with their exact float parameters (json floats round-trip)."""
import sys, json, math, time, warnings, cmath
warnings.filterwarnings("ignore")
import numpy as np
import pennylane as qp
from pennylane.queuing import AnnotatedQueue

ELEM = {"RZ", "RY", "RX", "CNOT", "GlobalPhase"}
GSETS = {"zyz": {"RZ", "RY", "CNOT", "GlobalPhase"}, "xyx": {"RX", "RY", "CNOT", "GlobalPhase"},
         "zx": {"RZ", "RX", "CNOT", "GlobalPhase"}, "rot": {"Rot", "RZ", "CNOT", "GlobalPhase"},
         "all": {"RZ", "RY", "RX", "CNOT", "GlobalPhase"}}


def cplx(M):
    return np.array([[complex(a, b) for a, b in row] for row in M], dtype=complex)


def ser_mat(M):
    M = np.asarray(M)
    return [[[float(np.real(x)), float(np.imag(x))] for x in row] for row in M]


def ser_op(o):
    nm = o.name
    d = {"name": nm, "wires": [int(w) for w in o.wires]}
    if nm == "QubitUnitary":
        d["matrix"] = ser_mat(o.matrix() if not hasattr(o, "data") else o.data[0])
    elif nm == "SelectPauliRot":
        hp = getattr(o, "hyperparameters", {}) or {}
        cw = hp.get("control_wires", None)
        tw = hp.get("target_wire", None)
        if cw is None:
            cw, tw = o.control_wires, o.target_wire
        axis = hp.get("rot_axis", None) or o.rot_axis
        d.update({"angles": [float(x) for x in np.asarray(o.data[0]).ravel()], "control": [int(w) for w in qp.wires.Wires(cw)],
                  "target": [int(w) for w in qp.wires.Wires(tw)], "axis": str(axis)})
    else:
        d["params"] = [float(np.asarray(x).ravel()[0]) for x in o.data]
        if any(np.asarray(x).size != 1 for x in o.data):
            d["unexpected_shape"] = True
    return d


def graph(on):
    (qp.decomposition.enable_graph if on else qp.decomposition.disable_graph)()


def run_rule(rule, U, wires):
    with AnnotatedQueue() as q:
        rule(U, wires=qp.wires.Wires(wires))
    return list(q.queue)


def run_ep(ep, U, n):
    from pennylane.ops.op_math.decompositions import unitary_decompositions as ud
    wires = list(range(n))
    if ep.startswith("one:"):
        _, rot, gp = ep.split(":")
        return qp.ops.one_qubit_decomposition(U, 0, rotations=rot, return_global_phase=(gp == "1"))
    if ep == "two":
        return qp.ops.two_qubit_decomposition(U, wires=wires)
    if ep == "multi":
        return qp.ops.multi_qubit_decomposition(U, wires=wires)
    if ep == "legacy":
        graph(False)
        return qp.QubitUnitary(U, wires=wires).decomposition()
    if ep == "compute":
        return qp.QubitUnitary.compute_decomposition(U, wires)
    if ep.startswith("rule:"):
        nm = ep.split(":")[1]
        rule = {"zyz": ud.zyz_decomp_rule, "zxz": ud.zxz_decomp_rule, "xzx": ud.xzx_decomp_rule, "xyx": ud.xyx_decomp_rule,
                "rot": ud.rot_decomp_rule, "two": ud.two_qubit_decomp_rule, "multi": ud.multi_qubit_decomp_rule}[nm]
        return run_rule(rule, U, wires)
    if ep.startswith("graph:") or ep.startswith("nograph:"):
        on, gs = ep.split(":")
        graph(on == "graph")
        try:
            tape = qp.tape.QuantumScript([qp.QubitUnitary(U, wires=wires)])
            [t], _ = qp.transforms.decompose(tape, gate_set=GSETS[gs])
            return list(t.operations)
        finally:
            graph(False)
    raise ValueError(ep)


def cnot_like(o):
    return len(o.wires) >= 2 and o.name != "GlobalPhase"


def synth(req):
    out = []
    for case in req["cases"]:
        U = cplx(case["U"])
        n = case["n"]
        res = []
        for ep in case["eps"]:
            t0 = time.time()
            try:
                ops = list(run_ep(ep, U.copy(), n))
            except Exception as e:
                res.append({"ep": ep, "raised": f"{type(e).__name__}: {str(e)[:200]}"})
                continue
            r = {"ep": ep}
            try:
                r["ops"] = [ser_op(o) for o in ops]
                if len(ops):
                    M = qp.matrix(qp.tape.QuantumScript(ops), wire_order=list(range(n)))
                else:
                    M = np.eye(2 ** n, dtype=complex)
                M = np.asarray(M)
                r["err"] = float(np.abs(M - U).max())
                k = int(np.argmax(np.abs(U)))
                ph = U.flat[k] / M.flat[k] if abs(M.flat[k]) > 1e-12 else 1.0
                ph = ph / abs(ph) if abs(ph) > 0 else 1.0
                r["phase"] = float(cmath.phase(ph))
                r["err_phase"] = float(np.abs(M * ph - U).max())
            except Exception as e:
                r["raised"] = f"oracle {type(e).__name__}: {str(e)[:200]}"
            r["t"] = round(time.time() - t0, 4)
            res.append(r)
        out.append(res)
    return {"results": out}


# ------------------------------------------------------------------------------------------ part A: templates
def templates(req):
    sys.path.insert(0, "/verif/harness")
    from c14_templates import build
    return build(req)


def main():
    req = json.load(sys.stdin)
    if req.get("mode") == "templates":
        out = templates(req)
    else:
        out = synth(req)
    print(json.dumps(out))


main()
