"""C14 driver: runs the real unitary-synthesis entry points of PennyLane on given unitaries.
stdin: {"mode": "synth", "cases": [{"n":1|2|3|4, "U": [[ [re,im], ...], ...], "eps": [entry point ids]}]}
   ->  {"results": [[{"ep":..,"ops":[..],"err":..,"err_phase":..,"phase":..} | {"ep":..,"raised":..}, ...], ...]}
       {"mode": "templates", ...} -> Coq obligations for the circuit templates with FORMAL angles (part A).
Operators are serialised with their exact float parameters (json floats round-trip)."""
import sys, json, math, time, warnings, cmath
warnings.filterwarnings("ignore")
import numpy as np
import pennylane as qp
from pennylane.queuing import AnnotatedQueue

ELEM = {"RZ", "RY", "RX", "CNOT", "GlobalPhase"}
GSETS = {"zyz": {"RZ", "RY", "CNOT", "GlobalPhase"}, "xyx": {"RX", "RY", "CNOT", "GlobalPhase"},
         "zx": {"RZ", "RX", "CNOT", "GlobalPhase"}, "rot": {"Rot", "RZ", "CNOT", "GlobalPhase"},
         "all": {"RZ", "RY", "RX", "CNOT", "GlobalPhase"}}


def cplx(M):
    return np.array([[complex(a, b) for a, b in row] for row in M], dtype=complex)


def ser_mat(M):
    M = np.asarray(M)
    return [[[float(np.real(x)), float(np.imag(x))] for x in row] for row in M]


def ser_op(o):
    nm = o.name
    d = {"name": nm, "wires": [int(w) for w in o.wires]}
    if nm == "QubitUnitary":
        d["matrix"] = ser_mat(o.matrix() if not hasattr(o, "data") else o.data[0])
    elif nm == "SelectPauliRot":
        hp = getattr(o, "hyperparameters", {}) or {}
        cw = hp.get("control_wires", None)
        tw = hp.get("target_wire", None)
        if cw is None:
            cw, tw = o.control_wires, o.target_wire
        axis = hp.get("rot_axis", None) or o.rot_axis
        d.update({"angles": [float(x) for x in np.asarray(o.data[0]).ravel()], "control": [int(w) for w in qp.wires.Wires(cw)],
                  "target": [int(w) for w in qp.wires.Wires(tw)], "axis": str(axis)})
    else:
        d["params"] = [float(np.asarray(x).ravel()[0]) for x in o.data]
        if any(np.asarray(x).size != 1 for x in o.data):
            d["unexpected_shape"] = True
    return d


def graph(on):
    (qp.decomposition.enable_graph if on else qp.decomposition.disable_graph)()


def run_rule(rule, U, wires):
    with AnnotatedQueue() as q:
        rule(U, wires=qp.wires.Wires(wires))
    return list(q.queue)


def run_ep(ep, U, n):
    from pennylane.ops.op_math.decompositions import unitary_decompositions as ud
    wires = list(range(n))
    if ep.startswith("one:"):
        _, rot, gp = ep.split(":")
        return qp.ops.one_qubit_decomposition(U, 0, rotations=rot, return_global_phase=(gp == "1"))
    if ep == "two":
        return qp.ops.two_qubit_decomposition(U, wires=wires)
    if ep == "multi":
        return qp.ops.multi_qubit_decomposition(U, wires=wires)
    if ep == "legacy":
        graph(False)
        return qp.QubitUnitary(U, wires=wires).decomposition()
    if ep == "compute":
        return qp.QubitUnitary.compute_decomposition(U, wires)
    if ep.startswith("rule:"):
        nm = ep.split(":")[1]
        rule = {"zyz": ud.zyz_decomp_rule, "zxz": ud.zxz_decomp_rule, "xzx": ud.xzx_decomp_rule, "xyx": ud.xyx_decomp_rule,
                "rot": ud.rot_decomp_rule, "two": ud.two_qubit_decomp_rule, "multi": ud.multi_qubit_decomp_rule}[nm]
        return run_rule(rule, U, wires)
    if ep.startswith("graph:") or ep.startswith("nograph:"):
        on, gs = ep.split(":")
        graph(on == "graph")
        try:
            tape = qp.tape.QuantumScript([qp.QubitUnitary(U, wires=wires)])
            [t], _ = qp.transforms.decompose(tape, gate_set=GSETS[gs])
            return list(t.operations)
        finally:
            graph(False)
    raise ValueError(ep)


def cnot_like(o):
    return len(o.wires) >= 2 and o.name != "GlobalPhase"


def synth(req):
    out = []
    for case in req["cases"]:
        U = cplx(case["U"])
        n = case["n"]
        res = []
        for ep in case["eps"]:
            t0 = time.time()
            try:
                ops = list(run_ep(ep, U.copy(), n))
            except Exception as e:
                res.append({"ep": ep, "raised": f"{type(e).__name__}: {str(e)[:200]}"})
                continue
            r = {"ep": ep}
            try:
                r["ops"] = [ser_op(o) for o in ops]
                if len(ops):
                    M = qp.matrix(qp.tape.QuantumScript(ops), wire_order=list(range(n)))
                else:
                    M = np.eye(2 ** n, dtype=complex)
                M = np.asarray(M)
                r["err"] = float(np.abs(M - U).max())
                k = int(np.argmax(np.abs(U)))
                ph = U.flat[k] / M.flat[k] if abs(M.flat[k]) > 1e-12 else 1.0
                ph = ph / abs(ph) if abs(ph) > 0 else 1.0
                r["phase"] = float(cmath.phase(ph))
                r["err_phase"] = float(np.abs(M * ph - U).max())
            except Exception as e:
                r["raised"] = f"oracle {type(e).__name__}: {str(e)[:200]}"
            r["t"] = round(time.time() - t0, 4)
            res.append(r)
        out.append(res)
    return {"results": out}


# ------------------------------------------------------------------------------------------ part A: templates
def templates(req):
    """Circuit templates of the synthesis with FORMAL angles -> Coq obligations (cols_ok ... = true).
    The numerical angle extraction is replaced by formal oracles (harness-process patches of the *_rotation_angles
    functions and convert_to_su2); the operator emission is PennyLane's own code."""
    sys.path.insert(0, "/verif/harness")
    import qsym
    from qsym import Lin, Sym, Fr, set_cfg, NotExtractable
    from qx import install_patches, op_matrix_sym, g_mat, g_nats, g_gate, s_mul, s_adj, mat_to_sym, num_mat
    from gradlib import fvar, tape_gates
    from pennylane.ops.op_math.decompositions import unitary_decompositions as ud
    from pennylane.templates.subroutines import select_pauli_rot as spr
    from pennylane.templates.state_preparations.mottonen import compute_theta
    install_patches()
    rng = np.random.default_rng(req.get("seed", 0))
    obl, info = [], []
    N = 16

    def lv(j, q=1):
        return Lin.var(j).scale(Fr(q))

    def E(l):          # exp(i l)
        return (l * 1j).exp()

    def zyz(v0, v1, v2):       # RZ(v2) RY(v1) RZ(v0): the closed form assumed by zyz_rotation_angles
        c, s = (v1.scale(Fr(1, 2))).cos(), (v1.scale(Fr(1, 2))).sin()
        p, m = (v0 + v2).scale(Fr(1, 2)), (v0 - v2).scale(Fr(1, 2))
        return [[E(-p) * c, -(E(m) * s)], [E(-m) * s, E(p) * c]]

    def zxz(v0, v1, v2):       # RZ(v2) RX(v1) RZ(v0): closed form assumed by zxz_rotation_angles (lam = v0, phi = v2)
        c, s = (v1.scale(Fr(1, 2))).cos(), (v1.scale(Fr(1, 2))).sin()
        p, m = (v2 + v0).scale(Fr(1, 2)), (v2 - v0).scale(Fr(1, 2))
        mi = Sym.of(-1j)
        return [[E(-p) * c, mi * E(-m) * s], [mi * E(m) * s, E(p) * c]]

    def const(M):
        return [[Sym.of(complex(x)) for x in row] for row in np.asarray(M)]

    def scal(c, M):
        return [[c * x for x in row] for row in M]

    def emit(name, n, gates, ows, M, D, nv, how):
        spot = 0.0
        for _ in range(3):          # numeric spot check of the extracted objects against each other
            th = list(rng.uniform(-7, 7, size=max(nv, 1)))
            full = np.eye(1 << n, dtype=complex)
            for ws, S in gates:
                G = num_mat(S, th)
                k = len(ws)
                T = G.reshape((2,) * (2 * k))
                F = full.reshape((2,) * n + (1 << n,))
                F = np.tensordot(T, F, axes=(list(range(k, 2 * k)), ws))
                F = np.moveaxis(F, list(range(k)), ws)
                full = F.reshape(1 << n, 1 << n)
            spot = max(spot, float(np.abs(full - num_mat(M, th)).max())) if len(ows) == n and ows == list(range(n)) else spot
        circ = "[" + ";\n  ".join(g_gate(w, S) for w, S in gates) + "]"
        stmt = f"cols_ok {N // 2}%Z {n}%nat\n  {circ}\n  {g_nats(ows)}\n  {g_mat(M)}\n  (all_cols {n}%nat) = true"
        obl.append({"name": name, "stmt": stmt, "D": D, "nvars": nv, "how": how, "n_gates": len(gates), "numeric_residual": spot})

    def gates_of(ops, wo):
        return tape_gates(qp.tape.QuantumScript(ops), wo)

    # ---------------- one-qubit conventions through the real one_qubit_decomposition
    set_cfg(N, 4, 4)
    formal = lambda *_a, **_k: (fvar(0), fvar(1), fvar(2), fvar(3))
    saved = {k: getattr(ud, k) for k in ("zyz_rotation_angles", "xyx_rotation_angles", "xzx_rotation_angles", "zxz_rotation_angles")}
    saved_su2, saved_allclose = qp.math.convert_to_su2, qp.math.allclose
    try:
        for k in saved:
            setattr(ud, k, formal)
        qp.math.convert_to_su2 = lambda U, *a, **k: (U, fvar(3))

        def generic_allclose(x, *a, **k):
            if isinstance(x, np.ndarray) and x.dtype == object:
                return False          # a formal angle is generic: not identically equal to a constant
            return saved_allclose(x, *a, **k)
        qp.math.allclose = generic_allclose
        r2 = 1 / math.sqrt(2)
        C1m = np.array([[1, -1], [1, 1]]) * r2
        C2m = np.array([[1, -1j], [1, 1j]]) * r2
        v = [Lin.var(j) for j in range(4)]
        closed = {"ZYZ": zyz(v[0], v[1], v[2]), "rot": zyz(v[0], v[1], v[2]), "ZXZ": zxz(v[0], v[1], v[2]),
                  "XYX": s_mul(const(C1m), s_mul(zyz(v[0], v[1], v[2]), const(C1m.conj().T))),
                  "XZX": s_mul(const(C2m), s_mul(zyz(v[0], v[1], v[2]), const(C2m.conj().T)))}
        for rot in ("ZYZ", "XYX", "XZX", "ZXZ", "rot"):
            for gp in (True, False):
                ops = qp.ops.one_qubit_decomposition(np.eye(2, dtype=complex), 0, rotations=rot, return_global_phase=gp)
                M = closed[rot]
                if gp:
                    M = scal(E(v[3]), M)
                emit(f"one_{rot}_{'phase' if gp else 'su2'}", 1, gates_of(ops, [0]), [0], M, 4, 4,
                     f"real one_qubit_decomposition(rotations={rot!r}, return_global_phase={gp}) with formal angle oracles: {[o.name for o in ops]}")
    finally:
        for k, f in saved.items():
            setattr(ud, k, f)
        qp.math.convert_to_su2, qp.math.allclose = saved_su2, saved_allclose
    # rot, theta = 0 branch: RZ(phi + omega) (the modulo 4 pi of the code is not formal: constructed)
    emit("one_rot_theta0", 1, gates_of([qp.RZ(fvar(0) + fvar(2), wires=0)], [0]), [0], zyz(v[0], Lin.of(0), v[2]), 4, 4, "constructed: RZ(phi+omega) vs closed form at theta=0")
    # basis-change relations quoted in xyx_/xzx_rotation_angles
    for nm, Cm, src, dst in (("xyx_rx", C1m, qp.RZ, qp.RX), ("xyx_ry", C1m, qp.RY, qp.RY), ("xzx_rx", C2m, qp.RZ, qp.RX), ("xzx_rz", C2m, qp.RY, qp.RZ)):
        gates = [([0], const(Cm.conj().T))] + gates_of([src(fvar(0), wires=0)], [0]) + [([0], const(Cm))]
        emit("basis_" + nm, 1, gates, [0], op_matrix_sym(__import__("gradlib").to_batched(dst(fvar(0), wires=0))), 4, 4, f"C {src.__name__}(t) C^dagger = {dst.__name__}(t)")
    # ---------------- two-qubit templates
    with AnnotatedQueue() as q:
        ud._central_circuit(fvar(0), fvar(1), fvar(2), qp.wires.Wires([0, 1]))
        qp.GlobalPhase(fvar(3))
    a_, b_ = (v[0] + v[1]).scale(Fr(1, 2)), (v[0] - v[1]).scale(Fr(1, 2))
    d_, e_ = v[2].scale(Fr(1, 2)) + v[3], v[2].scale(Fr(1, 2)) - v[3]
    O = Sym.of(0)
    C1 = [[E(-d_) * a_.cos(), O, O, -(E(-d_) * a_.sin())], [O, E(e_) * b_.sin(), E(e_) * b_.cos(), O],
          [O, E(e_) * b_.cos(), -(E(e_) * b_.sin()), O], [E(-d_) * a_.sin(), O, O, E(-d_) * a_.cos()]]
    emit("two_central_3cnot", 2, gates_of(q.queue, [0, 1]), [0, 1], C1, 4, 4, "real _central_circuit(a,b,d) + GlobalPhase(e) vs the matrix C1 of the _decompose_3_cnots docstring")
    # 2-CNOT kernel: emitted ops of _decompose_2_cnots (step 6) vs the matrix V built in _find_so4_decomposition
    from gradlib import to_batched
    CN10 = np.array([[1, 0, 0, 0], [0, 0, 0, 1], [0, 0, 1, 0], [0, 1, 0, 0]], dtype=complex)
    rz, rx = op_matrix_sym(to_batched(qp.RZ(fvar(0), wires=0))), op_matrix_sym(to_batched(qp.RX(fvar(1), wires=0)))
    kron = [[x * y for x in ra for y in rb] for ra in rz for rb in rx]
    V = s_mul(const(CN10), s_mul(kron, const(CN10)))
    ops2 = [qp.CNOT([1, 0]), qp.RZ(fvar(0), wires=0), qp.RX(fvar(1), wires=1), qp.CNOT([1, 0])]
    emit("two_kernel_2cnot", 2, gates_of(ops2, [0, 1]), [0, 1], V, 4, 4, "constructed: CNOT10 RZ(a)xRX(b) CNOT10 ops vs V = CNOT10 kron(RZ,RX) CNOT10")
    # 1-CNOT: the constant V of _decompose_1_cnot is E^dagger (SWAP CNOT01) E
    Vc = np.array([[0.5, 0.5j, 0.5j, -0.5], [-0.5j, 0.5, -0.5, -0.5j], [-0.5j, -0.5, 0.5, -0.5j], [0.5, -0.5j, -0.5j, -0.5]])
    CN01 = np.array([[1, 0, 0, 0], [0, 1, 0, 0], [0, 0, 0, 1], [0, 0, 1, 0]], dtype=complex)
    g1 = [([0, 1], const(ud.E)), ([0, 1], const(CN01)), ([0, 1], const(ud.SWAP)), ([0, 1], const(ud.E_dag))]
    emit("two_const_1cnot", 2, g1, [0, 1], const(Vc), 4, 4, "constants of _decompose_1_cnot: V = E^dagger SWAP CNOT01 E (magic-basis image of the 1-CNOT core)")
    # ---------------- multiplexer (SelectPauliRot as used by multi_qubit_decomp_rule: target wire 0, controls 1..k)
    for k in req.get("mux_sizes", [1, 2]):
        nv = 1 << k
        set_cfg(N, 2 << k, nv)
        alpha_f = np.empty((nv,), dtype=object)
        for j in range(nv):
            alpha_f[j] = Lin.var(j)
        theta_f = compute_theta(alpha_f, num_qubits=k)        # the code's linear transform, on formal angles
        for axis in ("Z", "Y", "X"):
            alpha_n = rng.uniform(0.5, 3.0, size=nv)
            theta_n = np.asarray(compute_theta(alpha_n, num_qubits=k))
            ctrl, tgt = list(range(1, k + 1)), 0
            with AnnotatedQueue() as q:
                spr.decompose_select_pauli_rot(alpha_n, control_wires=ctrl, target_wire=tgt, rot_axis=axis)
            tape = qp.tape.QuantumScript(q.queue)
            elem = {"RZ", "CNOT", "Hadamard", "S", "Adjoint(S)"}
            for _ in range(6):
                if all(o.name in elem for o in tape.operations):
                    break
                new = []
                for o in tape.operations:
                    new.extend([o] if o.name in elem else o.decomposition())
                tape = qp.tape.QuantumScript(new)
            ops, used = [], []
            for o in tape.operations:
                if o.name == "RZ":
                    val = float(o.data[0])
                    i = int(np.argmin(np.abs(theta_n - val)))
                    if abs(theta_n[i] - val) > 1e-12 or i in used:
                        raise NotExtractable("emitted RZ angle is not one of compute_theta's outputs")
                    used.append(i)
                    a = np.empty((), dtype=object)
                    a[()] = theta_f[i]
                    ops.append(qp.RZ(a, wires=o.wires))
                else:
                    ops.append(o)
            wo = ctrl + [tgt]
            d = 2 << k
            M = [[Sym.of(0)] * d for _ in range(d)]
            for j in range(nv):
                h = Lin.var(j).scale(Fr(1, 2))
                if axis == "Z":
                    blk = [[E(-h), Sym.of(0)], [Sym.of(0), E(h)]]
                elif axis == "Y":
                    blk = [[h.cos(), -h.sin()], [h.sin(), h.cos()]]
                else:
                    blk = [[h.cos(), Sym.of(-1j) * h.sin()], [Sym.of(-1j) * h.sin(), h.cos()]]
                for r in range(2):
                    for c in range(2):
                        M[2 * j + r][2 * j + c] = blk[r][c]
            emit(f"mux_{axis}_{k}", k + 1, gates_of(ops, wo), list(range(k + 1)), M, 2 << k, nv,
                 f"real decompose_select_pauli_rot (numeric run, {len(used)} RZ angles identified with the real compute_theta on formal angles) vs block-diagonal R{axis}(alpha_j)")
    return {"obligations": obl}


def main():
    req = json.load(sys.stdin)
    if req.get("mode") == "templates":
        out = templates(req)
    else:
        out = synth(req)
    print(json.dumps(out))


main()
