"""Runs the real ring classes / norm solver of pennylane on the JSON cases from stdin.
Output: one JSON line, a list with one observation per case:
  "ERR" (raised), "TIMEOUT", None (returned None), a flat list of ints, or (dioph) a dict."""
import json, random, signal, sys

import pennylane.ops.op_math.decompositions.norm_solver as ns
from pennylane.ops.op_math.decompositions.rings import DyadicMatrix, SO3Matrix, ZOmega, ZSqrtTwo


class CaseTimeout(BaseException):
    pass


def _alarm(*_):
    raise CaseTimeout()


signal.signal(signal.SIGALRM, _alarm)
LOOPY = {"SGcd", "OGcd", "SMod", "OMod", "PFactS", "PFactO", "dioph", "ONormalize", "PSqrtMod", "DMk", "TMk",
         "DAdd", "DMatmul", "TMatmul", "DLaw"}


def S(v):
    return ZSqrtTwo(v[0], v[1])


def O(v):
    return ZOmega(v[0], v[1], v[2], v[3])


def D(m):
    e = m["e"]
    return DyadicMatrix(O(e[0]), O(e[1]), O(e[2]), O(e[3]), m["k"])


def chk_int(x):
    if isinstance(x, bool) or not isinstance(x, int):
        raise TypeError(f"non-int coefficient {x!r}")
    return x


def fs(x):
    return [chk_int(x.a), chk_int(x.b)]


def fo(x):
    return [chk_int(x.a), chk_int(x.b), chk_int(x.c), chk_int(x.d)]


def fd(m):
    return fo(m.a) + fo(m.b) + fo(m.c) + fo(m.d) + [chk_int(m.k)]


def f3(u):
    out = [chk_int(u.k)]
    for s in u.flatten:
        out += fs(s)
    return out + fd(u.matrix)


def fb(b):
    return [1 if bool(b) else 0]


def opt(x, f):
    return None if x is None else f(x)


def dioph(c):
    """_solve_diophantine with the results of the (randomised) factoring helpers recorded"""
    rec = {"loop_ok": True, "ts": [], "exc_in_helper": False}
    orig = (ns._prime_factorize, ns._factorize_prime_zsqrt_two, ns._factorize_prime_zomega)

    def wrap(f, kind):
        def g(*a, **k):
            try:
                r = f(*a, **k)
            except Exception:
                rec["exc_in_helper"] = True
                raise
            if kind == "pf" and not r:
                rec["loop_ok"] = False
            if kind == "fs" and r is None:
                rec["loop_ok"] = False
            if kind == "fo":
                if r is None:
                    rec["loop_ok"] = False
                else:
                    rec["ts"].append(fo(r))
            return r
        return g
    ns._prime_factorize = wrap(orig[0], "pf")
    ns._factorize_prime_zsqrt_two = wrap(orig[1], "fs")
    ns._factorize_prime_zomega = wrap(orig[2], "fo")
    try:
        try:
            r = ns._solve_diophantine(S(c["xi"]))
            rec["res"] = opt(r, fo)
        except Exception:
            rec["res"] = "ERR"
    finally:
        ns._prime_factorize, ns._factorize_prime_zsqrt_two, ns._factorize_prime_zomega = orig
    return rec


def laws(c):
    """both sides of each ring law, computed by the real classes: list of [lhs, rhs] flat int lists"""
    op = c["op"]
    if op == "SLaw":
        x, y, z = S(c["x"]), S(c["y"]), S(c["z"])
        n = c["n"]
        prs = [((x * y) * z, x * (y * z)), ((x + y) + z, x + (y + z)), (x * y, y * x), (x + y, y + x),
               (x * (y + z), x * y + x * z), ((x + y) * z, x * z + y * z), (x * ZSqrtTwo(1, 0), x),
               (ZSqrtTwo(1, 0) * x, x), (x + ZSqrtTwo(0, 0), x), (x + (-x), ZSqrtTwo(0, 0)),
               (x - y, x + (-y)), ((x * y).adj2(), x.adj2() * y.adj2()), ((x + y).adj2(), x.adj2() + y.adj2()),
               (x.adj2().adj2(), x), (x.conj().conj(), x), ((x * y).conj(), x.conj() * y.conj()),
               (x * n, x * ZSqrtTwo(n, 0)), (x ** 3, x * x * x), (x ** 5, (x ** 2) * (x ** 3)),
               (x * x.adj2(), ZSqrtTwo(abs(x), 0)), (x.to_omega().to_sqrt_two(), x)]
        out = [[fs(a), fs(b)] for a, b in prs]
        out.append([[chk_int(abs(x * y))], [chk_int(abs(x) * abs(y))]])
        out.append([fo((x * y).to_omega()), fo(x.to_omega() * y.to_omega())])
        out.append([fo((x + y).to_omega()), fo(x.to_omega() + y.to_omega())])
        return out
    if op == "OLaw":
        x, y, z = O(c["x"]), O(c["y"]), O(c["z"])
        n = c["n"]
        one, zero = ZOmega(0, 0, 0, 1), ZOmega(0, 0, 0, 0)
        prs = [((x * y) * z, x * (y * z)), ((x + y) + z, x + (y + z)), (x * y, y * x), (x + y, y + x),
               (x * (y + z), x * y + x * z), ((x + y) * z, x * z + y * z), (x * one, x), (one * x, x),
               (x + zero, x), (x + (-x), zero), (x - y, x + (-y)),
               ((x * y).conj(), x.conj() * y.conj()), ((x + y).conj(), x.conj() + y.conj()),
               (x.conj().conj(), x), ((x * y).adj2(), x.adj2() * y.adj2()),
               ((x + y).adj2(), x.adj2() + y.adj2()), (x.adj2().adj2(), x), (x.conj().adj2(), x.adj2().conj()),
               (x * n, x * ZOmega(0, 0, 0, n)), (x ** 3, x * x * x), (x ** 5, (x ** 2) * (x ** 3)),
               (x.norm(), x.conj() * x), (x.norm().conj(), x.norm())]
        out = [[fo(a), fo(b)] for a, b in prs]
        out.append([[chk_int(abs(x * y))], [chk_int(abs(x) * abs(y))]])
        out.append([[chk_int(abs(x))], [chk_int(abs(x.norm().to_sqrt_two()))]])
        return out
    if op == "DLaw":   # compared by denoted value in the harness (representation is not canonical for k <= 0)
        a, b, cc = D(c["m"]), D(c["m2"]), D(c["m3"])
        prs = [((a @ b) @ cc, a @ (b @ cc)), ((a + b) + cc, a + (b + cc)), (a + b, b + a),
               (a @ (b + cc), a @ b + a @ cc), ((a + b) @ cc, a @ cc + b @ cc),
               ((a @ b).conj(), a.conj() @ b.conj()),
               (a + (-a), DyadicMatrix(ZOmega(), ZOmega(), ZOmega(), ZOmega())), (-(-a), a)]
        return [[fd(u), fd(v)] for u, v in prs]
    raise SystemExit("c16_impl: unknown op " + op)


def run(c):
    op = c["op"]
    if op in ("SLaw", "OLaw", "DLaw"): return laws(c)
    if op[0] == "S":
        x = S(c["x"])
        y = S(c["y"]) if "y" in c else None
        n = c.get("n")
        r = c.get("r", False)
        if op == "SAdd": return fs(x + y)
        if op == "SSub": return fs(x - y)
        if op == "SMul": return fs(x * y)
        if op == "SNeg": return fs(-x)
        if op == "SAddZ": return fs(n + x if r else x + n)
        if op == "SMulZ": return fs(n * x if r else x * n)
        if op == "SRsubZ": return fs(n - x)
        if op == "SPow": return fs(x ** n)
        if op == "SAbs": return [chk_int(abs(x))]
        if op == "SConj": return fs(x.conj())
        if op == "SAdj2": return fs(x.adj2())
        if op == "SEq": return fb(x == y)
        if op == "SDiv": return fs(x / y)
        if op == "SDivZ": return fs(x / n)
        if op == "SFloorZ": return fs(x // n)
        if op == "SModZ": return fs(x % n)
        if op == "SMod": return fs(x % y)
        if op == "SSqrt": return opt(x.sqrt(), fs)
        if op == "SToOmega": return fo(x.to_omega())
        if op == "SGcd": return fs(ns._gcd(x, y))
    if op[0] == "O":
        if op == "OFromPair":
            return fo(ZOmega.from_sqrt_pair(S(c["al"]), S(c["be"]), O(c["sh"])))
        x = O(c["x"])
        y = O(c["y"]) if "y" in c else None
        n = c.get("n")
        r = c.get("r", False)
        if op == "OAdd": return fo(x + y)
        if op == "OSub": return fo(x - y)
        if op == "OMul": return fo(x * y)
        if op == "ONeg": return fo(-x)
        if op == "OAddZ": return fo(n + x if r else x + n)
        if op == "OMulZ": return fo(n * x if r else x * n)
        if op == "ORsubZ": return fo(n - x)
        if op == "OPow": return fo(x ** n)
        if op == "OAbs": return [chk_int(abs(x))]
        if op == "OConj": return fo(x.conj())
        if op == "OAdj2": return fo(x.adj2())
        if op == "ONorm": return fo(x.norm())
        if op == "OEq": return fb(x == y)
        if op == "ODivZ": return fo(x / n)
        if op == "OFloorZ": return fo(x // n)
        if op == "OMod": return fo(x % y)
        if op == "OParity": return [chk_int(x.parity())]
        if op == "OToSqrt2": return fs(x.to_sqrt_two())
        if op == "ONormalize":
            z, ix = x.normalize()
            return fo(z) + [chk_int(ix)]
        if op == "OGcd": return fo(ns._gcd(x, y))
    if op[0] == "D":
        m = D(c["m"])
        if op == "DMk": return fd(m)
        if op == "DNeg": return fd(-m)
        if op == "DMulZ": return fd(m * c["n"])
        if op == "DMulO": return fd(m * O(c["w"]))
        if op == "DAdd": return fd(m + D(c["m2"]))
        if op == "DMatmul": return fd(m @ D(c["m2"]))
        if op == "DConj": return fd(m.conj())
        if op == "DAdj2": return fd(m.adj2())
        if op == "DMult2k": return fd(m.mult2k(c["n"]))
        if op == "DEq": return fb(m == D(c["m2"]))
    if op[0] == "T":
        u = SO3Matrix(D(c["m"]))
        if op == "TMk": return f3(u)
        if op == "TMatmul": return f3(u @ SO3Matrix(D(c["m2"])))
        if op == "TParity":
            return [int(v) for v in u.parity_mat.flatten()] + [int(v) for v in u.parity_vec]
    if op == "PPrime" or op == "PPrimeb": return fb(ns._primality_test(c["n"]))
    if op == "PLegendre": return [chk_int(ns._legendre_symbol(c["a"], c["p"]))]
    if op == "PSqrtMod": return opt(ns._sqrt_modulo_p(c["n"], c["p"]), lambda v: [chk_int(v)])
    if op == "PFactS":
        return opt(ns._factorize_prime_zsqrt_two(c["p"]), lambda l: [v for s in l for v in fs(s)])
    if op == "PFactO": return opt(ns._factorize_prime_zomega(S(c["x"]), c["p"]), fo)
    if op == "dioph": return dioph(c)
    if op in ("SLaw", "OLaw", "DLaw"): return laws(c)
    raise SystemExit("c16_impl: unknown op " + op)


payload = json.load(sys.stdin)
tmo = payload.get("timeout", 2.0)
n_tmo = 0
out = []
for i, c in enumerate(payload["cases"]):
    random.seed(7919 + i)
    if n_tmo >= 25 and c["op"] in LOOPY:
        # a tree that hangs everywhere: stop spending time, report the remaining loop-prone cases as hanging too
        out.append("TIMEOUT")
        continue
    signal.setitimer(signal.ITIMER_REAL, tmo if n_tmo < 6 else 0.3)
    try:
        r = run(c)
    except CaseTimeout:
        r = "TIMEOUT"
        n_tmo += 1
    except Exception:
        r = "ERR"
    finally:
        signal.setitimer(signal.ITIMER_REAL, 0)
    out.append(r)
print(json.dumps(out))
