"""C42 driver: builds each generated structured quantum function twice -- (1) directly as a tape with program
capture disabled, (2) with capture enabled through jax.make_jaxpr + qp.tape.plxpr_to_tape -- and reports the
canonical op lists, measurements and default.qubit results of both; optionally applies `decompose` through its
plxpr implementation (DecomposeInterpreter) and on the tape.  JSON on stdin -> one JSON line on stdout.
Program capture is a global switch: it is enabled only inside `captured()` and always restored."""
import json, sys, warnings
warnings.filterwarnings("ignore")
import jax
jax.config.update("jax_enable_x64", True)
import numpy as np
import pennylane as qp
from pennylane.templates.core import CollectedSubroutine

GATES = {0: ("RX", 1, 1), 1: ("RY", 1, 1), 2: ("RZ", 1, 1), 3: ("PhaseShift", 1, 1), 4: ("PauliX", 1, 0),
         5: ("PauliY", 1, 0), 6: ("PauliZ", 1, 0), 7: ("Hadamard", 1, 0), 8: ("S", 1, 0), 9: ("T", 1, 0),
         10: ("CNOT", 2, 0), 11: ("CZ", 2, 0), 12: ("SWAP", 2, 0), 13: ("IsingXX", 2, 1), 14: ("Rot", 1, 3),
         15: ("CRY", 2, 1)}
NAME2CODE = {v[0]: k for k, v in GATES.items()}
GATE_SET = ("RX", "RY", "RZ", "CNOT", "GlobalPhase", "PhaseShift", "Hadamard")


def ev(e, env):
    k = e[0]
    if k == "c":
        return e[1]
    if k == "v":
        return env[e[1]] if e[1] < len(env) else 0
    if k == "+":
        return ev(e[1], env) + ev(e[2], env)
    if k == "-":
        return ev(e[1], env) - ev(e[2], env)
    if k == "*":
        return ev(e[1], env) * ev(e[2], env)
    if k == "%":
        return ev(e[1], env) % e[2]
    raise ValueError(k)


def lnot(p):
    return (not p) if isinstance(p, (bool, np.bool_)) else jax.numpy.logical_not(p)


def evp(p, env):
    k = p[0]
    if k == "pc":
        return bool(p[1])
    if k == "<":
        return ev(p[1], env) < ev(p[2], env)
    if k == "==":
        return ev(p[1], env) == ev(p[2], env)
    if k == "not":
        return lnot(evp(p[1], env))
    if k == "and":
        return evp(p[1], env) & evp(p[2], env)
    if k == "or":
        return evp(p[1], env) | evp(p[2], env)
    raise ValueError(k)


def param(p, env, xs):
    m, j, e = p
    v = ev(e, env) * 0.125
    return v if m == 0 else m * xs[j] + v


def run(block, env, xs):
    """execute a block (queues operators); returns the environment after the block"""
    for s in block:
        k = s[0]
        if k == "op":
            name, nw, npar = GATES[s[1]]
            wires = [ev(w, env) for w in s[2]]
            getattr(qp, name)(*[param(p, env, xs) for p in s[3]], wires=wires)
        elif k == "for":
            _, lo, hi, step, init, upd, body = s

            def loop_body(i, a, body=body, upd=upd, env=env):
                run(body, [i, a] + env, xs)
                return ev(upd, [i, a] + env)
            a_fin = qp.for_loop(ev(lo, env), ev(hi, env), ev(step, env))(loop_body)(ev(init, env))
            env = [a_fin] + env
        elif k == "while":
            _, pred, init, upd, body = s

            def wbody(c, body=body, upd=upd, env=env):
                run(body, [c] + env, xs)
                return ev(upd, [c] + env)
            k_fin = qp.while_loop(lambda c, pred=pred, env=env: evp(pred, [c] + env))(wbody)(ev(init, env))
            env = [k_fin] + env
        elif k == "cond":
            _, brs, els = s

            def mk(b, env=env):
                def fn():
                    run(b, env, xs)
                return fn
            preds = [evp(p, env) for p, _ in brs]
            qp.cond(preds[0], mk(brs[0][1]), mk(els) if els is not None else None,
                    elifs=[(p, mk(b[1])) for p, b in zip(preds[1:], brs[1:])])()
        elif k in ("adj", "ctrl", "call"):
            nargs, px, body = s[-3], s[-2], s[-1]

            def sub(*vals, body=body, env=env, nargs=nargs, px=px):
                xs2 = xs
                if px:
                    xs2, vals = vals[:len(xs)], vals[len(xs):]
                run(body, list(vals) + env[nargs:], xs2)
            args = (tuple(xs) if px else ()) + tuple(env[:nargs])
            if k == "adj":
                qp.adjoint(sub)(*args)
            elif k == "ctrl":
                qp.ctrl(sub, control=s[1], control_values=s[2])(*args)
            elif s[1] == 0:
                sub(*args)
            else:
                sub.__name__ = f"sub{s[2]}"
                sub.__qualname__ = sub.__name__
                qp.capture.subroutine(sub)(*args)
        else:
            raise ValueError(k)
    return env


def make_fn(case):
    nx = len(case["xs"])

    def f(*args):
        xs = args[:nx]
        run(case["prog"], list(args[nx:]), xs)
        out = []
        for m in case["meas"]:
            if m[0] == "expval":
                out.append(qp.expval({"X": qp.X, "Y": qp.Y, "Z": qp.Z}[m[1]](m[2])))
            else:
                out.append(qp.probs(wires=m[1]))
        return tuple(out)
    return f


class Inexact(Exception):
    pass


def num8(p):
    v = float(np.asarray(p).reshape(()))
    z = round(v * 8)
    if z / 8 != v:
        raise Inexact(v)
    return z


def canon(op):
    if isinstance(op, CollectedSubroutine):
        nm = op.name
        return ["S", int(nm[3:]) if nm.startswith("sub") and nm[3:].isdigit() else -1,
                [canon(o) for o in op.decomposition()]]
    base = getattr(op, "base", None)
    if base is not None and type(op).__name__.startswith("Adjoint"):
        return ["A", canon(base)]
    cw = list(getattr(op, "control_wires", []) or [])
    if base is not None and len(cw) > 0:
        cv = [bool(v) for v in op.control_values]
        inner = canon(base)
        if inner[0] == "C":
            return ["C", [int(w) for w in cw] + inner[1], cv + inner[2], inner[3]]
        return ["C", [int(w) for w in cw], cv, inner]
    if base is not None:
        return ["U", type(op).__name__]
    code = NAME2CODE.get(op.name, None)
    if code is None:
        return ["U", op.name]
    return ["G", code, [int(w) for w in op.wires], [num8(p) for p in op.parameters]]


def canon_meas(m):
    kind = type(m).__name__
    if m.obs is not None:
        return [kind, m.obs.name, [int(w) for w in m.obs.wires]]
    return [kind, "", [int(w) for w in m.wires]]


def flat_res(res, nmeas):
    out = []
    for r in (res if nmeas != 1 else [res]):
        out.extend(float(v) for v in np.asarray(r, dtype=float).reshape(-1))
    return out


class captured:
    def __enter__(self):
        qp.capture.enable()

    def __exit__(self, *a):
        qp.capture.disable()
        return False


DEV = qp.device("default.qubit")


def describe(tape):
    try:
        return {"st": 0, "ops": [canon(o) for o in tape.operations], "meas": [canon_meas(m) for m in tape.measurements]}
    except Inexact as ex:
        return {"st": 3, "ops": [], "meas": [], "err": f"inexact parameter {ex}"}


def one(case):
    f = make_fn(case)
    args = [x / 8 for x in case["xs"]] + [int(n) for n in case["ns"]]
    out = {}
    import time
    T = [time.time()]
    t_d = t_c = None
    assert not qp.capture.enabled()
    try:
        t_d = qp.tape.make_qscript(f)(*args)
        out["d"] = describe(t_d)
    except Exception as ex:  # noqa
        out["d"] = {"st": 1, "ops": [], "meas": [], "err": repr(ex)[:200]}
    T.append(time.time())
    jx = None
    try:
        with captured():
            jx = jax.make_jaxpr(f)(*args)
            t_c = qp.tape.plxpr_to_tape(jx.jaxpr, jx.consts, *args)
        out["c"] = describe(t_c)
        out["neqns"] = len(jx.jaxpr.eqns)
    except Exception as ex:  # noqa
        out["c"] = {"st": 1, "ops": [], "meas": [], "err": repr(ex)[:300]}
    assert not qp.capture.enabled()
    T.append(time.time())
    if t_d is not None and t_c is not None and out["d"]["st"] == 0 and out["c"]["st"] == 0:
        try:
            # jax-array parameters of the captured tape are converted to numpy for execution (same operators)
            (t_cn,), _ = qp.transforms.convert_to_numpy_parameters(t_c)
            r_d, r_c = qp.execute([t_d, t_cn], DEV)
            a, b = flat_res(r_d, len(t_d.measurements)), flat_res(r_c, len(t_c.measurements))
            out["res_d"], out["res_c"] = a, b
            out["maxdiff"] = max([abs(x - y) for x, y in zip(a, b)], default=0.0) if len(a) == len(b) else 1e9
        except Exception as ex:  # noqa
            out["exec_err"] = repr(ex)[:300]
    T.append(time.time())
    out["t"] = [round(b - a, 3) for a, b in zip(T, T[1:])]
    if case.get("tr") and t_d is not None and jx is not None and "res_d" in out:
        tr = {}
        try:
            (tt,), _ = qp.transforms.decompose(qp.tape.QuantumScript(list(t_d.operations), list(t_d.measurements)),
                                               gate_set=set(GATE_SET))
            tr["tape_ok"] = True
        except Exception as ex:  # noqa
            tr["tape_ok"] = False
            tr["tape_err"] = repr(ex)[:200]
        try:
            from pennylane.transforms.decompose import decompose_plxpr_to_plxpr
            with captured():
                j2 = decompose_plxpr_to_plxpr(jx.jaxpr, jx.consts, (), (("gate_set", GATE_SET),), *args)
                tp = qp.tape.plxpr_to_tape(j2.jaxpr, j2.consts, *args)
            tr["plxpr_ok"] = True
        except Exception as ex:  # noqa
            tr["plxpr_ok"] = False
            tr["plxpr_err"] = repr(ex)[:300]
        assert not qp.capture.enabled()
        if tr["tape_ok"] and tr["plxpr_ok"]:
            try:
                (tp,), _ = qp.transforms.convert_to_numpy_parameters(tp)
                r1, r2 = qp.execute([tt, tp], DEV)
                a, b = flat_res(r1, len(tt.measurements)), flat_res(r2, len(tp.measurements))
                tr["maxdiff"] = max([abs(x - y) for x, y in zip(a, b)], default=0.0) if len(a) == len(b) else 1e9
                tr["maxdiff_orig"] = max([abs(x - y) for x, y in zip(a, out["res_d"])], default=0.0) \
                    if len(a) == len(out["res_d"]) else 1e9
                names = lambda t: [[o.name, [int(w) for w in o.wires],
                                    [round(float(np.asarray(p).reshape(())), 9) for p in o.parameters]]
                                   for o in t.operations]
                n1, n2 = names(tt), names(tp)
                tr["same_ops"] = n1 == n2
                tr["nops"] = [len(n1), len(n2)]
                tr["bad_names"] = sorted({o.name for o in tp.operations if o.name not in GATE_SET})
                if not tr["same_ops"]:
                    tr["ops_tape"], tr["ops_plxpr"] = n1[:40], n2[:40]
            except Exception as ex:  # noqa
                tr["exec_err"] = repr(ex)[:300]
        out["tr"] = tr
        out["t"].append(round(time.time() - T[-1], 3))
    return out


def main():
    payload = json.load(sys.stdin)
    res = []
    for c in payload["cases"]:
        try:
            res.append(one(c))
        finally:
            if qp.capture.enabled():
                qp.capture.disable()
    print(json.dumps(res))


main()
