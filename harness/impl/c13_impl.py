"""C13: every rule with measurements: enumerate the outcome branches symbolically and emit Coq obligations."""
import sys, json, random, itertools, time
sys.path.insert(0, "/verif/harness")
from qrules import *
import numpy as np

req = json.load(sys.stdin)
rng = random.Random(req["seed"])
install_patches()
PAULI = {"I": [[1, 0], [0, 1]], "X": [[0, 1], [1, 0]], "Y": [[0, -1j], [1j, 0]], "Z": [[1, 0], [0, -1]]}


def s_kron(A, B):
    return [[a * b for a in ra for b in rb] for ra in A for rb in B]


def s_const(M):
    return [[Sym.of(x) for x in row] for row in M]


def projector(word, b):
    W = s_const([[1]])
    for ch in word:
        W = s_kron(W, s_const(PAULI[ch]))
    d = len(W)
    sg = -1 if b else 1
    return [[(Sym.of(1 if i == j else 0) + W[i][j] * sg) * Fr(1, 2) for j in range(d)] for i in range(d)]


def s_apply(n, ws, M, v):
    k = len(ws)
    out = []
    for i in range(1 << n):
        bits = [(i >> (n - 1 - t)) & 1 for t in range(n)]
        r = 0
        for w in ws:
            r = (r << 1) | bits[w]
        acc = Sym.of(0)
        for x in range(1 << k):
            m = M[r][x]
            if not m.t:
                continue
            cb = list(bits)
            for t, w in enumerate(ws):
                cb[w] = (x >> (k - 1 - t)) & 1
            j = 0
            for bb in cb:
                j = (j << 1) | bb
            if v[j].t:
                acc = acc + m * v[j]
        out.append(acc)
    return out


def is_meas(o):
    return type(o).__name__ in ("PauliMeasure", "MidMeasureMP", "MidMeasure") or o.name in ("PauliMeasure", "MidMeasure")


def branches(ex):
    rr = ex.rr
    aw = all_wires_of(rr)
    n = len(aw)
    meas = [o for o in rr.ops if is_meas(o)]
    uid = {o.hyperparameters["meas_uid"]: i for i, o in enumerate(meas)}
    res = []
    for outcome in itertools.product([0, 1], repeat=len(meas)):
        gates = []
        for o in rr.ops:
            if is_meas(o):
                b = outcome[uid[o.hyperparameters["meas_uid"]]]
                if o.hyperparameters.get("postselect") is not None:
                    raise NotExtractable("postselecting rule")
                word = o.hyperparameters.get("pauli_word", "Z" * len(o.wires))
                gates.append(([aw.index(w) for w in o.wires], projector(word, b)))
                if o.hyperparameters.get("reset") and b == 1:
                    gates.append(([aw.index(o.wires[0])], s_const(PAULI["X"])))
                continue
            if type(o).__name__ == "Conditional":
                ms = o.meas_val.measurements
                bits = [outcome[uid[m.hyperparameters["meas_uid"]]] for m in ms]
                if o.meas_val.processing_fn(*bits):
                    base = o.base
                    S = op_matrix_sym(base)
                    ok, w = spot_check(base, S, rng)
                    if not ok:
                        raise NotExtractable("spot-check of conditional base failed")
                    gates.append(([aw.index(w) for w in o.wires], S))
                continue
            S = op_matrix_sym(o)
            ok, w = spot_check(o, S, rng)
            if not ok:
                raise NotExtractable(f"spot-check of {o.name} failed")
            gates.append(([aw.index(w) for w in o.wires], S))
        res.append((outcome, gates))
    return res


t0 = time.time()
items, oblig = [], []
for label, nv, f in catalog(req["tier"]) + catalog(req["tier"], labels="str")[::3]:
    op, mats, res = extract_op(label, nv, f, rng, cfgs=((8, 8),))
    if not mats:
        continue
    for ex in res:
        if ex.status != "mcm":
            continue
        it = {"label": label, "rule": ex.rule, "status": "ok", "branches": 0, "detail": ""}
        items.append(it)
        try:
            set_cfg(8, 8, nv)
            rr = ex.rr
            aw = all_wires_of(rr)
            n, kop = len(aw), len(rr.op_wires)
            aux = list(range(kop, n))
            U = mats[(8, 8)]
            dom = documented_domain(op)
            cols = [c for c in range(1 << n) if all(((c >> (n - 1 - a)) & 1) == 0 for a in aux if aw[a] in rr.extra_zero)
                    and (dom is None or dom([(c >> (n - 1 - i)) & 1 for i in range(kop)]))]
            brs = branches(ex)
            phis, cells = [], []
            for outcome, gates in brs:
                c0 = cols[0]
                v = [Sym.of(1 if i == c0 else 0) for i in range(1 << n)]
                for ws, M in gates:
                    v = s_apply(n, ws, M, v)
                cop = c0 >> len(aux)
                r = next(r for r in range(len(U)) if U[r][cop].t)
                inv = U[r][cop].inv()
                phi = [v[(r << len(aux)) | a] * inv for a in range(1 << len(aux))]
                phis.append(phi)
                cells.append((outcome, gates, phi))
            # auxiliary-wire clause of the property: the auxiliary wires must end in ONE state, the same on every
            # outcome branch (only the scalar c_b = amplitude * phase may depend on b).  The reference ray is the
            # auxiliary state of the first branch of non-zero weight; every branch is then stated against
            # U (x) (c_b * a_ref), so a branch-dependent auxiliary state makes the Coq obligation of that branch fail.
            ref = next((phi for phi in phis if any(x.t for x in phi)), None)
            kref = next((k for k, x in enumerate(ref) if x.t), None) if ref is not None else None
            it["aux_states"] = []
            for outcome, gates, phi in cells:
                if ref is None:
                    exp_phi, same = phi, True
                else:
                    cb = phi[kref] * ref[kref].inv()
                    exp_phi = [cb * x for x in ref]
                    same = all(not (a - b).t for a, b in zip(phi, exp_phi))
                nrm = sum(abs(x.num([])) ** 2 for x in phi) ** 0.5
                it["aux_states"].append({"outcome": list(outcome), "same_as_reference_branch": same,
                                         "aux_state": [str(np.round(complex(x.num([])) / nrm, 6)) for x in phi] if nrm > 1e-12 else None})
                V = [[exp_phi[i] if j == 0 else Sym.of(0) for j in range(1 << len(aux))] for i in range(1 << len(aux))]
                bc = "[" + ";\n  ".join(g_gate(w, S) for w, S in gates) + "]"
                exp = "[" + g_gate(list(range(kop)), U) + ";\n  " + g_gate(aux, V) + "]"
                name = f"br_{len(items)}_{''.join(map(str, outcome))}"
                oblig.append({"name": name, "stmt": f"circ_cols_eq 4%Z {n}%nat\n  {bc}\n  {exp}\n  {g_nats(cols)} = true",
                              "label": label, "rule": ex.rule, "outcome": list(outcome), "aux_same": same})
            pl = "[" + "; ".join("[" + "; ".join(x.gallina() for x in phi) + "]" for phi in phis) + "]"
            oblig.append({"name": f"prob_{len(items)}", "stmt": f"probs_total_one 4%Z {pl} = true", "label": label, "rule": ex.rule, "outcome": None})
            it["branches"] = len(brs)
            it["measurements"] = len(brs).bit_length() - 1
            it["weights"] = [float(sum(abs(x.num([])) ** 2 for x in phi)) for phi in phis]
        except NotExtractable as e:
            it["status"], it["detail"] = "notex", str(e)[:300]
        except Exception as e:
            it["status"], it["detail"] = "error", f"{type(e).__name__}: {str(e)[:300]}"
json.dump(oblig, open(req["outdir"] + "/obligations.json", "w"))
print(json.dumps({"items": items, "wall": time.time() - t0}))
