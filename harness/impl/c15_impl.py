"""C15 driver: runs rs_decomposition / sk_decomposition / clifford_t_decomposition (both methods) and the
`gridsynth` alias transform of the PennyLane tree on PYTHONPATH for the JSON cases on stdin; prints one JSON
line of observations.

case = {"fn": "rs", "gate": "RZ"|"PhaseShift", "theta": float, "eps": float, "kw": {...}}
     | {"fn": "sk", "gate": "RZ"|"RX"|"RY"|"PhaseShift"|"Rot", "params": [floats], "eps": float, "kw": {...}}
     | {"fn": "ct", "ops": [[name, [params], [wires]], ...], "eps": float, "method": "gridsynth"|"sk", "kw": {...}}
     | {"fn": "gridsynth_alias"}
Observation (rs/sk): {"word": str, "phase": float, "d_phase": float, "d_free": float, hooks...} or {"err": repr}
Words: one character per returned operator (H S T X Y Z s=Adjoint(S) t=Adjoint(T) I P=GlobalPhase ?=other).
Hooks are used ONLY to classify an exceeded bound as the documented escape (search budget exhausted) and to
read the exact DyadicMatrix handed to _ma_normal_form; pass/fail never depends on them.
"""
import json, math, sys, time, warnings
import numpy as np
import pennylane as qp
from pennylane.ops.op_math.decompositions import grid_problems as gp
from pennylane.ops.op_math.decompositions import ross_selinger as rsm
from pennylane.ops.op_math.decompositions import solovay_kitaev as skm
from pennylane.transforms.decompositions import clifford_t_transform as ctm

warnings.simplefilter("ignore")
CH = {"Hadamard": "H", "S": "S", "T": "T", "PauliX": "X", "PauliY": "Y", "PauliZ": "Z",
      "Adjoint(S)": "s", "Adjoint(T)": "t", "Identity": "I", "GlobalPhase": "P"}
HOOK = {"trials": 0, "abort": None, "dyd": None, "gcd": 0}

def _guard(it):
    try:
        yield from it
    except (ValueError, ZeroDivisionError) as ex:   # the search loop swallows these and gives up
        HOOK["abort"] = type(ex).__name__
        raise


_orig_solve = gp.GridIterator.solve_two_dim_problem
def _solve(self, *a, **k):
    HOOK["trials"] += 1
    return _guard(_orig_solve(self, *a, **k))
gp.GridIterator.solve_two_dim_problem = _solve


def _watch(cls, name):
    orig = getattr(cls, name)
    f = orig.__func__ if hasattr(orig, "__func__") else orig
    def w(*a, **k):
        try:
            return f(*a, **k)
        except (ValueError, ZeroDivisionError) as ex:
            HOOK["abort"] = type(ex).__name__
            raise
    setattr(cls, name, classmethod(w) if isinstance(cls.__dict__[name], classmethod) else w)
_watch(gp.Ellipse, "from_region")
_watch(gp.Ellipse, "normalize")
_watch(gp.EllipseState, "skew_grid_op")

_orig_ma = rsm._ma_normal_form
def _ma(op, *a, **k):
    m = op.matrix
    HOOK["dyd"] = [[int(getattr(e, f)) for e in (m.a, m.b, m.c, m.d) for f in "abcd"], int(m.k)]
    return _orig_ma(op, *a, **k)
rsm._ma_normal_form = _ma

_orig_gcd = skm._group_commutator_decompose
def _gcd(*a, **k):
    HOOK["gcd"] += 1
    return _orig_gcd(*a, **k)
skm._group_commutator_decompose = _gcd

REC = []            # decompositions requested by the transform
_rs, _sk = qp.ops.rs_decomposition, qp.ops.sk_decomposition
def _rec(kind, f):
    def g(op, epsilon, *a, **k):
        reset()
        ops = f(op, epsilon, *a, **k)
        REC.append({"kind": kind, "gate": op.name, "theta": float(op.data[0]), "eps": float(epsilon),
                    **describe(ops, qp.matrix(op)), **hooks()})
        return ops
    return g
ctm.rs_decomposition = _rec("rs", ctm.rs_decomposition)
ctm.sk_decomposition = _rec("sk", ctm.sk_decomposition)


def reset():
    HOOK.update({"trials": 0, "abort": None, "dyd": None, "gcd": 0})


def hooks():
    return {"trials": HOOK["trials"], "abort": HOOK["abort"], "dyd": HOOK["dyd"], "gcd": HOOK["gcd"]}


_MAT = {}
def mat1(op):
    """the 2x2 (or scalar) matrix PennyLane itself assigns to the returned operator"""
    if op.name == "GlobalPhase":
        return complex(np.asarray(op.matrix()).reshape(-1)[0]) * np.eye(2)
    if op.name not in _MAT:
        _MAT[op.name] = np.asarray(qp.matrix(op), dtype=complex)
    return _MAT[op.name]


def describe(ops, target):
    word = "".join(CH.get(o.name, "?") for o in ops)
    others = sorted({o.name for o in ops if o.name not in CH})
    v = np.eye(2, dtype=complex)
    for o in ops:
        if len(o.wires) <= 1:
            v = mat1(o) @ v
    phases = [float(o.data[0]) for o in ops if o.name == "GlobalPhase"]
    target = np.asarray(target, dtype=complex)
    d_phase = float(np.linalg.norm(target - v, 2))
    tr = np.trace(v.conj().T @ target)
    ph = tr / abs(tr) if abs(tr) > 1e-300 else 1.0
    d_free = float(np.linalg.norm(target - ph * v, 2))     # operator norm minimised over the global phase
    return {"word": word, "others": others, "phases": phases, "d_phase": d_phase, "d_free": d_free,
            "last_is_phase": bool(ops) and ops[-1].name == "GlobalPhase",
            "wires": sorted({str(w) for o in ops for w in o.wires})}


GATE = {"RZ": qp.RZ, "RX": qp.RX, "RY": qp.RY, "PhaseShift": qp.PhaseShift, "Rot": qp.Rot}


def mk_op(name, params, wires):
    if name.startswith("Adjoint("):
        return qp.adjoint(mk_op(name[8:-1], params, wires))
    cls = getattr(qp, name)
    return cls(*params, wires=wires)


def run(c):
    fn = c["fn"]
    if fn == "gridsynth_alias":
        tape = qp.tape.QuantumScript([qp.RZ(0.3, 0)], [qp.state()])
        try:
            qp.gridsynth(tape, epsilon=1e-3)
            return {"tape_impl": True}
        except NotImplementedError:
            return {"tape_impl": False}
    reset()
    t0 = time.time()
    if fn == "rs":
        op = GATE[c["gate"]](c["theta"], wires=c.get("wire", 0))
        ops = qp.ops.rs_decomposition(op, c["eps"], **c.get("kw", {}))
        out = {**describe(ops, qp.matrix(op)), **hooks()}
    elif fn == "sk":
        op = GATE[c["gate"]](*c["params"], wires=c.get("wire", 0))
        ops = qp.ops.sk_decomposition(op, c["eps"], **c.get("kw", {}))
        out = {**describe(ops, qp.matrix(op)), **hooks()}
    elif fn == "ct":
        ops = [mk_op(n, p, w) for n, p, w in c["ops"]]
        wires = sorted({w for _, _, ws in c["ops"] for w in ws})
        tape = qp.tape.QuantumScript(ops, [qp.state()])
        if not c.get("keep_cache"):          # by default every case starts from an empty module-level cache
            ctm._CLIFFORD_T_CACHE = None
            ctm._map_wires.cache_clear()
        del REC[:]
        (new,), _ = qp.clifford_t_decomposition(tape, epsilon=c["eps"], method=c["method"], **c.get("kw", {}))
        u = qp.matrix(tape, wire_order=wires)
        v = qp.matrix(new, wire_order=wires) if len(new.operations) else np.eye(2 ** len(wires))
        names = sorted({o.name for o in new.operations})
        out = {"names": names, "n_out": len(new.operations), "d_circ": float(np.linalg.norm(u - v, 2)),
               "rec": list(REC), "n_rz_in_out": sum(o.name == "RZ" for o in new.operations)}
        if len(wires) == 1:
            out["full"] = describe(new.operations, u)
    else:
        raise ValueError(fn)
    out["t"] = round(time.time() - t0, 3)
    return out


def main():
    payload = json.loads(sys.stdin.read())
    res = []
    for c in payload["cases"]:
        try:
            res.append(run(c))
        except Exception as ex:  # an exception is an observation, not a driver failure
            res.append({"err": f"{type(ex).__name__}: {ex}"[:300]})
    print(json.dumps(res))


main()
