"""Runs pennylane Shots on the JSON cases from stdin; prints one JSON line of observations."""
import json, sys
from pennylane.measurements import Shots


def dec_item(i):
    if isinstance(i, dict):
        k = i["bad"]
        return {"float": 2.5, "str": "ab", "triple": (1, 2, 3), "single": (4,), "none": None, "fpair": (2.0, 3)}[k]
    if isinstance(i, list):
        return tuple(i)
    return i


def dec_spec(s):
    if s is None:
        return None
    if isinstance(s, dict):
        return {"float": 0.5, "str": "abc"}[s["bad"]]
    if isinstance(s, list):
        return tuple(dec_item(i) for i in s)
    return s


def obs(x):
    return {"total": x.total_shots, "vec": [[sc.shots, sc.copies] for sc in x.shot_vector],
            "iter": list(x), "bins": [list(b) for b in x.bins()],
            "part": bool(x.has_partitioned_shots), "ncopies": x.num_copies}


out = []
for c in json.load(sys.stdin)["cases"]:
    try:
        if c["op"] == "mk":
            r = obs(Shots(dec_spec(c["a"])))
        elif c["op"] == "add":
            r = obs(Shots(dec_spec(c["a"])) + Shots(dec_spec(c["b"])))
        else:
            k = c["p"] / c["q"] if c["q"] != 1 else c["p"]
            r = obs(Shots(dec_spec(c["a"])) * k)
    except (ValueError, IndexError, TypeError) as e:
        r = "ERR"
    out.append(r)
print(json.dumps(out))
