"""C37 driver, Part A.  stdin: {"seed":..,"n_circ":..,"n_proof":..,"corpus":[spec...]}
Runs the real param_shift_hessian on formal-parameter tapes and emits `hess_rule_ok` obligations, plus the certified
first/second-derivative polynomials (serialised) for Part B (impl/c37_cfg_impl.py)."""
import sys, json, random
sys.path.insert(0, "/verif/harness")
from gradgen import *
import gradgen

req = json.load(sys.stdin)
rng = random.Random(req["seed"])
gradgen.set_rng(rng)


def hessian_obligations(spec, ci, variants):
    tape, tp = formal_tape(spec)
    qsym.CFG.pi_tol = 2e-10      # param_shift_hessian rounds its shifts to 10 decimals
    wo = list(range(spec["nw"]))
    n = len(wo)
    P = len(tp)
    g0 = tape_gates(tape, wo)
    st0 = sym_state(g0, n)
    obl, stats = [], {}
    # certified reference polynomials
    for mi, m in enumerate(tape.measurements):
        for c2, (lab, obs) in enumerate(meas_components(m, wo)):
            E = sym_expect(st0, obs, n)
            obl.append((f"c{ci}_E_m{mi}_{c2}", f"expval_is {qsym.hz()} {n}%nat\n {g_tape(g0, obs)}\n {E.gallina()} = true"))
            for j in range(P):
                dE = sym_pderiv(E, j)
                obl.append((f"c{ci}_dE_m{mi}_{c2}_p{j}", f"deriv_is {qsym.hz()} {DCFG} {j}%nat\n {E.gallina()}\n {dE.gallina()} = true"))
                for k in range(j, P):
                    obl.append((f"c{ci}_ddE_m{mi}_{c2}_p{j}_{k}", f"deriv_is {qsym.hz()} {DCFG} {k}%nat\n {dE.gallina()}\n {sym_pderiv(dE, k).gallina()} = true"))
    for vname, kw in variants:
        try:
            gt, fn = qp.gradients.param_shift_hessian(tape, **kw)
        except Exception as e:
            stats[vname] = "rejected:" + type(e).__name__
            continue
        try:
            C, slots = linear_coefficients(fn, gt, rng)
            rows = []
            for mi, m in enumerate(tape.measurements):
                comps = meas_components(m, wo)
                for j in range(P):
                    for k in range(P):
                        for c2, (lab, obs) in enumerate(comps):
                            rows.append((mi, j, k, c2, obs))
            if len(rows) != len(C):
                raise NotExtractable(f"unexpected output structure {len(rows)} vs {len(C)}")
            ub = {(k, b): u for k, b, u in expand_batches(gt)}
            gk = {kb: tape_gates(u, wo) for kb, u in ub.items()}
            cache = {}
            for r, (mi, j, k, c2, obs) in enumerate(rows):
                cs, ts = [], []
                for s, (tk, b, m2, i2) in enumerate(slots):
                    c = C[r][s]
                    if abs(c) < 1e-12:
                        continue
                    key = (tk, m2)
                    if key not in cache:
                        cache[key] = meas_components(gt[tk].measurements[m2], wo)
                    cs.append(Sym.of(c))
                    ts.append((gk[(tk, b)], cache[key][i2][1]))
                stmt = (f"hess_rule_ok {qsym.hz()} {DCFG} {n}%nat {j}%nat {k}%nat\n [{'; '.join(c.gallina() for c in cs)}]\n"
                        f" [{'; '.join(g_tape(g, o) for g, o in ts)}]\n {g_tape(g0, obs)} = true")
                obl.append((f"c{ci}_{vname}_m{mi}_p{j}_{k}_{c2}", stmt))
            stats[vname] = f"ok:{len(gt)}tapes"
        except NotExtractable as e:
            stats[vname] = "notex:" + str(e)[:80]
    return obl, tp, stats


def refs2(spec, tp):
    """first and second derivative polynomials per output component (var excluded from specs for C37)"""
    cfg(len(tp))
    tape, _ = formal_tape(spec)
    wo = list(range(spec["nw"]))
    n = len(wo)
    st0 = sym_state(tape_gates(tape, wo), n)
    P = len(tp)
    out = []
    for m in tape.measurements:
        for lab, obs in meas_components(m, wo):
            E = sym_expect(st0, obs, n)
            dE = [sym_pderiv(E, j) for j in range(P)]
            out.append({"E": ser(E), "dE": [ser(x) for x in dE], "ddE": [[ser(sym_pderiv(dE[j], k)) for k in range(P)] for j in range(P)]})
    return out


def main():
    out = {"obligations": [], "specs": [], "stats": {"variants": {}, "circuits": 0, "notex": 0}}
    specs = list(req.get("corpus", []))
    while len(specs) < req["n_circ"]:
        s = gen_spec(light=True)
        s["meas"] = [m for m in s["meas"] if m["k"] != "var"] or [{"k": "expval", "word": ["Z"], "wires": [0]}]
        specs.append(s)
    VAR = [("hess", {}), ("hessdiag", {"diagonal_shifts": None, "off_diagonal_shifts": None, "argnum": None})]
    for ci, spec in enumerate(specs):
        try:
            if ci < req.get("n_proof", len(specs)):
                obl, tp, st = hessian_obligations(spec, ci, VAR[:1])
                out["obligations"] += [(n, s2, ci) for n, s2 in obl]
                for k, v in st.items():
                    key = k + ":" + v.split(":")[0]
                    out["stats"]["variants"][key] = out["stats"]["variants"].get(key, 0) + 1
            else:
                _, tp = formal_tape(spec)
            refs = refs2(spec, tp)
        except NotExtractable as e:
            out["stats"]["notex"] += 1
            continue
        out["stats"]["circuits"] += 1
        out["specs"].append({"spec": spec, "tp": tp, "refs": refs, "D": DCFG})
    print(json.dumps(out))


main()
