"""Runs the real pennylane.spin lattice generator and Hamiltonian builders on the JSON cases from stdin;
prints one JSON line of observations (exact rational coefficients, canonical sorted lists)."""
import json, sys, warnings
from fractions import Fraction

warnings.filterwarnings("ignore")
import numpy as np
import networkx as nx
import pennylane as qp
from pennylane.spin import Lattice, generate_lattice

CODE = {"X": 1, "Y": 2, "Z": 3}
LET = {1: "X", 2: "Y", 3: "Z"}


def fr(x):
    return float(Fraction(x[0], x[1]))


def coup(c):
    if "vec" in c:
        return [fr(x) for x in c["vec"]]
    return [[fr(x) for x in row] for row in c["mat"]]


def sentence(ps):
    """canonical sorted term list [[word, [re_num, re_den], [im_num, im_den]]] of a PauliSentence"""
    out = []
    for pw, c in ps.items():
        c = complex(c)
        if c == 0:
            continue
        w = sorted([int(k), CODE[v]] for k, v in pw.items())
        re, im = Fraction(c.real), Fraction(c.imag)
        out.append([w, [re.numerator, re.denominator], [im.numerator, im.denominator]])
    out.sort(key=lambda t: t[0])
    return out


def nx_edges(shape, n_cells, bc):
    """grid adjacency from networkx (independent oracle for chain / square / rectangle, nearest neighbours)"""
    if shape == "chain":
        g = nx.grid_graph(dim=[n_cells[0]], periodic=bool(bc[0]))
        return sorted({(min(u, v), max(u, v)) for u, v in g.edges()})
    n1, n2 = n_cells
    g = nx.grid_graph(dim=[n2, n1], periodic=[bool(bc[1]), bool(bc[0])])
    idx = lambda rc: rc[0] * n2 + rc[1]
    return sorted({(min(idx(u), idx(v)), max(idx(u), idx(v))) for u, v in g.edges()})


def textbook(kind, ham, edges, n):
    """sum over the networkx edges, as a dict word -> Fraction"""
    acc = {}

    def add(w, c):
        w = tuple(sorted(w))
        acc[w] = acc.get(w, Fraction(0)) + c

    def at(c, i, j, k=0):
        x = c["vec"][0] if "vec" in c else c["mat"][i][j]
        return Fraction(x[0], x[1])
    if kind == "ising":
        for i, j in edges:
            add([(i, 3), (j, 3)] if i != j else [], -at(ham["J"], i, j))
        for v in range(n):
            add([(v, 1)], -Fraction(*ham["h"]))
    else:
        for i, j in edges:
            for k, l in enumerate((1, 2, 3)):
                c = ham["J"][k]
                add([(i, l), (j, l)] if i != j else [], at(c, i, j))
    return sorted([[list(map(list, w)), [c.numerator, c.denominator], [0, 1]] for w, c in acc.items() if c != 0],
                  key=lambda t: t[0])


def one(c):
    shape, n_cells, bc, order, ham = c["shape"], c["n_cells"], c["bc"], c["order"], c["ham"]
    kind = ham["kind"]
    res = {}
    if kind == "kitaev":
        cs = [fr(x) for x in ham["c"]]
        H = qp.spin.kitaev(n_cells, coupling=cs, boundary_condition=bc)
        # the lattice kitaev builds internally
        lat = Lattice(n_cells=n_cells[0:2], vectors=[[1, 0], [0.5, 0.75 ** 0.5]],
                      positions=[[0, 0], [0.5, 0.5 / 3 ** 0.5]], boundary_condition=bc,
                      custom_edges=[[(0, 1), ("XX", cs[0])], [(1, 2), ("YY", cs[1])],
                                    [(1, n_cells[1] * 2), ("ZZ", cs[2])]])
        tagmap = {"XX": 0, "YY": 1, "ZZ": 2}
        edges = [[int(a), int(b), tagmap[t[0]]] for a, b, t in lat.edges]
    elif kind == "custom":
        ref = generate_lattice(shape, n_cells, bc, 1)
        ces = [[(e[0], e[1]), (e[2], fr(e[3]))] for e in ham["edges"]]
        nodes = [[v, (LET[l], fr(x))] for v, l, x in ham["nodes"]] or None
        lat = Lattice(n_cells=n_cells, vectors=ref.vectors, positions=ref.positions, boundary_condition=bc,
                      custom_edges=ces, custom_nodes=nodes)
        tagmap = {}
        for k, e in enumerate(ces):
            tagmap.setdefault(e[1], k)
        edges = [[int(a), int(b), tagmap[t]] for a, b, t in lat.edges]
        H = qp.spin.spin_hamiltonian(lat)
    else:
        lat = generate_lattice(shape, n_cells, bc, order)
        edges = [[int(a), int(b), int(t)] for a, b, t in lat.edges]
        if len(set(map(tuple, edges))) != len(edges):
            res["dup_edges"] = True
        res["vectors"] = np.asarray(lat.vectors, dtype=float).tolist()
        res["positions"] = np.asarray(lat.positions, dtype=float).tolist()
        H = None
        if kind == "ising":
            H = qp.spin.transverse_ising(shape, n_cells, coupling=coup(ham["J"]), h=fr(ham["h"]),
                                         boundary_condition=bc, neighbour_order=order)
        elif kind == "heis":
            if "vec" in ham["J"][0]:
                J = [[fr(ham["J"][k]["vec"][t]) for k in range(3)] for t in range(len(ham["J"][0]["vec"]))]
                if len(J) == 1 and ham.get("flat"):
                    J = J[0]
            else:
                J = [coup(ham["J"][k]) for k in range(3)]
            H = qp.spin.heisenberg(shape, n_cells, coupling=J, boundary_condition=bc, neighbour_order=order)
        elif kind == "hubbard":
            U = ham["U"]
            U = fr(U["scalar"]) if "scalar" in U else [fr(x) for x in U["vec"]]
            H = qp.spin.fermi_hubbard(shape, n_cells, hopping=coup(ham["t"]), coulomb=U,
                                      boundary_condition=bc, neighbour_order=order)
    res["nsites"] = int(lat.n_sites)
    res["edges"] = sorted(edges)
    res["terms"] = []
    if H is not None:
        ps = H.pauli_rep
        ps.simplify()
        res["terms"] = sentence(ps)
        nq = len(H.wires)
        if nq <= c.get("herm_max", 0):
            M = qp.matrix(H, wire_order=sorted(H.wires.tolist()))
            res["herm"] = bool(np.array_equal(M, M.conj().T))
    if kind in ("ising", "heis") and order == 1 and shape in ("chain", "square", "rectangle") and c.get("nx"):
        bcl = [bc] * len(n_cells) if isinstance(bc, bool) else bc
        ne = nx_edges(shape, n_cells, bcl)
        res["nx_edges"] = [list(e) for e in ne]
        res["nx_terms"] = textbook(kind, ham, ne, res["nsites"])
    return res


out = []
for c in json.load(sys.stdin)["cases"]:
    try:
        r = one(c)
    except (ValueError, TypeError, IndexError) as e:
        r = "ERR"
    out.append(r)
print(json.dumps(out))
