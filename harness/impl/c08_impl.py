"""C08: enumerate operator pairs on overlapping wires, ask the real qp.is_commuting; True answers become
symbolic commutation obligations (independent formal parameters) and are checked numerically; Pauli words: exactness."""
import sys, json, random, itertools, time, math
sys.path.insert(0, "/verif/harness")
from qrules import *
import numpy as np

req = json.load(sys.stdin)
rng = random.Random(req["seed"])
tier = req["tier"]
install_patches()
t0 = time.time()

NAMES = ["PauliX", "PauliY", "PauliZ", "Hadamard", "S", "T", "SX", "RX", "RY", "RZ", "PhaseShift", "U1", "Rot", "U2", "U3",
         "CNOT", "CY", "CZ", "CH", "SWAP", "ISWAP", "SISWAP", "ECR", "CSWAP", "Toffoli", "CCZ", "CRX", "CRY", "CRZ", "CRot",
         "ControlledPhaseShift", "CPhaseShift00", "CPhaseShift01", "CPhaseShift10", "IsingXX", "IsingYY", "IsingZZ", "IsingXY",
         "PSWAP", "SingleExcitation", "MultiRZ2", "MultiRZ3", "Identity", "GlobalPhase",
         "C_SWAP", "C_ISWAP", "C_SISWAP", "C_RX", "C_RZ", "C_S", "C_Hadamard", "C_IsingZZ", "C_IsingXX", "CC_RY", "C_PhaseShift", "C_T", "C_SX"]


NAMES += ["Permute_120", "Permute_102", "Permute_210", "Permute_10"]
# pairs that go through hand-written special cases of is_commuting: every wire pattern, every run
PRIORITY = [("CRot", "CRot"), ("Rot", "CRot"), ("CRot", "Rot"), ("U3", "CRot"), ("CRot", "U3"), ("U2", "CRot"), ("Rot", "Rot"), ("U3", "Rot"),
            ("Permute_120", "Permute_102"), ("Permute_120", "Permute_210"), ("Permute_102", "Permute_120"), ("Permute_120", "Permute_120"),
            ("Permute_102", "SWAP"), ("SWAP", "Permute_120"), ("Permute_10", "SWAP"), ("SWAP", "Permute_10"), ("CSWAP", "Permute_120"),
            ("SWAP", "ISWAP"), ("ISWAP", "SISWAP"), ("SWAP", "CSWAP"), ("CSWAP", "CSWAP")]


def build(name, params, wires):
    if name.startswith("Permute_"):
        return qp.Permute([wires[int(ch)] for ch in name[8:]], wires=wires)
    if name.startswith("MultiRZ"):
        return qp.MultiRZ(params[0], wires=wires)
    if name == "GlobalPhase":
        return qp.GlobalPhase(params[0], wires=wires)
    if name.startswith("CC_"):
        b = getattr(qp, name[3:])
        nb = b.num_wires
        return qp.ctrl(b(*params[:b.num_params], wires=wires[2:2 + nb]), control=wires[:2])
    if name.startswith("C_"):
        b = getattr(qp, name[2:])
        nb = b.num_wires
        return qp.ctrl(b(*params[:b.num_params], wires=wires[1:1 + nb]), control=wires[:1])
    cls = getattr(qp, name)
    return cls(*params[:cls.num_params], wires=wires)


def arity(name):
    if name.startswith("MultiRZ"):
        return 1, int(name[-1])
    if name in ("GlobalPhase",):
        return 1, 1
    if name.startswith("Permute_"):
        return 0, len(name) - 8
    if name == "Identity":
        return 0, 1
    if name.startswith("CC_"):
        b = getattr(qp, name[3:]); return b.num_params, b.num_wires + 2
    if name.startswith("C_"):
        b = getattr(qp, name[2:]); return b.num_params, b.num_wires + 1
    cls = getattr(qp, name)
    return cls.num_params, cls.num_wires


def patterns(k1, k2):
    """wire tuples for op2 (op1 sits on 0..k1-1) with at least one shared wire and n <= 5"""
    out = []
    pool = list(range(k1 + k2 - 1))
    for tup in itertools.permutations(pool, k2):
        if set(tup) & set(range(k1)) and max(list(tup) + [k1 - 1]) + 1 == len(set(tup) | set(range(k1))):
            out.append(list(tup))
    return out


items, oblig = [], []
pairs = [(a, b) for a in NAMES for b in NAMES]
rng.shuffle(pairs)
npat = 1 if tier == "quick" else 4
maxpairs = 900 if tier == "quick" else 100000
count_true = 0
pairs = [(a, b, True) for a, b in PRIORITY] + [(a, b, False) for a, b in pairs[:maxpairs]]
for (a, b, prio) in pairs:
    (p1, k1), (p2, k2) = arity(a), arity(b)
    pats = patterns(k1, k2)
    if not prio:
        rng.shuffle(pats)
    for w2 in (pats if prio else pats[:npat]):
        n = len(set(w2) | set(range(k1)))
        if n > 5:
            continue
        it = {"a": a, "b": b, "w2": w2, "status": "ok"}
        try:
            ths = [[rng.uniform(0.3, 2.8) for _ in range(p1 + p2)] for _ in range(2)]
            ans = []
            for th in ths:
                o1 = build(a, th[:p1], list(range(k1)))
                o2 = build(b, th[p1:], w2)
                ans.append(bool(qp.is_commuting(o1, o2)))
            it["answer"] = ans
            # numeric soundness at those points
            for th, an in zip(ths, ans):
                if an:
                    o1 = build(a, th[:p1], list(range(k1))); o2 = build(b, th[p1:], w2)
                    wo = list(range(n))
                    A, B = np.asarray(qp.matrix(o1, wire_order=wo)), np.asarray(qp.matrix(o2, wire_order=wo))
                    if not np.allclose(A @ B, B @ A, atol=1e-9):
                        it["numeric_fail"] = {"op1": repr(o1), "op2": repr(o2), "max_commutator": float(np.abs(A @ B - B @ A).max())}
            if all(ans):
                count_true += 1
                set_cfg(8, 8, p1 + p2)
                o1 = build(a, [var_array(j) for j in range(p1)], list(range(k1)))
                o2 = build(b, [var_array(p1 + j) for j in range(p2)], w2)
                S1, S2 = op_matrix_sym(o1), op_matrix_sym(o2)
                for o, S in ((o1, S1), (o2, S2)):
                    ok, w = spot_check(o, S, rng)
                    if not ok:
                        raise NotExtractable(f"spot-check failed for {o.name}")
                g1, g2 = g_gate(list(o1.wires), S1), g_gate(list(o2.wires), S2)
                oblig.append({"name": f"ob_{len(oblig)}", "a": a, "b": b, "w2": w2,
                              "stmt": f"circ_cols_eq 4%Z {n}%nat [{g1}; {g2}] [{g2}; {g1}] (all_cols {n}%nat) = true"})
                it["lemma"] = oblig[-1]["name"]
        except NotExtractable as e:
            it["status"], it["detail"] = "notex", str(e)[:200]
        except Exception as e:
            it["status"], it["detail"] = "error", f"{type(e).__name__}: {str(e)[:200]}"
        items.append(it)

# Pauli words: exactness in both directions
pw_cases, pw_fail = 0, []
for _ in range(300 if tier == "quick" else 3000):
    n = rng.randint(1, 4)
    def word():
        ws = rng.sample(range(n + 1), rng.randint(1, min(3, n + 1)))
        fs = [rng.choice([qp.X, qp.Y, qp.Z, qp.I])(w) for w in ws]
        return qp.prod(*fs) if len(fs) > 1 else fs[0]
    w1, w2 = word(), word()
    wo = list(range(n + 1))
    A, B = np.asarray(qp.matrix(w1, wire_order=wo)), np.asarray(qp.matrix(w2, wire_order=wo))
    truth = bool(np.allclose(A @ B, B @ A))
    try:
        got = bool(qp.is_commuting(w1, w2))
    except Exception as e:
        continue
    pw_cases += 1
    if got != truth:
        pw_fail.append({"w1": repr(w1), "w2": repr(w2), "is_commuting": got, "matrices_commute": truth})
json.dump(oblig, open(req["outdir"] + "/obligations.json", "w"))
print(json.dumps({"items": items, "pauli_cases": pw_cases, "pauli_fail": pw_fail[:5], "wall": time.time() - t0, "true_pairs": count_true}))
