"""Runs the real CompilePipeline on the JSON cases from stdin; prints one JSON line of observations.

routes    : [{"p": [[tid, kind, post, fans], ...], "batch": [base, ...]}]  -> routing observations
histories : [[op, ...]]  edit histories of one pipeline, observed after every step
"""
import json
import sys
import warnings

import pennylane as qp
from pennylane.core.transforms.compile_pipeline import CompilePipeline
from pennylane.core.transforms.transform import BoundTransform, Transform
from pennylane.tape import QuantumScript

warnings.simplefilter("ignore")

# ------------------------------------------------------------------ routing: tapes/results as free terms
J0 = 100  # wire offset encoding the child index


def mk_base(b):
    return QuantumScript([qp.Identity(wires=[b])], [qp.expval(qp.Z(0))])


def enc(tape):
    ops = tape.operations
    t = ["B", int(ops[0].wires[0])]
    for o in ops[1:]:
        t = ["F", int(o.wires[0]), int(o.wires[1]) - J0, t]
    return t


def weight(tape):
    ops = tape.operations
    return int(ops[0].wires[0]) + sum(int(o.wires[1]) - J0 + 1 for o in ops[1:])


def mk_syn(spec):
    tid, kind, post, fans = spec

    def f(tape):
        k = fans[weight(tape) % len(fans)] if fans else 1
        if kind == 0:
            new = [QuantumScript(tape.operations + [qp.CNOT(wires=[tid, J0 + j])], tape.measurements)
                   for j in range(k)]
        else:
            new = [tape] * k
        et = enc(tape)

        def fn(results):
            results = list(results)
            if post == 0 or not results:
                return ["P", tid, et, results]
            return results[0]
        return new, fn
    f.__name__ = f"syn{tid}"
    return f


def run_exec(tape):
    return ["R", enc(tape)]


def by_hand(ts, tape):
    """apply the transforms one after another through the public single-tape API"""
    if not ts:
        return run_exec(tape)
    new, fn = ts[0](tape)
    return fn(tuple(by_hand(ts[1:], t) for t in new))


def do_route(c):
    ts = [Transform(mk_syn(s)) for s in c["p"]]
    if c.get("build") == "iadd":
        pipe = CompilePipeline()
        for t in ts:
            pipe += t
    elif c.get("build") == "list":
        pipe = CompilePipeline([BoundTransform(t) for t in ts])
    else:
        pipe = CompilePipeline(*ts)
    batch = tuple(mk_base(b) for b in c["batch"])
    out, post = pipe(batch)
    res = post(tuple(run_exec(t) for t in out))
    hand = [by_hand(ts, t) for t in batch]
    return {"out": [enc(t) for t in out], "post": list(res), "hand": hand}


# ------------------------------------------------------------------ container: registry of transforms
def _mkfn(name):
    def f(tape):
        return (tape,), lambda r: r[0]
    f.__name__ = name
    return f


FN = {k: _mkfn(f"f{k}") for k in (0, 1, 2, 3, 4, 5, 6, 7, 20, 21)}
TID = {id(f): k for k, f in FN.items()}
# registry index -> (tid, expand tid, final)   (must agree with REG in props/c23.py)
REGSPEC = [(0, None, False), (1, None, False), (2, None, False), (3, 20, False), (4, 21, False),
           (0, 20, False), (5, None, True), (6, None, True), (7, 20, True), (20, None, False)]
REG = [Transform(FN[t], expand_transform=(FN[e] if e is not None else None), final_transform=fin)
       for t, e, fin in REGSPEC]
OBJ = {id(t): i for i, t in enumerate(REG)}


def enc_bt(b):
    tr = b._transform  # identity of the underlying Transform object
    e = tr.expand_transform
    return [OBJ.get(id(tr), -1), TID[id(b.tape_transform)], None if e is None else TID[id(e)],
            bool(b.is_final_transform)]


def observe(p, raised, ret):
    marks = [[int(lab[1:]), p.get_marker_level(lab)] for lab in p.markers]
    return {"raised": raised, "items": [enc_bt(b) for b in p], "marks": marks,
            "ret": None if ret is None else enc_bt(ret), "len": len(p)}


def tr_of(o):
    t = REG[o["t"]]
    return BoundTransform(t) if o.get("bound") else t


def build(q):
    p = CompilePipeline(*[REG[r] for r in q["ts"]])
    for lab, lv in q["ms"]:
        p.add_marker(f"m{lab}", lv)
    return p


def do_history(ops):
    p = CompilePipeline()
    out = []
    for o in ops:
        raised, ret = False, None
        k = o["op"]
        try:
            if k == "append":
                p.append(tr_of(o))
            elif k == "iadd_t":
                p += tr_of(o)
            elif k == "iadd_p":
                p += build(o["q"])
            elif k == "add_t":
                p = p + tr_of(o)
            elif k == "add_p":
                p = p + build(o["q"])
            elif k == "radd_p":
                p = build(o["q"]) + p
            elif k == "radd":
                p = tr_of(o) + p
            elif k == "mul":
                p = (o["n"] * p) if o.get("left") else (p * o["n"])
            elif k == "insert":
                p.insert(o["i"], tr_of(o))
            elif k == "pop":
                ret = p.pop(o["i"])
            elif k == "remove":
                p.remove(BoundTransform(REG[o["t"]]) if o["by"] == "bound" else REG[o["t"]])
            elif k == "get":
                ret = p[o["i"]]
            elif k == "slice":
                p = p[slice(o["a"], o["b"], o["s"])]
            elif k == "add_marker":
                p.add_marker(f"m{o['l']}", o["v"])
            elif k == "remove_marker":
                p.remove_marker(f"m{o['l']}")
            else:
                raise SystemExit(f"unknown op {k}")
        except Exception:  # the type of the exception is not part of the property
            raised = True
        out.append(observe(p, raised, ret))
    return out


inp = json.load(sys.stdin)
print(json.dumps({"routes": [do_route(c) for c in inp.get("routes", [])],
                  "histories": [do_history(h) for h in inp.get("histories", [])]}))
