"""Runs the real pennylane.gradients.general_shift_rules on the JSON cases from stdin; prints one JSON
line of observations.

case kinds
  {"kind": "single", "freqs": [...], "shifts": null | [...], "order": n}
      -> generate_shift_rule(tuple(freqs), shifts, order)
  {"kind": "multi", "freqs": [[...], [...]], "shifts": null | [null | [...], ...], "orders": null | [...]}
      -> generate_multi_shift_rule
  {"kind": "process", "rule": [[num, den, num, den], ...]}      (exact rationals; dyadic in practice)
      -> process_shifts(array)
Observation: {"status": "ok", "rule": [[...], ...], "solve_calls": k, "warned": bool, "periods": [...]} or
{"status": "err", "type": ...}.  `periods` = the value of the real frequencies_to_period for every component
differentiated to order >= 2 (the period _iterate_shift_rule wraps the shifts with), else null.
`solve_calls` counts calls of the linear solver (the non-equidistant branch of _get_shift_rule); it is how
the branch decision of the real code is observed.  Floats travel through JSON by repr (exact round trip).
"""
import json
import sys
import warnings
from fractions import Fraction

import numpy as np
import pennylane  # noqa: F401
import pennylane.gradients.general_shift_rules as G

_calls = {"n": 0}
_orig_solve = G.linalg_solve


def _counting_solve(*a, **k):
    _calls["n"] += 1
    return _orig_solve(*a, **k)


G.linalg_solve = _counting_solve


def clear():
    for f in (G._get_shift_rule, G.generate_shift_rule, G.frequencies_to_period, G.eigvals_to_frequencies):
        try:
            f.cache_clear()
        except AttributeError:
            pass


def tup(x):
    return None if x is None else tuple(x)


def period_of(freqs, order):
    if order is None or order < 2:
        return None
    try:
        return float(G.frequencies_to_period(tuple(f for f in freqs if f > 0)))
    except Exception:  # noqa: BLE001
        return None


out = []
for c in json.load(sys.stdin)["cases"]:
    clear()
    _calls["n"] = 0
    singular = False
    periods = None
    try:
        with warnings.catch_warnings(record=True) as wl:
            warnings.simplefilter("always")
            if c["kind"] == "single":
                r = G.generate_shift_rule(tup(c["freqs"]), shifts=tup(c["shifts"]), order=c["order"])
                periods = [period_of(c["freqs"], c["order"])]
            elif c["kind"] == "multi":
                sh = None if c["shifts"] is None else [tup(s) for s in c["shifts"]]
                r = G.generate_multi_shift_rule([tup(f) for f in c["freqs"]], shifts=sh, orders=c["orders"])
                periods = [period_of(f, o) for f, o in zip(c["freqs"], c["orders"] or [1] * len(c["freqs"]))]
            else:
                arr = np.array([[float(Fraction(a, b)), float(Fraction(p, q))] for a, b, p, q in c["rule"]],
                               dtype=float).reshape(-1, 2)
                r = G.process_shifts(arr)
            singular = any("near zero determinant" in str(w.message) or "ll-conditioned" in str(w.message)
                           for w in wl)
        r = np.asarray(r, dtype=float)
        if not np.all(np.isfinite(r)):
            o = {"status": "err", "type": "nonfinite"}
        else:
            o = {"status": "ok", "rule": [[float(x) for x in row] for row in r.tolist()],
                 "solve_calls": _calls["n"], "warned": bool(singular), "periods": periods}
    except Exception as e:  # noqa: BLE001  (canonicalised to an error value)
        o = {"status": "err", "type": type(e).__name__, "solve_calls": _calls["n"]}
    out.append(o)
print(json.dumps(out))
