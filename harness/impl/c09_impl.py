"""C09: declared parameter_frequencies vs the exponent spectrum of the symbolically extracted matrix,
plus a numeric DFT of expectation values (the direct search)."""
import sys, json, random, time, math
from fractions import Fraction as Fr
sys.path.insert(0, "/verif/harness")
from qrules import *
import numpy as np

req = json.load(sys.stdin)
rng = random.Random(req["seed"])
nprng = np.random.default_rng(req["seed"])
tier = req["tier"]
install_patches()
items, oblig = [], []


def gate_instances():
    out = []
    seen = set()
    names = sorted(set(n for n in dir(qp) if isinstance(getattr(qp, n, None), type)) | set(k for k in registry() if "(" not in k))
    for name in names:
        cls = find_cls(name)
        if cls is None or name in seen:
            continue
        npar, nw = getattr(cls, "num_params", None), getattr(cls, "num_wires", None)
        if isinstance(npar, int) and isinstance(nw, int) and 1 <= npar <= 3 and 1 <= nw <= 4 and name not in SKIP_FIXED \
                and name not in ("QubitUnitary", "DiagonalQubitUnitary", "SpecialUnitary", "BlockEncode", "Snapshot", "QutritUnitary"):
            seen.add(name)
            out.append((name, npar, lambda p, cls=cls, nw=nw: cls(*p, wires=list(range(nw)))))
    for n in ((2, 3) if tier == "quick" else (1, 2, 3, 4)):
        out.append((f"MultiRZ[{n}]", 1, lambda p, n=n: qp.MultiRZ(p[0], wires=list(range(n)))))
    for w in (("X", "ZY") if tier == "quick" else ("X", "Y", "Z", "XX", "ZY", "XYZ")):
        out.append((f"PauliRot[{w}]", 1, lambda p, w=w: qp.PauliRot(p[0], w, wires=list(range(len(w))))))
    for (dim, n) in ((4, 2), (2, 2), (3, 2), (7, 3), (5, 3)):      # dim = 2^n first: its generator is +-identity (no frequency)
        out.append((f"PCPhase[{dim},{n}]", 1, lambda p, dim=dim, n=n: qp.PCPhase(p[0], dim=dim, wires=list(range(n)))))
    out.append(("GlobalPhase", 1, lambda p: qp.GlobalPhase(p[0], wires=[0])))
    for cw in ((5,), (5, 6)):
        for b in ("RX", "RY", "RZ", "PhaseShift"):
            out.append((f"C({b},{len(cw)})", 1, lambda p, b=b, cw=cw: qp.ctrl(getattr(qp, b)(p[0], wires=0), control=list(cw))))
    for b, nwb in (("IsingXY", 2), ("IsingXX", 2), ("SingleExcitation", 2)):      # same class and size as C(...,2) above, other base
        out.append((f"C({b},1)", 1, lambda p, b=b, nwb=nwb: qp.ctrl(getattr(qp, b)(p[0], wires=list(range(nwb))), control=[5])))
    # generators with a NON-equidistant spectrum (all pairwise eigenvalue differences are frequencies, not only those to the lowest one)
    out.append(("Evolution[2Z0+Z1/2]", 1, lambda p: qp.evolve(2.0 * qp.Z(0) + 0.5 * qp.Z(1), p[0])))
    out.append(("Evolution[X0X1+3Z2/2]", 1, lambda p: qp.evolve(1.0 * (qp.X(0) @ qp.X(1)) + 1.5 * qp.Z(2), p[0])))
    # legacy ControlledOp over bases whose generator has no zero eigenvalue: the control contributes the eigenvalue 0
    for b, nwb in (("SingleExcitationPlus", 2), ("SingleExcitationMinus", 2), ("DoubleExcitationPlus", 4), ("FermionicSWAP", 2), ("OrbitalRotation", 4)):
        if hasattr(qp, b):
            out.append((f"Ctrl[{b}]", 1, lambda p, b=b, nwb=nwb: qp.ctrl(getattr(qp, b)(p[0], wires=list(range(1, nwb + 1))), control=0)))
    return out


def dft_spectrum(f, j, th0, maxfreq=6):
    """frequencies (multiples of 1/2) present in theta_j -> expectation value"""
    L = 4 * math.pi
    n = 8 * maxfreq + 1
    xs = [L * k / n for k in range(n)]
    ys = []
    for x in xs:
        th = list(th0); th[j] = x
        ys.append(f(th))
    c = np.fft.fft(np.array(ys)) / n
    out = []
    for k in range(n):
        kk = k if k <= n // 2 else k - n
        if abs(c[k]) > 1e-9 and kk > 0:
            out.append(Fr(kk, 2))
    return out


t0 = time.time()
for tag, npar, f in gate_instances():
    set_cfg(8, 8, npar)
    it = {"name": tag, "status": "ok", "detail": "", "declared": None}
    items.append(it)
    try:
        nop = f([0.3 + 0.1 * k for k in range(npar)])
        try:
            declared = [tuple(Fr(x).limit_denominator(1000) for x in fr) for fr in qp.gradients.parameter_frequencies(nop)]
        except Exception as e:
            it["status"], it["detail"] = "no-declaration", f"{type(e).__name__}: {str(e)[:100]}"
            continue
        it["declared"] = [[str(x) for x in fr] for fr in declared]
        # numeric spectrum of a random expectation value
        k = len(nop.wires)
        psi = nprng.normal(size=2 ** k) + 1j * nprng.normal(size=2 ** k); psi /= np.linalg.norm(psi)
        H = nprng.normal(size=(2 ** k, 2 ** k)) + 1j * nprng.normal(size=(2 ** k, 2 ** k)); H = H + H.conj().T
        def ev(th):
            U = np.asarray(qp.matrix(f(th), wire_order=list(range(k)) if not tag.startswith("C(") else None))
            v = U @ psi[:U.shape[0]] if U.shape[0] == len(psi) else None
            return float(np.real(np.vdot(v, H @ v)))
        if not tag.startswith("C("):
            th0 = [rng.uniform(-3, 3) for _ in range(npar)]
            for j in range(npar):
                spec = dft_spectrum(ev, j, th0)
                extra = [str(x) for x in spec if x not in declared[j]]
                if extra:
                    it["numeric_fail"] = {"parameter": j, "frequencies_present_but_not_declared": extra, "declared": it["declared"][j], "thetas": th0}
        op = f([var_array(j) for j in range(npar)])
        S = op_matrix_sym(op)
        ok, w = spot_check(op, S, rng)
        if not ok:
            raise NotExtractable(f"spot-check failed ({w})")
        for j in range(npar):
            dl = "[" + "; ".join(f"({fr.numerator}, {fr.denominator})" for fr in declared[j]) + "]%Z"
            oblig.append({"name": f"ob_{len(oblig)}", "gate": tag, "param": j,
                          "stmt": f"freq_cover {CFG.D}%Z {j + 1}%nat {g_mat(S)} {dl} = true"})
    except NotExtractable as e:
        it["status"], it["detail"] = "notex", str(e)[:200]
    except Exception as e:
        it["status"], it["detail"] = "error", f"{type(e).__name__}: {str(e)[:200]}"
# history independence: the declaration of an operator must not depend on which operators were queried before it
first = {}
for (tag, npar, f), it in zip(gate_instances(), items):
    first[tag] = it.get("declared")
for tag, npar, f in reversed(gate_instances()):
    if first.get(tag) is None:
        continue
    try:
        again = [[str(Fr(x).limit_denominator(1000)) for x in fr] for fr in qp.gradients.parameter_frequencies(f([0.3 + 0.1 * k for k in range(npar)]))]
    except Exception as e:
        again = f"raised {type(e).__name__}"
    if again != first[tag]:
        items.append({"name": tag + " (re-queried in reverse order)", "status": "ok", "detail": "", "declared": first[tag],
                      "numeric_fail": {"history_dependent_declaration": {"first_pass": first[tag], "second_pass": again}}})
json.dump(oblig, open(req["outdir"] + "/obligations.json", "w"))
print(json.dumps({"items": items, "wall": time.time() - t0}))
