"""C60 implementation driver: runs the real ClassicalShadow post-processing on fully enumerated
bits/recipes tables, exports the matrices the implementation uses, and runs device shadow measurements.
JSON on stdin -> one JSON line on stdout.  Complex numbers are returned as [re, im] floats (exact repr)."""
import itertools
import json
import sys

import numpy as np
import pennylane as qml
from pennylane.shadows import ClassicalShadow
import importlib

cs_mod = importlib.import_module("pennylane.measurements.classical_shadow")

LETTER = {0: qml.X, 1: qml.Y, 2: qml.Z}
SIX = [(r, b) for r in range(3) for b in range(2)]       # model order of `six`


def cplx(a):
    a = np.asarray(a)
    return np.stack([a.real, a.imag], axis=-1).tolist()


def build_obs(h, style, default_wire):
    """h = [[coeff_float, [[wire, letter], ...]], ...]"""
    def word(t):
        if not t:
            return qml.Identity(default_wire)
        ops = [LETTER[l](w) for w, l in t]
        return ops[0] if len(ops) == 1 else qml.prod(*ops)
    if style == "bare" and len(h) == 1 and h[0][0] == 1.0:
        return word(h[0][1])
    if style == "hamiltonian":
        return qml.Hamiltonian([c for c, _ in h], [word(t) for _, t in h])
    terms = [qml.s_prod(c, word(t)) for c, t in h]
    return terms[0] if len(terms) == 1 else qml.sum(*terms)


def run_enum(c):
    n, wm = c["n"], c["wire_map"]
    rows = list(itertools.product(SIX, repeat=n))          # first qubit = outermost loop
    recipes = np.array([[x[0] for x in row] for row in rows], dtype=c.get("dtype", "int64"))
    bits = np.array([[x[1] for x in row] for row in rows], dtype=c.get("dtype", "int64"))
    sh = ClassicalShadow(bits, recipes, wire_map=wm)
    loc = sh.local_snapshots()
    glob = sh.global_snapshots()
    obs = [build_obs(h, st, wm[0]) for h, st in zip(c["hams"], c["styles"])]
    vals = []
    for t in range(len(rows)):
        one = ClassicalShadow(bits[t:t + 1], recipes[t:t + 1], wire_map=wm)
        if c.get("batched_H") and len(obs) > 1:
            v = np.atleast_1d(np.asarray(one.expval(obs, k=1), dtype=float)).tolist()
        else:
            v = [float(np.asarray(one.expval(o, k=1))) for o in obs]
        vals.append(v)
    # the same through the full table (uniform mean over the enumeration), one call
    full = [float(np.asarray(sh.expval(o, k=1))) for o in obs]
    return {"recipes": recipes.tolist(), "bits": bits.tolist(), "local": cplx(loc), "global": cplx(glob),
            "vals": vals, "full": full, "local_shape": list(loc.shape), "global_shape": list(glob.shape)}


class _NpProxy:
    """forwards to numpy, records the arguments of np.stack (used to export obs_list / diag_list)"""
    def __init__(self):
        self.stacks = []

    def __getattr__(self, name):
        if name == "stack":
            def stack(arrs, *a, **k):
                try:
                    self.stacks.append([np.array(x) for x in arrs])
                except Exception:  # noqa
                    pass
                return np.stack(arrs, *a, **k)
            return stack
        return getattr(np, name)


def run_export():
    sh = ClassicalShadow(np.zeros((1, 1), dtype=int), np.zeros((1, 1), dtype=int))
    out = {"observables": cplx(np.array(sh.observables))}
    proxy = _NpProxy()
    old = cs_mod.np
    try:
        cs_mod.np = proxy
        mp = qml.classical_shadow(wires=[0], seed=1)
        state = np.array([1.0, 0.0], dtype=complex)
        mp.process_state_with_shots(state, qml.wires.Wires([0]), 3, rng=5)
    finally:
        cs_mod.np = old
    mats = [s for s in proxy.stacks if len(s) == 3 and all(getattr(x, "shape", None) == (2, 2) for x in s)]
    out["stacks"] = [cplx(np.array(s)) for s in mats]
    return out


def apply_ops(ops):
    for name, wires, par in ops:
        if par is None:
            getattr(qml, name)(wires=wires)
        else:
            getattr(qml, name)(par, wires=wires)


def run_device(c):
    dev_wires, wires, shots = c["dev_wires"], c["wires"], c["shots"]
    dev = qml.device("default.qubit", wires=dev_wires, seed=c["dev_seed"])

    @qml.qnode(dev)
    def st():
        apply_ops(c["ops"])
        return qml.state()

    @qml.set_shots(shots=shots)
    @qml.qnode(dev)
    def sh():
        apply_ops(c["ops"])
        return qml.classical_shadow(wires=wires, seed=c["seed"])

    res = sh()
    arr = np.asarray(res)
    bits, recipes = res
    out = {"state": cplx(st()), "shape": list(arr.shape), "dtype": str(arr.dtype),
           "bits": np.asarray(bits).astype(int).tolist(), "recipes": np.asarray(recipes).astype(int).tolist()}
    # post-processing of the measured record with the same class (estimates from the device record)
    shadow = ClassicalShadow(np.asarray(bits), np.asarray(recipes), wire_map=wires)
    obs = [build_obs(h, stl, wires[0]) for h, stl in zip(c["hams"], c["styles"])]
    out["shadow_expval_from_record"] = [float(np.asarray(shadow.expval(o, k=1))) for o in obs]
    vals = []
    for o in obs:
        @qml.set_shots(shots=shots)
        @qml.qnode(dev)
        def ev():
            apply_ops(c["ops"])
            return qml.shadow_expval(o, k=1, seed=c["seed"] + 1)
        vals.append(float(np.asarray(ev())))
    out["shadow_expval"] = vals
    return out


def main():
    p = json.load(sys.stdin)
    out = {}
    if "enum" in p:
        out["enum"] = [run_enum(c) for c in p["enum"]]
    if p.get("export"):
        try:
            out["export"] = run_export()
        except Exception as ex:  # noqa
            out["export"] = {"error": repr(ex)}
    if "device" in p:
        out["device"] = [run_device(c) for c in p["device"]]
    print(json.dumps(out))


main()
