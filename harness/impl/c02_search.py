"""numeric witness search for a failed C02 obligation: evaluate the documented table entry (via a small Coq run is
not available here) -> compare implementation against an independent numeric reference built from generators where possible"""
import sys, json, random, math
sys.path.insert(0, "/verif/harness")
req = json.load(sys.stdin)
src = open("/verif/harness/impl/c02_impl.py").read().split("items, oblig = [], []")[0].replace("req = json.load(sys.stdin)", "req = {'seed': 0, 'tier': 'quick'}")
exec(src)
import scipy.linalg as sla
rng = random.Random(req["seed"] + 3)
key, kind = req["key"], req["kind"]
wit = None
npar = nparams(key)
for _ in range(50):
    th = [rng.choice([0.0, math.pi, 2 * math.pi, rng.uniform(-7, 7)]) for _ in range(max(npar, 1))]
    op = build(key, th)
    M = np.asarray(qp.matrix(op, wire_order=list(op.wires)))
    if kind == "unitary" and not np.allclose(M.conj().T @ M, np.eye(len(M)), atol=1e-9):
        wit = {"thetas": th, "detail": "not unitary"}; break
    if kind == "doc":
        # independent reference where a generator exists: exp(i theta G)
        try:
            if npar == 1:
                G = np.asarray(qp.matrix(qp.generator(op, format="observable"), wire_order=list(op.wires)))
                if not np.allclose(M, sla.expm(1j * th[0] * G), atol=1e-9):
                    wit = {"thetas": th, "detail": "matrix differs from exp(i theta * generator)"}; break
        except Exception:
            pass
        # decomposition as a second reference
        try:
            D = np.asarray(qp.matrix(qp.tape.QuantumScript(op.decomposition()), wire_order=list(op.wires)))
            if not np.allclose(M, D, atol=1e-9):
                wit = {"thetas": th, "detail": "matrix differs from the matrix of its decomposition"}; break
        except Exception:
            pass
print(json.dumps({"witness": wit}))
