"""C66 driver: executes schedules of local_decomps/add_decomps/_fix_decomp/list_decomps actions with
REAL threads forced through the given global interleaving.

One worker thread per thread id.  A worker blocks on its command queue; the controller (main thread)
hands exactly one command to exactly one worker and waits for the acknowledgement before it does
anything else, so the global order of registry operations is exactly the schedule.  `with
local_decomps():` blocks are real `with` statements (the worker recurses into a nested command loop
inside the block; AExit returns from it, AExitExn raises out of it).  After every step every worker
is asked (same mechanism, from inside whatever contexts it has open) to call list_decomps on every
operator of the case; rule objects are mapped to integer tags.

stdin : {"cases": [{"T": n, "ops": [...], "init": [[tags]...], "initfix": [tag|null...],
                    "sched": [[t, [kind, ...]], ...]}]}
stdout: one JSON line, list of per-case observations.
"""
import json
import queue
import sys
import threading

import pennylane as qp
from pennylane.decomposition import add_decomps, list_decomps, local_decomps
from pennylane.decomposition.decomposition_rule import _fix_decomp

TIMEOUT = 30.0
NPOOL = 12


def _mk(i):
    def f(*_, **__):
        return None
    f.__name__ = f"c66_rule_{i}"
    return qp.register_resources({}, f, name=f"c66_rule_{i}")


POOL = [_mk(i) for i in range(NPOOL)]
TAG = {id(r): i for i, r in enumerate(POOL)}
FOREIGN = {}          # id(rule) -> tag >= 1000 for rules that are not from the pool (built-in rules)
_KEEP = []


def tag(rule):
    k = id(rule)
    if k in TAG:
        return TAG[k]
    if k not in FOREIGN:
        FOREIGN[k] = 1000 + len(FOREIGN)
        _KEEP.append(rule)
    return FOREIGN[k]


def tags(coll):
    return [tag(r) for r in coll]


class Boom(Exception):
    pass


class Stop(BaseException):
    pass


class Worker(threading.Thread):
    def __init__(self, ops):
        super().__init__(daemon=True)
        self.ops = ops
        self.q = queue.Queue()
        self.r = queue.Queue()

    def run(self):
        try:
            self.loop(0)
        except Stop:
            self.r.put(("ok", True))
        except BaseException as e:  # noqa: BLE001  (reported to the controller as a crash)
            self.r.put(("crash", f"{type(e).__name__}: {e}"))

    def loop(self, depth):
        ops = self.ops
        while True:
            cmd = self.q.get()
            k = cmd[0]
            if k == "obs":
                self.r.put(("ok", [tags(list_decomps(op)) for op in ops]))
            elif k == "enter":
                try:
                    with local_decomps():
                        self.r.put(("ok", True))
                        self.loop(depth + 1)
                except Boom:
                    pass
                self.r.put(("ok", True))          # acknowledges the exit / exitexn command
            elif k == "exit":
                if depth == 0:                     # never generated (not expressible with `with`)
                    self.r.put(("ok", True))
                    continue
                return
            elif k == "exitexn":
                if depth == 0:
                    self.r.put(("ok", True))
                    continue
                raise Boom()
            elif k == "add":
                try:
                    add_decomps(ops[cmd[1]], *[POOL[i] for i in cmd[2]])
                    ok = True
                except ValueError:
                    ok = False
                self.r.put(("ok", ok))
            elif k == "fix":
                _fix_decomp(ops[cmd[1]], POOL[cmd[2]])
                self.r.put(("ok", True))
            elif k == "list":
                list_decomps(ops[cmd[1]])
                self.r.put(("ok", True))
            elif k == "listmut":
                c = list_decomps(ops[cmd[1]])
                try:
                    c.append(POOL[cmd[2]])
                    ok = True
                except ValueError:
                    ok = False
                self.r.put(("ok", ok))
            elif k == "stop":
                raise Stop()
            else:
                raise RuntimeError("unknown command " + str(k))


class Crash(Exception):
    pass


def call(w, cmd):
    w.q.put(cmd)
    try:
        st, val = w.r.get(timeout=TIMEOUT)
    except queue.Empty:
        raise Crash("worker did not answer (deadlock or died)") from None
    if st != "ok":
        raise Crash(val)
    return val


def resolve(name, idx):
    if name.startswith("@"):
        return getattr(qp, name[1:])               # a real operator class (has built-in rules)
    return f"c66_case{idx}_{name}"                 # fresh operator name: no interference between cases


def run_case(idx, c):
    ops = [resolve(n, idx) for n in c["ops"]]
    # initial global registry, set up from the main thread (outside any local context)
    for op, init in zip(ops, c["init"]):
        if init:
            add_decomps(op, *[POOL[i] for i in init])
    d0 = [tags(list_decomps(op)) for op in ops]    # observed BEFORE any global fixing
    for op, fx in zip(ops, c["initfix"]):
        if fx is not None:
            _fix_decomp(op, POOL[fx])
    workers = [Worker(ops) for _ in range(c["T"])]
    for w in workers:
        w.start()
    out = {"d0": d0}
    try:
        out["init_obs"] = [call(w, ("obs",)) for w in workers]
        rows = []
        for t, act in c["sched"]:
            ok = call(workers[t], tuple(act))
            rows.append([bool(ok), [call(w, ("obs",)) for w in workers]])
        out["rows"] = rows
    except Crash as e:
        out["crash"] = str(e)
    finally:
        for w in workers:
            w.q.put(("stop",))
        for w in workers:
            w.join(timeout=TIMEOUT)
    out["final"] = [tags(list_decomps(op)) for op in ops]   # main thread, no local context
    return out


def main():
    cases = json.load(sys.stdin)["cases"]
    res = []
    for i, c in enumerate(cases):
        try:
            res.append(run_case(i, c))
        except Exception as e:  # noqa: BLE001
            res.append({"crash": f"driver: {type(e).__name__}: {e}"})
    print(json.dumps(res))


main()
