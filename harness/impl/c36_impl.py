"""Runs pennylane.gradients.finite_diff_coeffs on the JSON cases from stdin; prints one JSON line.

case  = {"n": int, "a": int, "s": str}
result = {"cols": [[coeff_num, coeff_den, shift_num, shift_den], ...]}   exact rationals of the returned floats,
         in the order returned (row 0 = coefficients, row 1 = shifts)
       | "ERR"  (ValueError, the documented rejection)  |  "EXC:<type>"  (anything else)
"""
import json, sys, warnings

warnings.simplefilter("ignore")
import numpy as np
from pennylane.gradients import finite_diff_coeffs

out = []
for c in json.load(sys.stdin)["cases"]:
    try:
        r = np.asarray(finite_diff_coeffs(c["n"], c["a"], c["s"]), dtype=np.float64)
        if r.ndim != 2 or r.shape[0] != 2:
            out.append("EXC:shape" + str(r.shape))
            continue
        if not np.all(np.isfinite(r)):
            out.append("EXC:nonfinite")
            continue
        cols = []
        for k in range(r.shape[1]):
            cn, cd = float(r[0, k]).as_integer_ratio()
            sn, sd = float(r[1, k]).as_integer_ratio()
            cols.append([cn, cd, sn, sd])
        out.append({"cols": cols})
    except ValueError:
        out.append("ERR")
    except Exception as e:  # noqa: BLE001
        out.append("EXC:" + type(e).__name__)
print(json.dumps(out))
