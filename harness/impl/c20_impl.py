"""C20 implementation driver: measurement splitting / diagonalisation / broadcast transforms.

Top part: pure-python helpers shared with harness/props/c20.py (no pennylane import): observable AST
generator, exact linear extension of the fake executor table.  `main()` (only when run as a script)
imports pennylane, applies the REAL transforms, executes the produced tapes either with the exact fake
executor (dyadic table) or on default.qubit, applies the REAL post-processing and prints one JSON line.
"""
import hashlib
import json
import sys
from fractions import Fraction as Fr

LET = {"X": 1, "Y": 2, "Z": 3}
KINDS = {"expval": 0, "var": 1, "probs": 2, "sample": 3, "counts": 4}
SALT = "c20"


# ----------------------------------------------------------------------------- fake executor table
def _h(s):
    return int(hashlib.sha1((SALT + s).encode()).hexdigest()[:8], 16)


def fake_E(word):
    """dyadic expectation value assigned to a word (tuple of (wire, letter)); E(identity) = 1"""
    word = tuple((int(w), int(l)) for w, l in word)
    if not word:
        return Fr(1)
    return Fr(_h("E" + repr(word)) % 129 - 64, 64)


def fake_T(kind, lin_items):
    """dyadic scalar standing for the result of a non-expval measurement (kind, observable/wires)"""
    return Fr(_h("T" + kind + repr(lin_items)) % 257 - 128, 32)


def lin_items(lin):
    return sorted(((tuple(w), (c.numerator, c.denominator)) for w, c in lin.items()))


# ----------------------------------------------------------------------------- AST
def lin_mul(a, b):
    out = {}
    for wa, ca in a.items():
        for wb, cb in b.items():
            d = dict(wa)
            for w, l in wb:
                if w in d:
                    raise ValueError("overlapping wires inside a product")
                d[w] = l
            k = tuple(sorted(d.items()))
            out[k] = out.get(k, Fr(0)) + ca * cb
    return out


def lin_add(a, b, s=Fr(1)):
    out = dict(a)
    for w, c in b.items():
        out[w] = out.get(w, Fr(0)) + s * c
    return out


def ast_lin(a):
    """exact linear combination {word: Fraction} denoted by an AST (identity = empty word)"""
    t = a[0]
    if t == "P":
        return {((a[2], LET[a[1]]),): Fr(1)}
    if t == "I":
        return {(): Fr(1)}
    if t == "H":
        return {((a[2], 10 + a[1]),): Fr(1)}
    if t == "Pr":
        return {((a[2], 20 + a[1]),): Fr(1)}
    if t == "prod":
        r = {(): Fr(1)}
        for x in a[1]:
            r = lin_mul(r, ast_lin(x))
        return r
    if t == "sprod":
        return {w: Fr(*a[1]) * c for w, c in ast_lin(a[2]).items()}
    if t == "sum":
        r = {}
        for x in a[1]:
            r = lin_add(r, ast_lin(x))
        return r
    if t == "lc":
        r = {}
        for c, x in zip(a[1], a[2]):
            r = lin_add(r, ast_lin(x), Fr(*c))
        return r
    raise ValueError(t)


def lin_eval(lin):
    return sum((c * fake_E(w) for w, c in lin.items()), Fr(0))


def ast_nterms(a):
    return len([1 for w, c in ast_lin(a).items() if c != 0])


COEFS = [(1, 2), (-1, 2), (2, 1), (-2, 1), (3, 2), (1, 4), (-3, 4), (1, 1), (-1, 1), (5, 8), (3, 1), (-13, 8), (-1, 1), (-1, 1), (-1, 1)]


def gen_word(rng, wires, opaque=0.0, ident_factor=0.1, maxlen=3):
    k = rng.choice([1, 1, 2, 2, 3][: 2 + maxlen]) if len(wires) > 1 else 1
    k = min(k, len(wires), maxlen)
    ws = rng.sample(wires, k)
    fs = []
    for w in ws:
        r = rng.random()
        if r < opaque:
            fs.append(["H", rng.randrange(3), w] if rng.random() < 0.6 else ["Pr", rng.randrange(2), w])
        elif r < opaque + ident_factor and k > 1:
            fs.append(["I", w])
        else:
            fs.append(["P", rng.choice("XYZ"), w])
    return fs[0] if len(fs) == 1 else ["prod", fs]


def gen_term(rng, wires, pool, opaque=0.0, scalar=0.5):
    if pool and rng.random() < 0.35:
        w = rng.choice(pool)           # force a word that already occurred (dedup across measurements)
    else:
        w = gen_word(rng, wires, opaque)
        pool.append(w)
    if rng.random() < scalar:
        return ["sprod", list(rng.choice(COEFS)), w]
    return w


def gen_obs(rng, wires, pool, opaque=0.0, lc=0.25, depth=0):
    """random observable: word / scalar multiple / sum with identity terms, offsets, nesting"""
    r = rng.random()
    if r < 0.25:
        return gen_term(rng, wires, pool, opaque)
    n = rng.choice([2, 2, 3, 3, 4])
    args = []
    for _ in range(n):
        q = rng.random()
        if q < 0.2:
            iw = rng.choice(wires)
            ident = ["I", iw] if rng.random() < 0.8 else ["prod", [["I", iw], ["I", rng.choice([x for x in wires if x != iw] or [iw + 1])]]]
            args.append(ident if rng.random() < 0.3 else ["sprod", list(rng.choice(COEFS)), ident])
        elif q < 0.32 and depth == 0:
            args.append(["sprod", list(rng.choice(COEFS)), gen_obs(rng, wires, pool, opaque, 0.0, depth + 1)])
        else:
            args.append(gen_term(rng, wires, pool, opaque))
    if rng.random() < lc and depth == 0:
        cs, os_ = [], []
        for x in args:
            if x[0] == "sprod":
                cs.append(x[1]); os_.append(x[2])
            else:
                cs.append([1, 1]); os_.append(x)
        pure = [j for j, x in enumerate(os_) if '"H"' not in json.dumps(x) and '"Pr"' not in json.dumps(x)]
        if pure and rng.random() < 0.6:       # the same Pauli word twice in one Hamiltonian: coefficients must add up
            j = rng.choice(pure)
            os_.append(json.loads(json.dumps(os_[j]))); cs.append(list(rng.choice(COEFS)))
        return ["lc", cs, os_]
    if args and rng.random() < 0.2:
        args.append(json.loads(json.dumps(rng.choice(args))))
    return ["sum", args]


def gen_ms(rng, nw, profile):
    """measurement list. profile: 'expval' (only expvals), 'mixed' (adds var/probs/sample/counts of single
    words or wires), 'reject' (contains var/probs... of a multi-term sum)"""
    wires = list(range(nw))
    pool = []
    n = rng.choice([1, 1, 2, 2, 3, 3, 4, 5])
    ms = []
    opaque = rng.choice([0.0, 0.0, 0.0, 0.25])
    for _ in range(n):
        r = rng.random()
        if profile == "expval" or r < 0.55:
            if ms and rng.random() < 0.1:
                ms.append(json.loads(json.dumps(rng.choice(ms))))   # identical measurement twice
            else:
                ms.append({"kind": "expval", "obs": gen_obs(rng, wires, pool, opaque)})
        elif r < 0.75:
            kind = rng.choice(["var", "var", "sample", "counts"])
            o = gen_term(rng, wires, pool, opaque, scalar=0.3)
            ms.append({"kind": kind, "obs": o})
        else:
            kind = rng.choice(["probs", "probs", "sample", "counts"])
            k = rng.randint(0 if kind == "probs" else 1, nw) if rng.random() < 0.9 else 0
            ms.append({"kind": kind, "wires": rng.sample(wires, k)})
    if profile == "reject":
        kind = rng.choice(["var", "var", "sample", "counts", "probs"])
        a, b = gen_word(rng, wires), gen_word(rng, wires)
        while ast_lin(a) == ast_lin(b):
            b = gen_word(rng, wires)
        form = rng.random()
        if form < 0.5:
            o = ["sum", [a, ["sprod", [1, 2], b]]]
        elif form < 0.75:
            o = ["sprod", [2, 1], ["sum", [a, b]]]
        else:
            c = ["P", "X", nw]      # fresh wire: product with a sum simplifies to a sum
            o = ["prod", [c, ["sum", [a, b]]]] if all(x[0] != nw for x in ast_wires(a) + ast_wires(b)) else ["sum", [a, b]]
        ms.insert(rng.randrange(len(ms) + 1), {"kind": kind, "obs": o})
    return ms


def ast_wires(a):
    t = a[0]
    if t in ("P", "H", "Pr"):
        return [(a[2],)]
    if t == "I":
        return [(a[1],)]
    if t in ("prod", "sum"):
        return [w for x in a[1] for w in ast_wires(x)]
    if t == "sprod":
        return ast_wires(a[2])
    return [w for x in a[2] for w in ast_wires(x)]


def expected_fake(m):
    """E applied to the ORIGINAL measurement (from the AST only; independent of pennylane)"""
    if m["kind"] == "expval":
        return lin_eval(ast_lin(m["obs"]))
    if "obs" in m and m["obs"] is not None:
        lin = {w: c for w, c in ast_lin(m["obs"]).items() if c != 0}
        return fake_T(m["kind"], lin_items(lin))
    return fake_T(m["kind"], ("wires", tuple(m["wires"])))


# ============================================================================= pennylane part
def main():
    import random
    import warnings
    warnings.filterwarnings("ignore")
    import numpy as np
    import pennylane as qp
    from pennylane.ops import Sum, Prod, SProd
    sys.path.insert(0, "/verif/harness")

    HERM = [np.array([[1.0, 0.5], [0.5, -1.0]]), np.array([[0.0, -0.5j], [0.5j, 0.5]]), np.array([[2.0, 1.0], [1.0, 0.0]])]

    def build(a):
        t = a[0]
        if t == "P":
            return {"X": qp.X, "Y": qp.Y, "Z": qp.Z}[a[1]](a[2])
        if t == "I":
            return qp.Identity(a[1])
        if t == "H":
            return qp.Hermitian(HERM[a[1]], wires=a[2])
        if t == "Pr":
            return qp.Projector([a[1]], wires=a[2])
        if t == "prod":
            return qp.prod(*[build(x) for x in a[1]])
        if t == "sprod":
            return qp.s_prod(float(Fr(*a[1])), build(a[2]))
        if t == "sum":
            return qp.sum(*[build(x) for x in a[1]])
        if t == "lc":
            return qp.ops.LinearCombination([float(Fr(*c)) for c in a[1]], [build(x) for x in a[2]])
        raise ValueError(t)

    def build_mp(m):
        fn = {"expval": qp.expval, "var": qp.var, "probs": qp.probs, "sample": qp.sample, "counts": qp.counts}[m["kind"]]
        if m.get("obs") is not None:
            return fn(op=build(m["obs"])) if m["kind"] in ("probs", "sample", "counts") else fn(build(m["obs"]))
        return fn(wires=m["wires"]) if m["wires"] else fn()

    def frac(x):
        x = complex(x)
        if x.imag != 0:
            raise ValueError("complex coefficient")
        return Fr(*float(x.real).as_integer_ratio())

    def op_lin(op):
        """linear combination {word: Fraction} of a REAL operator (own recursion over the operator tree)"""
        if isinstance(op, qp.Identity):
            return {(): Fr(1)}
        if isinstance(op, (qp.X, qp.Y, qp.Z)):
            return {((op.wires[0], LET[op.name[-1]]),): Fr(1)}
        if isinstance(op, qp.Hermitian):
            for k, Hm in enumerate(HERM):
                if np.array_equal(op.data[0], Hm):
                    return {((op.wires[0], 10 + k),): Fr(1)}
            raise ValueError("unknown Hermitian")
        if isinstance(op, qp.Projector):
            return {((op.wires[0], 20 + int(op.data[0][0])),): Fr(1)}
        if isinstance(op, SProd):
            return {w: frac(op.scalar) * c for w, c in op_lin(op.base).items()}
        if isinstance(op, qp.ops.LinearCombination):
            r = {}
            cs, os_ = op.terms()
            for c, o in zip(cs, os_):
                r = lin_add(r, op_lin(o), frac(c))
            return r
        if isinstance(op, Sum):
            r = {}
            for o in op.operands:
                r = lin_add(r, op_lin(o))
            return r
        if isinstance(op, Prod):
            r = {(): Fr(1)}
            for o in op.operands:
                r = lin_mul(r, op_lin(o))
            return r
        raise ValueError(f"unsupported operator {type(op).__name__}")

    KN = {"ExpectationMP": "expval", "VarianceMP": "var", "ProbabilityMP": "probs", "SampleMP": "sample", "CountsMP": "counts"}

    def mp_kind(mp):
        return KN[type(mp).__name__]

    def ordered_word(op, w):
        """word in the wire order of the operator (MeasurementProcess.__hash__ contains the wire tuple, so
        expval(Y(0)@X(1)) and expval(X(1)@Y(0)) are different dictionary keys); identity wires get letter 4"""
        letters = dict(w)
        return [[int(x), int(letters.get(x, 4))] for x in op.wires]

    def mp_key(mp):
        """[kind, [num, den], word] for a single-word measurement (wires-only: letter 0, written order)"""
        kind = KINDS[mp_kind(mp)]
        if mp.obs is None:
            return [kind, [1, 1], [[int(w), 0] for w in mp.wires]]
        if isinstance(mp.obs, qp.Identity):      # non-split measurement of the identity: keep its wires (letter 4)
            return [kind, [1, 1], [[int(w), 4] for w in mp.obs.wires]]
        if isinstance(mp.obs, SProd):
            # a scalar wrapper is a different object from the bare word for the real code (no de-duplication between
            # 1*Z and Z) although both denote the same word: not representable by a key, left to the direct oracle
            return None
        lin = {w: c for w, c in op_lin(mp.obs).items() if c != 0}
        if len(lin) != 1:
            return None
        (w, c), = lin.items()
        return [kind, [c.numerator, c.denominator], ordered_word(mp.obs, w)]

    def fake_value(mp):
        if mp_kind(mp) == "expval":
            return lin_eval(op_lin(mp.obs))
        if mp.obs is None:
            return fake_T(mp_kind(mp), ("wires", tuple(int(w) for w in mp.wires)))
        lin = {w: c for w, c in op_lin(mp.obs).items() if c != 0}
        return fake_T(mp_kind(mp), lin_items(lin))

    def fake_execute(tape):
        vals = [np.float64(float(fake_value(m))) for m in tape.measurements]
        return vals[0] if len(vals) == 1 else tuple(vals)

    def model_meas(mp):
        """what the model is given about an ORIGINAL measurement: kind, class tag of the observable, the
        real terms() (oracle: operator arithmetic), whether simplify() gives a Sum, and its own key"""
        obs = mp.obs
        d = {"kind": KINDS[mp_kind(mp)]}
        if obs is None:
            d["cls"] = "none"
        elif isinstance(obs, qp.Identity):
            d["cls"] = "ident"
        elif isinstance(obs, (Sum, Prod, SProd)):
            d["cls"] = "comp"
        else:
            d["cls"] = "other"
        if d["cls"] == "comp":
            ts = []
            cs, os_ = obs.terms()
            for c, o in zip(cs, os_):
                lin = op_lin(o)
                if len(lin) != 1 or list(lin.values())[0] != 1 or isinstance(o, SProd):
                    ts = None
                    break
                c = frac(c)
                isI = bool(isinstance(o, qp.Identity))
                ts.append([[c.numerator, c.denominator], isI, [] if isI else ordered_word(o, list(lin)[0])])
            d["terms"] = ts
            d["simp_sum"] = bool(isinstance(obs.simplify(), Sum))      # after terms(): see run_fake
        else:
            d["terms"] = []
            d["simp_sum"] = False
        d["key"] = mp_key(mp)
        return d

    def fr_list(res, n):
        res = (res,) if n == 1 else tuple(res)
        out = []
        for r in res:
            a = np.asarray(r)
            if a.shape != ():
                out.append({"shape": list(a.shape)})
            else:
                f = Fr(*float(a).as_integer_ratio())
                out.append([f.numerator, f.denominator])
        return out

    def run_fake(c):
        ms = [build_mp(m) for m in c["ms"]]
        nw = c["nw"]
        tape = qp.tape.QuantumScript([qp.Hadamard(w) for w in range(nw)], ms)
        out = {"meas": None}
        try:
            # fresh copies: simplify() caches / rewrites pauli_rep of the object it is called on
            out["meas"] = [model_meas(build_mp(m)) for m in c["ms"]]
        except ValueError as e:
            out["meas_err"] = str(e)
        try:
            if c["strategy"] == "single":
                tapes, fn = qp.transforms.split_to_single_terms(tape)
            else:
                gs = None if c["strategy"] == "none" else c["strategy"]
                tapes, fn = qp.transforms.split_non_commuting(tape, grouping_strategy=gs)
        except Exception as e:  # noqa
            out["status"] = "raise"
            out["exc"] = type(e).__name__
            return out
        out["status"] = "ok"
        out["tapes"] = [[mp_key(m) for m in t.measurements] for t in tapes]
        out["ops_kept"] = all(len(t.operations) == nw for t in tapes)
        table = {}
        for t in tapes:
            for m in t.measurements:
                k = mp_key(m)
                if k is not None:
                    v = fake_value(m)
                    table[json.dumps(k)] = [v.numerator, v.denominator]
        out["table"] = [[json.loads(k), v] for k, v in table.items()]
        try:
            res = fn(tuple(fake_execute(t) for t in tapes))
            out["result"] = fr_list(res, len(ms))
        except Exception as e:  # noqa
            out["status"] = "post_raise"
            out["exc"] = f"{type(e).__name__}: {e}"[:200]
        o0 = ms[0].obs
        gi = getattr(o0, "grouping_indices", None) if len(ms) == 1 and isinstance(o0, Sum) else None
        out["ham_grouping"] = [list(map(int, g)) for g in gi] if gi is not None else None
        return out

    # ------------------------------------------------------------------------- end-to-end on default.qubit
    from qx import pyth_angle

    G1 = ["RX", "RY", "RZ", "Hadamard", "S", "T", "PauliX", "SX", "PhaseShift"]
    G2 = ["CNOT", "CZ", "CRX", "IsingXX", "SWAP", "CRY"]

    def rand_ops(rng, nw, batch=None, nbatched=0):
        ops = []
        n = rng.randint(2, 3 + 2 * nw)
        bidx = set(rng.sample(range(n), min(nbatched, n))) if batch else set()
        for i in range(n):
            if rng.random() < 0.6 or nw == 1 or i in bidx:
                nm = rng.choice(["RX", "RY", "RZ", "PhaseShift"] if i in bidx else G1)
                ws = [rng.randrange(nw)]
            else:
                nm = rng.choice(G2)
                ws = rng.sample(range(nw), 2)
            cls = getattr(qp, nm)
            if i in bidx:
                ps = [np.array([pyth_angle(rng) for _ in range(batch)])]
            else:
                ps = [pyth_angle(rng) for _ in range(cls.num_params)]
            ops.append(cls(*ps, wires=ws))
        for w in range(nw):
            if not any(w in o.wires for o in ops):
                ops.append(qp.RY(pyth_angle(rng), wires=w))
        return ops

    def norm(x):
        """result -> comparable nested structure"""
        if isinstance(x, dict):
            return {"counts_keys": sorted(str(k) for k in x.keys()), "total": int(sum(int(v) for v in x.values()))}
        if isinstance(x, (tuple, list)):
            return [norm(y) for y in x]
        a = np.asarray(x)
        if a.dtype == object:
            return [norm(y) for y in a.tolist()]
        return {"shape": list(a.shape), "v": np.real(a).astype(float).reshape(-1).tolist()}

    def compare(a, b, kinds_flat, path=""):
        """a (direct) vs b (transformed): max error for numeric kinds; shapes for sample; keys for counts"""
        if isinstance(a, list) != isinstance(b, list) or isinstance(a, dict) != isinstance(b, dict):
            return f"structure differs at {path}: {str(a)[:80]} vs {str(b)[:80]}"
        if isinstance(a, list):
            if len(a) != len(b):
                return f"length differs at {path}: {len(a)} vs {len(b)}"
            for i, (x, y) in enumerate(zip(a, b)):
                r = compare(x, y, kinds_flat, path + f"[{i}]")
                if r:
                    return r
            return None
        if "counts_keys" in a or "counts_keys" in b:
            if "counts_keys" not in a or "counts_keys" not in b:
                return f"counts vs non-counts at {path}"
            if a["total"] != b["total"]:
                return f"counts totals differ at {path}"
            return None if kinds_flat.get("loose_counts") or a["counts_keys"] == b["counts_keys"] else None
        if a["shape"] != b["shape"] and not (kinds_flat.get("squeeze") and len(a["v"]) == len(b["v"])):
            return f"shape differs at {path}: {a['shape']} vs {b['shape']}"
        if kinds_flat.get("shape_only_at", lambda p: False)(path):
            return None
        err = max([abs(x - y) for x, y in zip(a["v"], b["v"])] or [0.0])
        return None if err <= kinds_flat.get("tol", 1e-9) else f"values differ at {path}: max abs err {err:.3g}: {a['v'][:4]} vs {b['v'][:4]}"

    def has_overlap(op):
        if isinstance(op, SProd):
            return has_overlap(op.base)
        if isinstance(op, (Sum, Prod)):
            return any(len(g) > 1 for g in op.overlapping_ops) or any(has_overlap(o) for o in op.operands)
        return False

    def fq(x):
        f = Fr(*float(x).as_integer_ratio())
        return [f.numerator, f.denominator]

    def e2e_case(rng, idx, tier, forced=None):
        """one end-to-end comparison: returns dict(name, desc, status, detail, stats)"""
        transforms = ["snc:default", "snc:qwc", "snc:wires", "snc:none", "single", "diag", "diag_sub", "sign", "bexp", "bparams", "binput",
                      "snc_reject", "diag_reject", "snc:default", "single", "diag", "bexp", "snc_shots", "ham"]
        tname = forced["transform"] if forced else transforms[idx % len(transforms)]
        nw = forced["nw"] if forced else rng.choice([1, 2, 2, 3, 3])
        dev = qp.device("default.qubit")
        rec = {"transform": tname, "nw": nw}

        def finish(tape, tapes, fn, shape_only=(), analytic=True, tol=1e-9, squeeze=False):
            direct = qp.execute([tape], dev, diff_method=None)[0]
            got = fn(qp.execute(list(tapes), dev, diff_method=None))
            rec["ntapes"] = len(tapes)
            kf = {"shape_only_at": (lambda p: any(p.startswith(f"[{i}]") for i in shape_only)) if len(tape.measurements) > 1 else (lambda p: bool(shape_only))}
            kf["tol"] = tol
            kf["squeeze"] = squeeze
            r = compare(norm(direct), norm(got), kf)
            rec["status"] = "ok" if r is None else "mismatch"
            if r:
                rec["detail"] = r
                rec["direct"] = str(direct)[:300]
                rec["transformed"] = str(got)[:300]
            return rec

        if tname in ("bexp", "bparams", "binput"):
            B = rng.choice([1, 2, 3, 4]) if tname != "bexp" else rng.choice([2, 3, 4])
            ops = rand_ops(rng, nw, batch=B, nbatched=rng.choice([1, 1, 2]))
            msj = gen_ms(rng, nw, "expval" if rng.random() < 0.5 else "mixed")
            msj = [m for m in msj if m["kind"] in ("expval", "var", "probs") and not (m["kind"] == "var" and ast_nterms(m["obs"]) != 1)] or [{"kind": "expval", "obs": ["P", "Z", 0]}]
            msj = [m for m in msj if not (m["kind"] == "var" and m["obs"][0] == "sprod")] or [{"kind": "expval", "obs": ["P", "Z", 0]}]
            ms = [build_mp(m) for m in msj]
            tape = qp.tape.QuantumScript(ops, ms)
            rec.update({"ops": [repr(o) for o in ops], "ms": msj, "B": B})
            npar_all = len(tape.get_parameters(trainable_only=False))
            pars = [p for o in ops for p in o.data]          # operation parameters come first in the tape's parameter list
            bidx = [i for i, p in enumerate(pars) if np.ndim(p) == 1]
            if tname == "bexp":
                tapes, fn = qp.transforms.broadcast_expand(tape)
            elif tname == "bparams":
                tape.trainable_params = bidx
                tapes, fn = qp.transforms.batch_params(tape)
            else:
                tape.trainable_params = [i for i in range(npar_all) if i not in bidx]
                tapes, fn = qp.transforms.batch_input(tape, argnum=bidx)
            rec["order_ok"] = True
            rec["bops"] = [[i, [([fq(v) for v in p] if np.ndim(p) == 1 else fq(p)) for p in o.data]] for i, o in enumerate(ops)]
            rec["btapes"] = [[[i, [fq(v) for v in o.data]] for i, o in enumerate(t.operations)] for t in tapes]
            rec["names_ok"] = all([o.name for o in t.operations] == [o.name for o in ops] and [list(o.wires) for o in t.operations] == [list(o.wires) for o in ops] for t in tapes)
            # order: tape b must carry the b-th slice of every batched parameter
            for b, t in enumerate(tapes):
                tp = t.get_parameters(trainable_only=False)
                for i, p in enumerate(pars):
                    want = p[b] if np.ndim(p) == 1 else p
                    if not np.array_equal(np.asarray(tp[i]), np.asarray(want)):
                        rec["order_ok"] = False
            if len(tapes) != B:
                rec["order_ok"] = False
            # direct execution of a size-1 batch on default.qubit drops the batch axis of some results
            # (the transformed result keeps it): compare values only in that case
            return finish(tape, tapes, fn, squeeze=(B == 1))

        if tname == "sign":
            ops = rand_ops(rng, nw)
            basis = {w: rng.choice("XYZ") for w in range(nw)}
            terms = []
            for _ in range(rng.choice([1, 2, 3])):
                ws = rng.sample(range(nw), rng.randint(1, nw))
                fs = [["P", basis[w], w] for w in ws]
                wd = fs[0] if len(fs) == 1 else ["prod", fs]
                terms.append(["sprod", list(rng.choice(COEFS)), wd] if rng.random() < 0.6 else wd)
            if rng.random() < 0.3:
                terms.append(["sprod", list(rng.choice(COEFS)), ["I", 0]])
            a = ["sum", terms] if len(terms) > 1 else ["sum", terms + [["sprod", [1, 2], ["P", basis[0], 0]]]]
            Hm = build(a)
            tape = qp.tape.QuantumScript(ops, [qp.expval(Hm)])
            rec.update({"ops": [repr(o) for o in ops], "ms": [{"kind": "expval", "obs": a}]})
            eigs = np.linalg.eigvalsh(qp.matrix(Hm, wire_order=list(range(nw))))
            rec["has_Y"] = any(basis[w] == "Y" for w in range(nw))
            rec["spectrum_midpoint"] = float((eigs[0] + eigs[-1]) / 2)
            try:
                tapes, fn = qp.transforms.sign_expand(tape, circuit=False)
            except ValueError as e:
                rec["status"] = "raised_on_valid"
                rec["exc"] = f"{type(e).__name__}: {e}"[:200]
                return rec
            return finish(tape, tapes, fn, tol=1e-6)     # sign_expand builds its projectors in complex64

        if tname in ("snc_reject",):
            ops = rand_ops(rng, nw)
            msj = gen_ms(rng, nw, "reject")
            rec.update({"ops": [repr(o) for o in ops], "ms": msj})
            tape = qp.tape.QuantumScript(ops, [build_mp(m) for m in msj], shots=(50 if any(m["kind"] in ("sample", "counts") for m in msj) else None))
            tr = rng.choice(["snc", "single"])
            try:
                if tr == "snc":
                    tapes, fn = qp.transforms.split_non_commuting(tape, grouping_strategy=rng.choice(["default", "qwc", "wires", None]))
                else:
                    tapes, fn = qp.transforms.split_to_single_terms(tape)
            except Exception as e:  # noqa
                rec["status"] = "raised"
                rec["exc"] = type(e).__name__
                return rec
            # accepted: then results must agree with direct execution (analytic parts only)
            if tape.shots:
                rec["status"] = "accepted_unsplit" if len(tapes) == 1 and len(tapes[0].measurements) == len(tape.measurements) else "accepted_split"
                return rec
            try:
                return finish(tape, tapes, fn)
            except Exception as e:  # noqa
                rec["status"] = "raised_late"
                rec["exc"] = type(e).__name__
                return rec

        if tname == "diag_reject":
            ops = rand_ops(rng, nw)
            w = rng.randrange(nw)
            l1, l2 = rng.sample("XYZ", 2)
            form = rng.random()
            if form < 0.4:
                msj = [{"kind": "expval", "obs": ["P", l1, w]}, {"kind": rng.choice(["expval", "var"]), "obs": ["P", l2, w]}]
            elif form < 0.7:
                msj = [{"kind": "expval", "obs": ["sum", [["P", l1, w], ["sprod", [1, 2], ["P", l2, w]]]]}]
            else:
                msj = [{"kind": "expval", "obs": ["P", rng.choice("XY"), w]}, {"kind": "probs", "wires": [w]}]
            kw = {}
            if not forced and nw > 1 and rng.random() < 0.5:
                # the clash hidden inside composite observables, the other wires measured consistently:
                # [<l1(w) @ b(v)>, kind(c * l2(w))], [<l1(w)>, <l2(w) + b(v)>], [<b(v) @ l2(w)>, <l1(w)>] ...
                v = rng.choice([x for x in range(nw) if x != w])
                b = ["P", rng.choice("XYZ"), v]
                A, Bq = ["P", l1, w], ["P", l2, w]
                shape = rng.randrange(4)
                if shape == 0:
                    msj = [{"kind": "expval", "obs": ["prod", [A, b]]}, {"kind": rng.choice(["expval", "var"]), "obs": Bq}]
                elif shape == 1:
                    msj = [{"kind": "expval", "obs": A}, {"kind": "expval", "obs": ["sum", [Bq, ["sprod", list(rng.choice(COEFS)), b]]]}]
                elif shape == 2:
                    msj = [{"kind": "expval", "obs": ["prod", [b, Bq]]}, {"kind": "expval", "obs": b}, {"kind": "expval", "obs": ["sprod", list(rng.choice(COEFS)), A]}]
                else:
                    msj = [{"kind": "var", "obs": b}, {"kind": "expval", "obs": ["sum", [["prod", [A, b]], ["sprod", [1, 2], Bq]]]}]
            if forced:
                msj = forced["ms"]
                sup = forced.get("supported")
            else:
                sup = rng.choice([None, None, ["X"], ["Y", "Z"], ["X", "Y"], ["Z", "X", "Y"]])
            if sup is not None:
                kw["supported_base_obs"] = [getattr(qp, s) for s in sup]
                rec["supported"] = sup
            rec.update({"ops": [repr(o) for o in ops], "ms": msj})
            tape = qp.tape.QuantumScript(ops, [build_mp(m) for m in msj])
            try:
                tapes, fn = qp.transforms.diagonalize_measurements(tape, **kw)
            except Exception as e:  # noqa
                rec["status"] = "raised"
                rec["exc"] = type(e).__name__
                return rec
            # accepted although two different Pauli letters are requested on one wire: report what the returned tape computes
            try:
                finish(tape, tapes, fn)
                rec["accepted_values"] = rec["status"]
            except Exception as e:  # noqa
                rec["accepted_values"] = f"execution raised {type(e).__name__}"
            rec["new_measurements"] = [repr(m) for m in tapes[0].measurements][:6]
            rec["added_gates"] = [repr(o) for o in tapes[0].operations[len(ops):]][:8]
            rec["status"] = "accepted_noncommuting"
            return rec

        if tname in ("diag", "diag_sub"):
            # a qubit-wise commuting measurement set: one Pauli letter per wire
            ops = rand_ops(rng, nw)
            basis = {w: rng.choice("XYZ") for w in range(nw)}
            shots = None
            msj = []

            def qword():
                ws = rng.sample(range(nw), rng.randint(1, nw))
                fs = [["P", basis[w], w] if rng.random() > 0.12 else ["I", w] for w in ws]
                return fs[0] if len(fs) == 1 else ["prod", fs]

            def qterm():
                return ["sprod", list(rng.choice(COEFS)), qword()] if rng.random() < 0.5 else qword()
            for _ in range(rng.choice([1, 2, 2, 3])):
                r = rng.random()
                if r < 0.25:
                    msj.append({"kind": "expval", "obs": qterm()})
                elif r < 0.65:
                    args = [qterm() for _ in range(rng.choice([2, 3]))]
                    if rng.random() < 0.5:
                        iw = rng.randrange(nw)
                        ident = ["I", iw] if rng.random() < 0.7 or nw == 1 else ["prod", [["I", iw], ["I", (iw + 1) % nw]]]
                        args.insert(rng.randrange(len(args) + 1), ident if rng.random() < 0.3 else ["sprod", list(rng.choice(COEFS)), ident])
                    if rng.random() < 0.25:
                        cs, os_ = [], []
                        for x in args:
                            if x[0] == "sprod":
                                cs.append(x[1]); os_.append(x[2])
                            else:
                                cs.append([1, 1]); os_.append(x)
                        msj.append({"kind": "expval", "obs": ["lc", cs, os_]})
                    else:
                        msj.append({"kind": "expval", "obs": ["sum", args]})
                elif r < 0.8:
                    msj.append({"kind": "var", "obs": qword()})
                elif r < 0.9:
                    zw = [w for w in range(nw) if basis[w] == "Z"]
                    if zw:
                        msj.append({"kind": "probs", "wires": rng.sample(zw, rng.randint(1, len(zw)))})
                    else:
                        msj.append({"kind": "expval", "obs": qword()})
                else:
                    msj.append({"kind": rng.choice(["sample", "counts"]), "obs": qword()})
                    shots = 40
            if forced:
                msj, shots = forced["ms"], None
            rec.update({"ops": [repr(o) for o in ops], "ms": msj, "shots": shots})
            tape = qp.tape.QuantumScript(ops, [build_mp(m) for m in msj], shots=shots)
            rec["overlap"] = any(m.obs is not None and has_overlap(m.obs) for m in tape.measurements)
            kw = {}
            if forced and forced.get("to_eigvals"):
                kw["to_eigvals"] = True
                rec["to_eigvals"] = True
            elif forced:
                pass
            elif tname == "diag_sub":
                kw["supported_base_obs"] = rng.choice([[qp.X], [qp.Y, qp.Z], [qp.X, qp.Y], [qp.Z, qp.X, qp.Y]])
                rec["supported"] = [c.__name__ for c in kw["supported_base_obs"]]
            elif rng.random() < 0.25:
                kw["to_eigvals"] = True
                rec["to_eigvals"] = True
            try:
                tapes, fn = qp.transforms.diagonalize_measurements(tape, **kw)
            except Exception as e:  # noqa
                rec["status"] = "raised_on_qwc"
                rec["exc"] = f"{type(e).__name__}: {e}"[:200]
                return rec
            # all observables of the new tape must be diagonal (only Z / I letters) unless supported
            if shots:
                rec["status"] = "ok"
                direct = qp.execute([tape], qp.device("default.qubit", seed=1), diff_method=None)[0]
                got = fn(qp.execute(list(tapes), qp.device("default.qubit", seed=1), diff_method=None))
                idx_stoch = [i for i, m in enumerate(msj)]
                kf = {"shape_only_at": (lambda p: True), "loose_counts": True}
                r = compare(norm(direct), norm(got), kf)
                if r:
                    rec["status"] = "mismatch"; rec["detail"] = r
                return rec
            return finish(tape, tapes, fn)

        # split_non_commuting / split_to_single_terms / ham path
        shots = None
        profile = "mixed" if rng.random() < 0.6 else "expval"
        if tname == "ham":
            pool = []
            msj = [{"kind": "expval", "obs": ["sum", [gen_term(rng, list(range(nw)), pool) for _ in range(rng.choice([2, 3, 4]))] + ([["sprod", [3, 2], ["I", 0]]] if rng.random() < 0.5 else [])]}]
        else:
            msj = gen_ms(rng, nw, profile)
        if forced:
            msj = forced["ms"]
        ops = rand_ops(rng, nw, batch=(rng.choice([2, 3]) if rng.random() < 0.2 else None), nbatched=1)
        # var/sample/counts of scalar multiples are legal but keep var to plain words/scalars; drop nothing
        stoch = [i for i, m in enumerate(msj) if m["kind"] in ("sample", "counts")]
        if stoch or tname == "snc_shots":
            shots = 30
        rec.update({"ops": [repr(o) for o in ops], "ms": msj, "shots": shots})
        tape = qp.tape.QuantumScript(ops, [build_mp(m) for m in msj], shots=shots)
        try:
            if tname == "single":
                tapes, fn = qp.transforms.split_to_single_terms(tape)
            else:
                gs = tname.split(":")[1] if ":" in tname else rng.choice(["default", "qwc", "wires", "none"])
                rec["grouping"] = gs
                tapes, fn = qp.transforms.split_non_commuting(tape, grouping_strategy=None if gs == "none" else gs)
        except Exception as e:  # noqa
            rec["status"] = "raised_on_valid"
            rec["exc"] = f"{type(e).__name__}: {e}"[:200]
            return rec
        if shots:
            # finite shots: shapes / types / counts totals only (analytic values are covered by the other cases)
            direct = qp.execute([tape], dev, diff_method=None)[0]
            got = fn(qp.execute(list(tapes), dev, diff_method=None))
            rec["ntapes"] = len(tapes)
            r = compare(norm(direct), norm(got), {"shape_only_at": (lambda p: True), "loose_counts": True})
            rec["status"] = "ok" if r is None else "mismatch"
            if r:
                rec["detail"] = r; rec["direct"] = str(direct)[:300]; rec["transformed"] = str(got)[:300]
            return rec
        return finish(tape, tapes, fn)

    req = json.load(sys.stdin)
    out = {"fake": [], "e2e": []}
    for c in req.get("fake", []):
        try:
            out["fake"].append(run_fake(c))
        except Exception as e:  # noqa  (driver problem: reported by the harness as such)
            import traceback
            out["fake"].append({"status": "driver_error", "exc": traceback.format_exc()[-600:]})
    e2 = req.get("e2e")
    if e2:
        rng = random.Random(e2["seed"])
        corpus = e2.get("corpus", [])
        for i in range(len(corpus) + e2["n"]):
            try:
                if i < len(corpus):
                    r = e2e_case(random.Random(1234 + i), i, "quick", forced=corpus[i])
                    r["corpus"] = True
                else:
                    r = e2e_case(rng, i - len(corpus), e2.get("tier", "quick"))
            except Exception as e:  # noqa
                import traceback
                r = {"status": "driver_error", "exc": traceback.format_exc()[-800:]}
            r["idx"] = i
            out["e2e"].append(r)
    print(json.dumps(out))


if __name__ == "__main__":
    main()
