"""Runs the real PauliWord / PauliSentence / pauli_decompose / pauli_sentence on JSON cases from stdin;
prints one JSON line of observations.  Words travel as [[label_index, "X"], ...]; coefficients as
[re_numerator, im_numerator] over the common denominator D (exact dyadic floats)."""
import json, sys, warnings
import numpy as np
import scipy.sparse as sps
import pennylane as qp
from pennylane.pauli import PauliWord, PauliSentence
from pennylane.pauli import pauli_arithmetic as pa
from pennylane.pauli import conversion

warnings.filterwarnings("ignore")
payload = json.load(sys.stdin)
LABELS = payload["labels"]
D = payload["D"]
LIDX = {l: i for i, l in enumerate(LABELS)}


def cnum(c, style=0):
    re, im = c[0] / D, c[1] / D
    z = complex(re, im)
    if style == 1 and im == 0:
        return re
    if style == 2 and im == 0:
        return np.float64(re)
    if style == 3:
        return np.array(z)
    if style == 4:
        return np.complex128(z)
    if style == 5 and im == 0 and re == int(re):
        return int(re)
    return z


def mkword(w):
    return PauliWord({LABELS[i]: p for i, p in w})


def mksent(s, style=0):
    return PauliSentence({mkword(w): cnum(c, style) for w, c in s})


def obj(s, as_word):
    """a single-term coefficient-1 sentence may be handed over as a bare PauliWord"""
    return mkword(s[0][0]) if as_word else mksent(s)


def cplx(z):
    z = complex(np.asarray(z).item() if isinstance(z, np.ndarray) else z)
    return [z.real, z.imag]


def out_word(w):
    return [[LIDX[l], p] for l, p in w.items()]


def out_sent(s):
    if isinstance(s, PauliWord):
        s = PauliSentence({s: 1.0})
    assert isinstance(s, PauliSentence), type(s)
    return [[out_word(w), cplx(c)] for w, c in s.items()]


def out_mat(m):
    if sps.issparse(m):
        m = m.toarray()
    m = np.asarray(m, dtype=complex)
    return {"n": int(m.shape[0]), "re": m.real.ravel().tolist(), "im": m.imag.ravel().tolist()}


def guard(f):
    try:
        return f()
    except Exception as e:  # noqa: BLE001 - any exception is the observation "ERR"
        return "ERR:" + type(e).__name__


def export_table():
    names = "IXYZ"
    ph = {1: 0, 1j: 1, -1: 2, -1j: 3}
    t, ac = [], []
    for a in names:
        for b in names:
            f, r = pa.mul_map[a][b]
            t.append([a, b, ph.get(complex(f), 99), r])
            ac.append([a, b, int(pa.anticom_map[a][b])])
    sub = {"I": pa._map_I, "X": pa._map_X, "Y": pa._map_Y, "Z": pa._map_Z}
    same = all(pa.mul_map[a] is sub[a] or pa.mul_map[a] == sub[a] for a in names)
    mats = {a: out_mat(pa.mat_map[a]) for a in names}
    sparse1 = {}
    for a in names:
        data, ind = pa._cached_sparse_data(a)
        m = np.zeros((2, 2), dtype=complex)
        m[0, ind[0]] = data[0]
        m[1, ind[1]] = data[1]
        sparse1[a] = out_mat(m)
    return {"t": t, "ac": ac, "same": bool(same), "mats": mats, "sparse1": sparse1}


def dm(x, order):
    if isinstance(x, PauliWord):
        x = PauliSentence({x: 1.0})
    return np.asarray(x.to_mat(order), dtype=complex)


def do_sent(c):
    """observed result sentence + the numpy identity mat(result) == same operation on the matrices"""
    order = [LABELS[i] for i in c["worder"]]
    r, expect = do_sent_core(c, order)
    ok = bool(np.array_equal(dm(r, order), expect))
    ok = ok and bool(np.array_equal(r.to_mat(order, format="csr").toarray(), expect))
    return {"s": out_sent(r), "mat_ok": ok}


def do_sent_core(c, order):
    op = c["op"]
    st = c.get("style", 0)
    if op == "commww":
        wa, wb = mkword(c["a"][0][0]), mkword(c["b"][0][0])
        A, B = dm(wa, order), dm(wb, order)
        return wa.commutator(wb), A @ B - B @ A
    a = obj(c["a"], c.get("a_word", False))
    A = dm(a, order)
    if op == "smul":
        k = cnum(c["c"], st)
        return (k * a if c.get("left", True) else a * k), complex(cnum(c["c"])) * A
    b = obj(c["b"], c.get("b_word", False))
    B = dm(b, order)
    if op == "add":
        return a + b, A + B
    if op == "iadd":
        a = mksent(c["a"])
        a += b
        return a, A + B
    if op == "sub":
        return a - b, A - B
    if op == "matmul":
        return a @ b, A @ B
    if op in ("comm", "commws"):
        return a.commutator(b), A @ B - B @ A
    if op == "commop":      # commutator with an Operator (goes through pauli_sentence(op))
        return a.commutator(b.operation(wire_order=order)), A @ B - B @ A
    raise KeyError(op)


def do_mat(c):
    order = [LABELS[i] for i in c["order"]]
    s = mksent(c["a"], c.get("style", 0))
    res = {}
    res["dense"] = guard(lambda: out_mat(s.to_mat(order)))
    for bs in c.get("buffers", [None]):
        res[f"csr_{bs}"] = guard(lambda bs=bs: out_mat(s.to_mat(order, format="csr", buffer_size=bs)))
    res["coo"] = guard(lambda: out_mat(s.to_mat(order, format="coo")))
    if c.get("bad_order"):
        return res
    opn = s.operation(wire_order=order)
    res["op"] = guard(lambda: out_mat(qp.matrix(opn, wire_order=order)))
    res["op_sparse"] = guard(lambda: out_mat(opn.sparse_matrix(wire_order=order)))
    if len(c["a"]) == 1:
        w = mkword(c["a"][0][0])
        k = cnum(c["a"][0][1])
        res["word_dense"] = guard(lambda: out_mat(w.to_mat(order, coeff=k)))
        res["word_csr"] = guard(lambda: out_mat(w.to_mat(order, format="csr", coeff=k)))
    # matrix-vector product against the dense matrix (exact dyadics)
    dense = s.to_mat(order)
    n = dense.shape[0]
    vec = np.array([complex(((3 * j) % 7) - 3, ((5 * j) % 4) - 1) for j in range(n)])
    res["dot_ok"] = guard(lambda: bool(np.array_equal(s.dot(vec, wire_order=order).ravel(), np.asarray(dense, dtype=complex) @ vec)))
    # default wire order = the sentence's own wires
    res["default_order"] = [LIDX[l] for l in s.wires]
    res["dense_default"] = guard(lambda: out_mat(s.to_mat()))
    # operator round trips
    res["ps_op"] = guard(lambda: out_sent(qp.pauli.pauli_sentence(opn)))
    res["ps_rec"] = guard(lambda: out_sent(conversion._pauli_sentence(opn)))
    # an operator built without a cached pauli representation
    def fresh():
        terms = []
        for w, k in s.items():
            fs = [pa.op_map[p](l) for l, p in w.items()] or [qp.Identity(order[0])]
            base = fs[0] if len(fs) == 1 else qp.prod(*fs)
            terms.append(qp.s_prod(k, base))
        o = terms[0] if len(terms) == 1 else qp.sum(*terms)
        return out_sent(conversion._pauli_sentence(o))
    if len(s) > 0:
        res["ps_fresh"] = guard(fresh)
    # matrix round trips (the all-zero matrix is not decomposed: see META)
    if np.any(np.asarray(dense) != 0):
        res["dec_dense"] = guard(lambda: out_sent(qp.pauli_decompose(dense, wire_order=order, pauli=True, check_hermitian=False)))
        res["dec_sparse"] = guard(lambda: out_sent(qp.pauli_decompose(sps.csr_matrix(dense), wire_order=order, pauli=True, check_hermitian=False)))
        res["dec_hide"] = guard(lambda: out_sent(qp.pauli.pauli_sentence(
            qp.pauli_decompose(dense, wire_order=order, hide_identity=True, check_hermitian=False))))
        if c.get("herm"):
            res["dec_herm"] = guard(lambda: out_sent(qp.pauli_decompose(dense, wire_order=order, pauli=True)))
            res["dec_herm_sparse"] = guard(lambda: out_sent(qp.pauli_decompose(sps.coo_matrix(dense), wire_order=order, pauli=True)))
    return res


def do_decomp(c):
    order = [LABELS[i] for i in c["order"]]
    n = 2 ** len(order)
    m = (np.array(c["re"], dtype=float) + 1j * np.array(c["im"], dtype=float)).reshape(n, n) / D
    res = {"dense": guard(lambda: out_sent(qp.pauli_decompose(m, wire_order=order, pauli=True, check_hermitian=False))),
           "sparse": guard(lambda: out_sent(qp.pauli_decompose(sps.csr_matrix(m), wire_order=order, pauli=True, check_hermitian=False)))}
    def back():
        ps = qp.pauli_decompose(m, wire_order=order, pauli=True, check_hermitian=False)
        return bool(np.array_equal(ps.to_mat(order), m)) and bool(np.array_equal(ps.to_mat(order, format="csr").toarray(), m))
    res["back_ok"] = guard(back)
    return res


out = []
for c in payload["cases"]:
    k = c["kind"]
    if k == "table":
        out.append(export_table())
    elif k == "sent":
        out.append(guard(lambda: do_sent(c)))
    elif k == "commutes":
        out.append(guard(lambda: bool(mkword(c["a"]).commutes_with(mkword(c["b"])))))
    elif k == "trace":
        def tr():
            s_ = mksent(c["a"])
            order = [LABELS[i] for i in c["worder"]]
            m = dm(s_, order)
            return {"t": cplx(s_.trace()), "mat_ok": bool(np.trace(m) == complex(s_.trace()) * m.shape[0])}
        out.append(guard(tr))
    elif k == "mat":
        out.append(guard(lambda: do_mat(c)))
    elif k == "decomp":
        out.append(guard(lambda: do_decomp(c)))
    else:
        out.append("ERR:kind")
print(json.dumps(out))
