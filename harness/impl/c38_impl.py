"""C38 driver, Part A.  Runs the real qp.metric_tensor (approx None / block-diag / diag) on formal-parameter tapes and emits
`metric_is` (certifies the Fubini-Study polynomials) and `postproc_is` (tapes + degree-2 post-processing give them)
obligations; serialises the certified polynomials for Part B."""
import sys, json, random
sys.path.insert(0, "/verif/harness")
from gradgen import *
import gradgen

req = json.load(sys.stdin)
rng = random.Random(req["seed"])
gradgen.set_rng(rng)
MT_HEADER_EXTRA = "From PLV Require Import Lin.Metric.\n"
GATES1 = ["RX", "RY", "RZ", "PhaseShift"]
GATES2 = ["IsingXX", "IsingYY", "IsingZZ", "CRZ", "CRX"]


def gen_mt_spec():
    nw = rng.choice([1, 2, 2, 3])
    nx = rng.choice([1, 2, 3])
    steps, ntrain = [], 0
    target = rng.choice([2, 3, 3, 4])
    for _ in range(rng.randint(3, 8)):
        r = rng.random()
        if r < 0.6 and ntrain < target:
            if nw >= 2 and rng.random() < 0.3:
                name, ws = rng.choice(GATES2), rng.sample(range(nw), 2)
            else:
                name, ws = rng.choice(GATES1), [rng.randrange(nw)]
            steps.append({"name": name, "wires": ws, "params": [gen_expr(nx)]})
            ntrain += 1
        elif r < 0.68:
            steps.append({"name": rng.choice(GATES1), "wires": [rng.randrange(nw)], "params": [["fix", fixed_angle()]]})
        elif r < 0.8 or nw == 1:
            steps.append({"name": rng.choice(FIXED1), "wires": [rng.randrange(nw)], "params": []})
        else:
            steps.append({"name": rng.choice(FIXED2), "wires": rng.sample(range(nw), 2), "params": []})
    if ntrain == 0:
        steps.append({"name": "RY", "wires": [0], "params": [gen_expr(nx)]})
    return {"nw": nw, "nx": nx, "steps": steps, "meas": [{"k": "expval", "word": ["Z"], "wires": [0]}]}


def g_quad(rows_r, slots_vals_index):
    c0, lin, quad = rows_r
    q = "[" + "; ".join(f"({Sym.of(c).gallina()}, ({a}%nat, {b}%nat))" for (a, b), c in sorted(quad.items())) + "]"
    l = "[" + "; ".join(f"({Sym.of(c).gallina()}, {a}%nat)" for a, c in sorted(lin.items())) + "]"
    return q, l, Sym.of(c0).gallina()


def metric_obligations(spec, ci, variants):
    tape, tp = formal_tape(spec)
    wo = list(range(spec["nw"]))
    n0 = len(wo)
    P = len(tp)
    g0 = tape_gates(tape, wo)
    st0 = sym_state(g0, n0)
    G = sym_metric(st0, P)
    obl, stats = [], {}
    for i in range(P):
        for j in range(i, P):
            obl.append((f"c{ci}_G_{i}_{j}", f"metric_is {qsym.hz()} {DCFG} {n0}%nat\n {g_circ(g0)}\n {i}%nat {j}%nat\n {G[i][j].gallina()} = true"))
    blocks = {}
    for vname, approx, kw in variants:
        try:
            gt, fn = qp.metric_tensor(tape, approx=approx, **kw)
        except Exception as e:
            stats[vname] = "rejected:" + type(e).__name__ + ":" + str(e)[:60]
            continue
        try:
            awo = list(dict.fromkeys(list(wo) + [w for t in gt for w in t.wires if w not in wo]))
            n = len(awo)
            rows, slots = quadratic_coefficients(fn, gt, rng)
            if len(rows) != P * P:
                raise NotExtractable(f"unexpected output size {len(rows)} for {P} parameters")
            ub = {(k, b): u for k, b, u in expand_batches(gt)}
            gk = {kb: tape_gates(u, awo) for kb, u in ub.items()}
            # value list = one tape per used slot
            used = sorted({a for r in rows for a in list(r[1]) + [x for ab in r[2] for x in ab]})
            pos = {a: k for k, a in enumerate(used)}
            cache, ts = {}, []
            for a in used:
                k, b, m2, i2 = slots[a]
                if (k, m2) not in cache:
                    cache[(k, m2)] = meas_components(gt[k].measurements[m2], awo)
                ts.append((gk[(k, b)], cache[(k, m2)][i2][1]))
            ts_txt = "[" + ";\n ".join(g_tape(g, o) for g, o in ts) + "]"
            zero_pat = []
            for r, row in enumerate(rows):
                i, j = divmod(r, P)
                c0, lin, quad = row
                structurally_zero = (c0 == 0.0 and not lin and not quad)
                zero_pat.append(structurally_zero)
                if vname == "full":
                    tgt = G[i][j]
                elif vname == "diag":
                    tgt = G[i][j] if i == j else Sym.of(0)
                else:
                    tgt = Sym.of(0) if structurally_zero else G[i][j]
                rr = (c0, {pos[a]: c for a, c in lin.items()}, {(pos[a], pos[b]): c for (a, b), c in quad.items()})
                q, l, c0t = g_quad(rr, None)
                obl.append((f"c{ci}_{vname}_{i}_{j}", f"postproc_is {qsym.hz()} {n}%nat\n {q}\n {l}\n {c0t}\n {ts_txt}\n {tgt.gallina()} = true"))
            blocks[vname] = [[0 if zero_pat[i * P + j] else 1 for j in range(P)] for i in range(P)]
            stats[vname] = f"ok:{len(gt)}tapes"
        except NotExtractable as e:
            stats[vname] = "notex:" + str(e)[:80]
    return obl, tp, stats, G, blocks


def main():
    out = {"obligations": [], "specs": [], "stats": {"variants": {}, "circuits": 0, "notex": 0, "reasons": {}}}
    specs = list(req.get("corpus", []))
    while len(specs) < req["n_circ"]:
        specs.append(gen_mt_spec())
    VAR = [("full", None, {"aux_wire": "aux"}), ("blockdiag", "block-diag", {}), ("diag", "diag", {})]
    for ci, spec in enumerate(specs):
        try:
            obl, tp, st, G, blocks = metric_obligations(spec, ci, VAR if ci < req.get("n_proof", len(specs)) else [])
        except NotExtractable as e:
            out["stats"]["notex"] += 1
            continue
        out["obligations"] += [(n, s2, ci) for n, s2 in obl]
        for k, v in st.items():
            key = k + ":" + v.split(":")[0]
            out["stats"]["variants"][key] = out["stats"]["variants"].get(key, 0) + 1
            if not v.startswith("ok"):
                out["stats"]["reasons"][v[:90]] = out["stats"]["reasons"].get(v[:90], 0) + 1
        out["stats"]["circuits"] += 1
        out["specs"].append({"spec": spec, "tp": tp, "G": [[ser(x) for x in row] for row in G], "blocks": blocks, "D": DCFG})
    print(json.dumps(out))


main()
