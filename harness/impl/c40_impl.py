"""C40 driver: runs histories of copy / bind_new_parameters / trainable_params= / decompose / gradient-expand on
real QuantumScript / QuantumTape objects.  JSON on stdin -> one JSON line on stdout.

Parameters are pennylane.numpy tensors with exact dyadic values and a requires_grad flag; every reported value is an
exact fraction [num, den, flag].  For expansion steps the driver also *probes* the same expansion function on
single-operator tapes to recover, per (operator name, flag pattern), the affine rule new_param = const + sum coef_i * p_i
(the decomposition rules are an oracle of the model; C40 is about the bookkeeping around them)."""
import json
import sys
import warnings
from fractions import Fraction as F

import pennylane as qp
from pennylane import numpy as pnp

warnings.filterwarnings("ignore")


def T(p):
    n, d, g = p
    return pnp.tensor(n / d, requires_grad=bool(g))


def fr(x):
    f = F(float(x))
    if f.denominator > 2 ** 24:
        raise ValueError("non-dyadic value %r" % (float(x),))
    return f


def par_out(x):
    f = fr(x)
    return [f.numerator, f.denominator, bool(qp.math.requires_grad(x))]


PAULI = {"X": qp.X, "Y": qp.Y, "Z": qp.Z}


def mk_op(name, ps, w):
    if name == "Adjoint(Rot)":
        return qp.adjoint(qp.Rot(*ps, wires=w))
    if name == "C(RY)":
        return qp.ctrl(qp.RY(ps[0], wires=w[-1]), control=w[:-1])
    if name == "Pow(RX)":
        return qp.pow(qp.RX(ps[0], wires=w), 2)
    if name == "GlobalPhase":
        return qp.GlobalPhase(*ps, wires=w)
    cls = getattr(qp, name)
    return cls(*ps, wires=w)


def mk_obs(o):
    if o is None:
        return None
    t = o["t"]
    if t == "P":
        return PAULI[o["p"]](o["w"][0])
    if t == "sprod":
        return qp.s_prod(T(o["c"][0]), PAULI[o["p"]](o["w"][0]))
    terms = [PAULI[p](w) for p, w in o["ps"]]
    cs = [T(c) for c in o["c"]]
    if t == "lc":
        return qp.Hamiltonian(cs, terms)
    if t == "sum":
        return qp.sum(*[qp.s_prod(c, p) for c, p in zip(cs, terms)])
    if t == "prod":
        return qp.prod(*[qp.s_prod(c, p) for c, p in zip(cs, terms)])
    if t == "nest":   # c0 * (c1 * P0 + P1)
        return qp.s_prod(cs[0], qp.sum(qp.s_prod(cs[1], terms[0]), terms[1]))
    raise KeyError(t)


def mk_mp(m):
    k = m["k"]
    if k == "expval":
        return qp.expval(mk_obs(m["obs"]))
    if k == "var":
        return qp.var(mk_obs(m["obs"]))
    if k == "sampleobs":
        return qp.sample(mk_obs(m["obs"]))
    if k == "probs":
        return qp.probs(wires=m["w"])
    if k == "sample":
        return qp.sample(wires=m["w"])
    if k == "state":
        return qp.state()
    raise KeyError(k)


def spec_op(s):
    return mk_op(s["n"], [T(p) for p in s["v"]], s["w"])


def mk_tape(c):
    if c["cls"] == "tape_ctx":
        with qp.tape.QuantumTape() as t:
            for s in c["ops"]:
                spec_op(s)
            for m in c["meas"]:
                mk_mp(m)
        if c["train"] is not None:
            t.trainable_params = c["train"]
        return t
    cls = qp.tape.QuantumTape if c["cls"] == "tape" else qp.tape.QuantumScript
    return cls([spec_op(s) for s in c["ops"]], [mk_mp(m) for m in c["meas"]], shots=c.get("shots"),
               trainable_params=c["train"])


def slot_out(o):
    return {"n": o.name, "d": [par_out(x) for x in o.data], "w": [int(w) for w in o.wires]}


def gp(t, **kw):
    try:
        return [par_out(x) for x in t.get_parameters(**kw)]
    except IndexError:
        return "ERR"


def obs(t):
    pin = t.par_info
    via = []
    for e in pin:
        via.append(par_out(e["op"].data[e["p_idx"]]))
    return {"cls": type(t).__name__,
            "ops": [slot_out(o) for o in t.operations],
            "meas": [{"k": type(m).__name__, "obs": None if m.obs is None else slot_out(m.obs)} for m in t.measurements],
            "train": [int(i) for i in t.trainable_params],
            "pinfo": [[int(e["op_idx"]), int(e["p_idx"])] for e in pin],
            "via": via,
            "num_params": int(t.num_params),
            "gTF": gp(t), "gTT": gp(t, operations_only=True),
            "gFF": gp(t, trainable_only=False), "gFT": gp(t, trainable_only=False, operations_only=True)}


# ------------------------------------------------------------------ expansion functions (real library code)
XDEV_SET = {"Rot", "U3", "U1", "CRot", "CRY", "CRZ", "CRX", "IsingXX", "IsingZZ", "IsingYY", "PhaseShift",
            "ControlledPhaseShift", "MultiRZ", "SingleExcitation", "PSWAP", "IsingXY", "Adjoint(Rot)"}
XT_SET = {"RX", "RY", "RZ", "CNOT", "CY", "CZ", "SWAP", "GlobalPhase", "Hadamard", "PhaseShift", "PauliX", "PauliY",
          "PauliZ", "S", "T"}


def xdev(t):
    return qp.devices.preprocess.decompose(t, stopping_condition=lambda op: op.name not in XDEV_SET, name="c40")[0][0]


def xt(t):
    return qp.transforms.decompose(t, gate_set=XT_SET)[0][0]


def xh(t):
    return qp.gradients.hadamard_grad.expand_transform(t)[0][0]


FN = {"xdev": xdev, "xt": xt, "xh": xh}
_rule_cache = {}


def probe_rule(fname, name, flags, nw):
    """affine rule of FN[fname] on a single `name` operator with requires_grad pattern `flags`:
    None (operator left alone), "unsupported", or a list of {n, ps:[[const, [coefs]]], w:[wire positions]}"""
    key = (fname, name, tuple(flags), nw)
    if key in _rule_cache:
        return _rule_cache[key]
    k = len(flags)
    fn = FN[fname]

    def run(vals):
        ps = [pnp.tensor(float(v), requires_grad=bool(g)) for v, g in zip(vals, flags)]
        t = qp.tape.QuantumScript([mk_op(name, ps, list(range(nw)))], [])
        t2 = fn(t)
        if t2 is t:
            return None
        return [(o.name, list(o.data), [int(w) for w in o.wires]) for o in t2.operations]

    def solve():
        b = [F(2 * i + 3, 8) for i in range(k)]
        f0 = run(b)
        if f0 is None:
            return None
        shape = [(n, len(d), w) for n, d, w in f0]
        cols = []
        for i in range(k):
            bi = list(b)
            bi[i] += F(1, 4)
            fi = run(bi)
            if fi is None or [(n, len(d), w) for n, d, w in fi] != shape:
                return "unsupported"
            cols.append(fi)
        res = []
        for oi, (n, d, w) in enumerate(f0):
            ps = []
            for pi, x in enumerate(d):
                v0 = fr(x)
                coefs = [(fr(cols[i][oi][1][pi]) - v0) * 4 for i in range(k)]
                const = v0 - sum(c * bb for c, bb in zip(coefs, b))
                ps.append((const, coefs))
            res.append((n, ps, w))
        c = [F(5 * i + 1, 16) for i in range(k)]
        fc = run(c)
        if fc is None or [(n, len(d), w) for n, d, w in fc] != shape:
            return "unsupported"
        for (n, ps, w), (n2, d2, w2) in zip(res, fc):
            for (const, coefs), x in zip(ps, d2):
                if const + sum(cc * v for cc, v in zip(coefs, c)) != fr(x):
                    return "unsupported"
        return [{"n": n, "ps": [[[const.numerator, const.denominator], [[c.numerator, c.denominator] for c in coefs]]
                                for const, coefs in ps], "w": w} for n, ps, w in res]

    try:
        r = solve()
    except Exception:  # builder unknown, non-dyadic constant, decomposition error ...
        r = "unsupported"
    _rule_cache[key] = r
    return r


def tape_rules(fname, t):
    out, seen = [], set()
    for o in t.operations:
        flags = [bool(qp.math.requires_grad(x)) for x in o.data]
        key = (o.name, tuple(flags))
        if key in seen:
            continue
        seen.add(key)
        r = probe_rule(fname, o.name, flags, len(o.wires))
        if r == "unsupported":
            return None
        out.append({"n": o.name, "f": flags, "r": r})
    return out


def new_ops_for(t, ou):
    ops = list(t.operations)
    if ou[0] == "drop":
        if ops:
            del ops[ou[1] % len(ops)]
        return ops
    if ou[0] == "append":
        return ops + [spec_op(ou[1])]
    if ou[0] == "rev":
        return ops[::-1]
    raise KeyError(ou[0])


def frac_idx(t, rs):
    """state-dependent index generation: r/1000 of the way through the tape's parameters"""
    n = len(t.par_info)
    return [r * n // 1000 for r in rs] if n > 0 else []


def do_step(store, s):
    """returns (status, extra dict)"""
    t = store[s["i"]]
    k = s["op"]
    if k == "copy":
        upd = {}
        if s["ou"] is not None:
            upd["operations"] = None if s["ou"][0] == "none" else new_ops_for(t, s["ou"])
        if s["mu"] is not None:
            upd["measurements"] = [mk_mp(m) for m in s["mu"]]
        tu = None
        if s["tu"] is not None:
            tu = frac_idx(t, s["tu"][1]) if s["tu"][0] == "frac" else s["tu"][1]
            upd["trainable_params"] = tu
        if s["shots"] is not None:
            upd["shots"] = s["shots"]
        n = t.copy(copy_operations=bool(s["co"]), **upd) if not s.get("dunder") else __import__("copy").copy(t)
        store.append(n)
        return "ok", {"cls_ok": type(n) is type(t), "fresh": n is not t, "tu": tu}
    if k == "bind":
        if s["mode"] == "id":      # bind the current values (the very same tensors) back
            cur = t.get_parameters(trainable_only=False)
            idx = sorted(set(frac_idx(t, s["rs"]))) if s["rs"] is not None else list(range(len(cur)))
            ps = [cur[j] for j in idx]
        else:
            idx = frac_idx(t, s["rs"]) if s["mode"] == "frac" else s["idx"]
            ps = [T(p) for p in s["ps"]]
        extra = {"idx": idx, "ps": [par_out(x) for x in ps]}
        try:
            n = t.bind_new_parameters(ps, idx)
        except (ValueError, IndexError):
            return "err", extra
        store.append(n)
        return "ok", dict(extra, cls_ok=type(n) is type(t), fresh=n is not t)
    if k == "settrain":
        l = frac_idx(t, s["rs"]) if s["mode"] == "frac" else s["l"]
        # the boundary value i == num_params (accepted by the setter's `i > num_params` test) is an error-path detail
        # outside the property: it is deliberately not exercised, so either behaviour passes
        npar = len(t.par_info)
        l = [x + 1 if x == npar else x for x in l]
        try:
            t.trainable_params = [1.5 if x == "bad" else x for x in l]
        except ValueError:
            return "err", {"l": l}
        return "ok", {"l": l}
    if k in ("decomp", "gradexp"):
        fname = s["fn"] if k == "decomp" else "xh"
        if k == "gradexp" and any(qp.math.requires_grad(d) for m in t.measurements for d in getattr(m.obs, "data", [])):
            return "skip", {"why": "obs"}     # split_to_single_terms branch: outside the model
        rules = tape_rules(fname, t)
        if rules is None:
            return "skip", {"why": "unsupported-rule"}
        n = FN[fname](t)
        if n is t:
            return "same", {"rules": rules}
        store.append(n)
        return "ok", {"rules": rules, "cls_ok": type(n) is type(t), "fresh": True,
                      "new_train": [int(i) for i in n.trainable_params]}
    raise KeyError(k)


def run_case(c):
    t0 = mk_tape(c)
    store = [t0]
    steps = []
    snaps_ok = True
    for s in c["steps"]:
        s = dict(s, i=s["i"] % len(store))     # state-dependent choice of the tape; the concrete index is reported
        before = [obs(t) for t in store]
        st, extra = do_step(store, s)
        after = [obs(t) for t in store[:len(before)]]
        mutated = s["i"] if (s["op"] == "settrain" and st == "ok") else None
        indep = all(a == b for j, (a, b) in enumerate(zip(after, before)) if j != mutated)
        if mutated is not None:      # the setter may only change the trainable view of its own tape
            a, b = after[mutated], before[mutated]
            indep = indep and all(a[f] == b[f] for f in ("ops", "meas", "pinfo", "gFF", "gFT", "via"))
        steps.append(dict(extra, st=st, indep=indep, i=s["i"]))
    return {"steps": steps, "final": [obs(t) for t in store]}


out = []
for c in json.load(sys.stdin)["cases"]:
    try:
        out.append(run_case(c))
    except Exception as e:  # noqa: BLE001 - reported, never swallowed silently
        out.append({"crash": repr(e)[:300]})
print(json.dumps(out))
