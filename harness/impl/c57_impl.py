"""C57 driver: builds each state-preparation template from a JSON case and returns
 (i) the default.qubit state after the template as a device primitive, and
 (ii) the state after op.decomposition() fully decomposed to {RX,RY,RZ,CNOT,GlobalPhase};
plus the discrete observables of BasisState / StatePrep pre-processing for the Coq tie."""
import sys, json, warnings
import numpy as np
import scipy.sparse as sps
warnings.filterwarnings("ignore")
import pennylane as qp

GATE_SET = {"RX", "RY", "RZ", "CNOT", "GlobalPhase"}


def cvec(pairs, kind="complex"):
    if kind == "int":
        return np.array([int(p[0]) for p in pairs], dtype=np.int64)
    if kind == "real":
        return np.array([float(p[0]) for p in pairs], dtype=float)
    return np.array([complex(p[0], p[1]) for p in pairs], dtype=complex)


def cnum(p):
    if p is None:
        return None
    return float(p[0]) if p[1] == 0 else complex(p[0], p[1])


def vec_out(a):
    a = np.asarray(a).reshape(-1)
    return [[float(np.real(x)), float(np.imag(x))] for x in a]


def build(c):
    """returns (thunk creating the operator, list of all wires in canonical order: targets then auxiliaries)"""
    t, W = c["t"], c["wires"]
    if t in ("StatePrep", "AmplitudeEmbedding"):
        st = cvec(c["state"], c.get("kind", "complex"))
        if c.get("sparse"):
            st = sps.csr_matrix(st)
        kw = dict(c.get("kw", {}))
        if "pad_with" in kw:
            kw["pad_with"] = cnum(kw["pad_with"])
        return (lambda: getattr(qp, t)(st, wires=W, **kw)), list(W)
    if t in ("MottonenStatePreparation", "MultiplexerStatePreparation"):
        st = cvec(c["state"], c.get("kind", "complex"))
        return (lambda: getattr(qp, t)(st, wires=W)), list(W)
    if t in ("BasisState", "BasisEmbedding"):
        bits = c["bits"]
        if c.get("as_array"):
            bits = np.array(bits)
        return (lambda: getattr(qp, t)(bits, wires=W)), list(W)
    if t == "CosineWindow":
        return (lambda: qp.CosineWindow(wires=W)), list(W)
    if t == "Superposition":
        co = cvec(c["coeffs"], c.get("kind", "complex"))
        return (lambda: qp.Superposition(co, c["bases"], W, c["work_wire"])), list(W) + [c["work_wire"]]
    if t == "QROMStatePreparation":
        st = cvec(c["state"], c.get("kind", "complex"))
        ww = c["work_wires"]
        return (lambda: qp.QROMStatePreparation(st, W, c["precision_wires"], ww if ww else None)), list(W) + list(c["precision_wires"]) + list(ww)
    if t == "MPSPrep":
        mps = [np.array(A["re"]) + (1j * np.array(A["im"]) if c.get("kind") != "real" else 0) for A in c["mps"]]
        return (lambda: qp.MPSPrep(mps, W, c["work_wires"], right_canonicalize=c["right_canonicalize"])), list(W) + list(c["work_wires"])
    if t == "SumOfSlatersPrep":
        co = cvec(c["coeffs"], c.get("kind", "complex"))
        regs = c.get("regs") or {}
        if regs == "AUTO":
            # explicit work registers sized with the documented public helper
            sizes = qp.SumOfSlatersPrep.required_register_sizes(tuple(c["indices"]), len(W))
            style = c.get("aux_style", "str")
            regs, nxt = {}, 40
            for k in ("enumeration_wires", "identification_wires", "qrom_work_wires", "mcx_cache_wires"):
                regs[k] = [f"{k[:2]}{i}" for i in range(sizes[k])] if style == "str" else list(range(nxt, nxt + sizes[k]))
                nxt += sizes[k]
            c["regs_used"] = regs
        aux = sum((list(regs[k]) for k in ("enumeration_wires", "identification_wires", "qrom_work_wires", "mcx_cache_wires") if k in regs), [])
        return (lambda: qp.SumOfSlatersPrep(co, W, tuple(c["indices"]), **regs)), list(W) + aux
    if t == "PartialUnaryStatePreparation":
        co = cvec(c["coeffs"], c.get("kind", "complex"))
        return (lambda: qp.PartialUnaryStatePreparation(co, W, tuple(c["indices"]), c["work_wires"])), list(W) + list(c["work_wires"])
    raise KeyError(t)


def run_prep(c):
    out = {}
    try:
        mk, allw = build(c)
        op = mk()
    except Exception as e:  # construction refused
        return {"build_err": f"{type(e).__name__}: {str(e)[:200]}"}
    order = c.get("order") or list(allw)
    if c.get("perm_seed") is not None:
        import random
        random.Random(c["perm_seed"]).shuffle(order)
    if "regs_used" in c:
        out["regs_used"] = c["regs_used"]
    out["order_used"] = order
    if c.get("dyn"):
        # dynamically allocated work wires: only the reduced state of the target wires is observable
        try:
            dev = qp.device("default.qubit")

            @qp.qnode(dev)
            def circ():
                mk()
                return qp.density_matrix(wires=c["wires"])
            rho = np.asarray(circ())
            out["rho"] = [vec_out(r) for r in rho]
        except Exception as e:
            out["dev_err"] = f"{type(e).__name__}: {str(e)[:300]}"
        return out
    try:
        dev = qp.device("default.qubit", wires=order)

        @qp.qnode(dev)
        def circ():
            mk()
            if c.get("sv"):     # touch the spectator wires (X X = I) so that the preparation is embedded in the full register
                for w in order:
                    if w not in allw:
                        qp.X(w)
                        qp.X(w)
            return qp.state()
        out["dev"] = vec_out(circ())
        if c.get("sv"):
            out["sv"] = vec_out(np.asarray(op.state_vector(wire_order=order)).reshape(-1))
    except Exception as e:
        out["dev_err"] = f"{type(e).__name__}: {str(e)[:300]}"
    try:
        tape = qp.tape.QuantumScript(op.decomposition(), [qp.state()])
        out["first_level"] = sorted({o.name for o in tape.operations})
        (t2,), _ = qp.transforms.decompose(tape, gate_set=GATE_SET)
        names = sorted({o.name for o in t2.operations})
        out["gates"], out["n_ops"] = names, len(t2.operations)
        if not set(names) <= GATE_SET:
            out["dec_err"] = "NotInGateSet: " + ",".join(names)
        else:
            dev = qp.device("default.qubit", wires=order)
            out["dec"] = vec_out(qp.execute([t2], dev)[0])
    except Exception as e:
        out["dec_err"] = f"{type(e).__name__}: {str(e)[:300]}"
    # (iii) the decomposition rules registered for the graph-based decomposition system (add_decomps)
    try:
        qp.decomposition.enable_graph()
        tape = qp.tape.QuantumScript([op], [qp.state()])
        (t3,), _ = qp.transforms.decompose(tape, gate_set=GATE_SET)
        names = sorted({o.name for o in t3.operations})
        if not set(names) <= GATE_SET:
            out["gr_err"] = "NotInGateSet: " + ",".join(names)
        else:
            extra = [w for w in t3.wires if w not in order]
            out["gr_order"] = list(order) + [str(w) for w in extra]
            dev = qp.device("default.qubit", wires=list(order) + extra)
            out["gr"] = vec_out(qp.execute([t3], dev)[0])
            out["gr_n_ops"] = len(t3.operations)
    except Exception as e:
        out["gr_err"] = f"{type(e).__name__}: {str(e)[:300]}"
    finally:
        qp.decomposition.disable_graph()
    return out


def run_basis(c):
    """discrete observables of BasisState for the Coq tie"""
    n = len(c["wires"])
    if c["mode"] == "int2bin":
        b = qp.math.int_to_binary(int(c["k"]), int(c["width"]))
        return {"bits": [int(x) for x in b]}
    try:
        st = c["state"]
        if c["mode"] == "scalar":
            st = int(c["state"])
        op = qp.BasisState(st, wires=c["wires"])
    except (ValueError, TypeError) as e:
        return "ERR"
    ops = op.decomposition()
    xs = []
    for o in ops:
        if o.name not in ("PauliX", "X") or len(o.wires) != 1:
            return {"bad_gate": o.name}
        xs.append(o.wires[0])
    sv = np.asarray(op.state_vector(wire_order=c["order"])).reshape(-1)
    nz = [int(i) for i in np.nonzero(sv)[0]]
    ok = len(nz) == 1 and abs(sv[nz[0]] - 1) == 0
    return {"x_wires": xs, "sv_index": nz[0] if ok else -1, "sv_len": int(sv.size)}


def run_pre(c):
    """StatePrep / AmplitudeEmbedding pre-processing on rational inputs (floats of exact rationals)"""
    from fractions import Fraction
    f = lambda s: float(Fraction(s))
    st = np.array([complex(f(p[0]), f(p[1])) for p in c["state"]])
    if c["kind"] == "real":
        st = np.real(st).astype(float)
    elif c["kind"] == "int":
        st = np.real(st).astype(np.int64)
    kw = {"normalize": c["normalize"], "validate_norm": c["validate_norm"]}
    if c["pad_with"] is not None:
        p = complex(f(c["pad_with"][0]), f(c["pad_with"][1]))
        kw["pad_with"] = p if (c["kind"] == "complex" or p.imag != 0) else p.real
    W = list(range(c["n"]))
    if c["sparse"]:
        st = sps.csr_matrix(st)
    try:
        cls = qp.AmplitudeEmbedding if c["cls"] == "AmplitudeEmbedding" else qp.StatePrep
        if c["cls"] == "StatePrepDefault":
            kw.pop("validate_norm")
        op = cls(st, wires=W, **kw)
    except (ValueError, NotImplementedError) as e:
        return "ERR"
    v = op.parameters[0]
    v = np.asarray(v.toarray()).reshape(-1) if sps.issparse(v) else np.asarray(v).reshape(-1)
    if not np.all(np.isfinite(v)):
        return "NAN"
    # exact dyadic values of the floats
    return {"out": [[str(Fraction(float(np.real(x)))), str(Fraction(float(np.imag(x))))] for x in v]}


import time
req = json.load(sys.stdin)
timing = {}


class CaseTimeout(BaseException):
    pass


def _alarm(signum, frame):
    raise CaseTimeout()


import signal, resource
signal.signal(signal.SIGALRM, _alarm)
try:   # a broken implementation must not exhaust the machine: cap the address space of this process
    resource.setrlimit(resource.RLIMIT_AS, (12 * 2 ** 30, 12 * 2 ** 30))
except (ValueError, OSError):
    pass
CASE_TIMEOUT = int(req.get("case_timeout", 90))


def timed(c):
    t0 = time.time()
    signal.alarm(CASE_TIMEOUT)
    try:
        r = run_prep(c)
    except CaseTimeout:
        r = {"dev_err": f"Timeout: no result within {CASE_TIMEOUT}s", "dec_err": "Timeout", "gr_err": "Timeout"}
    except MemoryError:
        r = {"dev_err": "MemoryError", "dec_err": "MemoryError", "gr_err": "MemoryError"}
    finally:
        signal.alarm(0)
    timing[c["t"]] = round(timing.get(c["t"], 0.0) + time.time() - t0, 2)
    return r


t0 = time.time()
res = {"prep": [timed(c) for c in req.get("prep", [])],
       "basis": [run_basis(c) for c in req.get("basis", [])],
       "pre": [run_pre(c) for c in req.get("pre", [])],
       "present": {n: hasattr(qp, n) for n in req.get("names", [])}}
res["timing"] = timing
print(json.dumps(res))
