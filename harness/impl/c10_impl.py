"""Tie X for C10/C11: symbolic execution of every registered decomposition rule on the catalogue of
operator instances; writes self-contained Coq obligations; also runs the numeric statement of C10."""
import sys, json, random, time, collections, math
sys.path.insert(0, "/verif/harness")
from qrules import *

req = json.load(sys.stdin)
tier, seed, outdir = req["tier"], req["seed"], req["outdir"]
rng = random.Random(seed)
t0 = time.time()
items = []
oblig = []
for label, nv, f in catalog(tier) + (catalog(tier, labels="str")[::7] if tier != "quick" else catalog(tier, labels="str")[::23]):
    op, mats, res = extract_op(label, nv, f, rng)
    if op is None or mats is None:
        items.append({"label": label, "rule": "-", "status": "construct-failed", "detail": str(res)[:200]})
        continue
    # numeric statement on the implementation (all applicable rules, extractable or not)
    rules = {getattr(r, "name", str(r))[:60]: r for r in rules_for(op)}
    for ex in res:
        it = {"label": label, "rule": ex.rule, "status": ex.status, "detail": ex.detail[:300], "nvars": nv}
        items.append(it)
        if ex.status in ("inapplicable", "mcm"):
            continue
        # numeric sweep
        pts = [[rng.uniform(-7, 7) for _ in range(max(nv, 1))] for _ in range(req.get("npts", 2))]
        pts += [[0.0] * max(nv, 1), [math.pi, 2 * math.pi, -math.pi][:max(nv, 1)] + [0.0] * max(0, nv - 3)]
        rule = rules.get(ex.rule)
        fails = []
        for th in pts if nv else pts[:1]:
            try:
                r = numeric_rule_check(op, rule, th)
            except Exception as e:
                r = None
                it.setdefault("numeric_errors", []).append(f"{type(e).__name__}: {str(e)[:120]}")
            if r:
                fails.append(r)
        it["numeric_points"] = len(pts) if nv else 1
        it["numeric_fail"] = fails[:2]
        if ex.status == "ok":
            hzv = ex.N // 2
            circ = "[" + ";\n  ".join(g_gate(w, S) for w, S in ex.gates) + "]"
            M = g_mat(mats[(ex.N, ex.D)])
            cols = f"(cols_zero_on {ex.n}%nat {g_nats(ex.cols_zero)})" if ex.cols_explicit is None else g_nats(ex.cols_explicit)
            name = f"ob_{len(oblig)}"
            stmt = f"cols_ok {hzv}%Z {ex.n}%nat\n  {circ}\n  {g_nats(ex.op_idx)}\n  {M}\n  {cols} = true"
            it["lemma"] = name
            it["cfg"] = [ex.N, ex.D]
            it["n_wires"] = ex.n
            it["n_gates"] = len(ex.gates)
            oblig.append({"name": name, "stmt": stmt, "hz": hzv, "D": ex.D, "label": label, "rule": ex.rule})
json.dump(oblig, open(outdir + "/obligations.json", "w"))
print(json.dumps({"items": items, "n_oblig": len(oblig), "wall": time.time() - t0}))
