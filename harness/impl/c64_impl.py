"""C64 driver: runs histories of qp.data.Dataset operations on temporary HDF5 files / in-memory groups.

stdin : {"cases": [{"kinds": ["file"|"mem", ...], "ops": [...]}, ...], "probes": bool}
stdout: one JSON line {"obs": [...], "opaque_ids": {spec_json: id}, "probes": {...}}
Values travel as tagged JSON (see conv_in / conv_out); floats are exact dyadics [m, e] = m * 2**e.
"""
import hashlib
import json
import math
import os
import sys
import tempfile
import warnings

warnings.filterwarnings("ignore")

import h5py
import numpy as np
import scipy.sparse as sp

import pennylane as qp
from pennylane import numpy as pnp
from pennylane.core.operator import Operator
from pennylane.data import Dataset
from pennylane.data.attributes import DatasetDict, DatasetList

MODELLED = {"none", "scalar", "string", "array", "list", "tuple", "dict", "dataset"}
OPAQUE = {"pytree", "operator", "sparse_array", "molecule", "json"}


# ------------------------------------------------------------------ numbers
def dy(x):
    """exact dyadic [m, e] of a finite float"""
    x = float(x)
    num, den = x.as_integer_ratio()
    e = -(den.bit_length() - 1)
    if num == 0:
        return [0, 0]
    while num % 2 == 0:
        num //= 2
        e += 1
    return [num, e]


def undy(p):
    return math.ldexp(p[0], p[1])


def num_out(x, kind):
    if kind == "b":
        return bool(x)
    if kind in "iu":
        return int(x)
    if kind == "f":
        return dy(x)
    if kind == "c":
        return [dy(x.real), dy(x.imag)]
    raise TypeError(kind)


def num_in(n, dt):
    k = np.dtype(dt).kind
    if k == "b":
        return bool(n)
    if k in "iu":
        return int(n)
    if k == "f":
        return undy(n)
    return complex(undy(n[0]), undy(n[1]))


# ------------------------------------------------------------------ opaque values (tie-only)
OPQ = {}         # id -> original python object
OPQ_IDS = {}     # spec json -> id

GATES1 = {"RX": qp.RX, "RY": qp.RY, "RZ": qp.RZ, "PhaseShift": qp.PhaseShift}
GATES0 = {"X": qp.X, "Y": qp.Y, "Z": qp.Z, "H": qp.Hadamard, "S": qp.S, "T": qp.T}


def build_op(s):
    k = s["g"]
    if k in GATES1:
        return GATES1[k](undy(s["p"]), wires=s["w"][0])
    if k in GATES0:
        return GATES0[k](s["w"][0])
    if k == "CNOT":
        return qp.CNOT(wires=s["w"][:2])
    if k == "Rot":
        return qp.Rot(*[undy(p) for p in s["ps"]], wires=s["w"][0])
    if k == "IsingXX":
        return qp.IsingXX(undy(s["p"]), wires=s["w"][:2])
    if k == "prod":
        return qp.prod(*[build_op(t) for t in s["ops"]])
    if k == "sum":
        return qp.sum(*[build_op(t) for t in s["ops"]])
    if k == "sprod":
        return qp.s_prod(undy(s["p"]), build_op(s["ops"][0]))
    if k == "ham":
        return qp.Hamiltonian([undy(c) for c in s["cs"]], [build_op(t) for t in s["ops"]])
    raise ValueError(k)


def build_opaque(s):
    kind = s["kind"]
    if kind == "op":
        return build_op(s["spec"])
    if kind == "sparse":
        d = s["spec"]
        dense = np.array([[num_in(x, d["d"]) for x in row] for row in d["rows"]], dtype=d["d"])
        return getattr(sp, d["cls"])(dense)
    if kind == "mol":
        d = s["spec"]
        return qp.qchem.Molecule(d["symbols"], np.array([[undy(x) for x in r] for r in d["coords"]]),
                                 charge=d.get("charge", 0), mult=d.get("mult", 1))
    raise ValueError(kind)


def opaque_equal(a, b):
    try:
        if isinstance(b, Operator):
            return type(a) is type(b) and bool(qp.equal(a, b))
        if sp.issparse(b):
            return (type(a) is type(b) and a.dtype == b.dtype and a.shape == b.shape
                    and (sp.csr_array(a) != sp.csr_array(b)).nnz == 0)
        if isinstance(b, qp.qchem.Molecule):
            ok = type(a) is type(b) and list(a.symbols) == list(b.symbols)
            ok = ok and np.array_equal(np.asarray(a.coordinates), np.asarray(b.coordinates))
            ok = ok and int(a.charge) == int(b.charge) and int(a.mult) == int(b.mult)
            ok = ok and str(a.basis_name) == str(b.basis_name)
            ok = ok and [tuple(int(t) for t in x) for x in a.l] == [tuple(int(t) for t in x) for x in b.l]
            ok = ok and all(np.array_equal(np.asarray(x), np.asarray(y)) for x, y in zip(a.alpha, b.alpha))
            ok = ok and all(np.array_equal(np.asarray(x), np.asarray(y)) for x, y in zip(a.coeff, b.coeff))
            ok = ok and len(a.alpha) == len(b.alpha) and len(a.coeff) == len(b.coeff)
            return bool(ok)
        return bool(qp.equal(a, b))
    except Exception:  # comparison itself failed: not equal
        return False


# ------------------------------------------------------------------ h5py structure dump
def attr_py(v):
    if isinstance(v, bytes):
        return v.decode()
    if isinstance(v, np.generic):
        return v.item()
    if isinstance(v, np.ndarray):
        return v.tolist()
    return v


def payload_out(o):
    if o.shape is None:
        return {"empty": o.dtype.name}
    if o.dtype.kind == "O" or h5py.check_string_dtype(o.dtype) is not None:
        raw = o[()]
        if isinstance(raw, bytes):
            return {"str": raw.decode("utf-8")}
        return {"weird": str(o.dtype)}
    k = o.dtype.kind
    if k not in "biufc":
        return {"weird": str(o.dtype)}
    arr = np.asarray(o[()])
    return {"dt": o.dtype.name, "shape": list(o.shape), "data": [num_out(x, k) for x in arr.reshape(-1)]}


def raw_dump(o, top=False):
    """canonical full dump (used for the digest of opaque sub-trees).  The py_type of the root is
    left out: `ds.x = v` and `ds.x = attribute(v)` legitimately record different spellings of it
    (scipy.sparse.csr_matrix vs scipy.sparse._csr.csr_matrix)."""
    at = {k: attr_py(v) for k, v in o.attrs.items() if not (top and k == "qp.data.py_type")}
    if isinstance(o, h5py.Group):
        return ["G", at, [[k, raw_dump(o[k])] for k in o.keys()]]
    if o.shape is None:
        return ["E", at, o.dtype.name]
    v = o[()]
    if isinstance(v, bytes):
        return ["S", at, v.decode("utf-8", "replace")]
    a = np.asarray(v)
    if a.dtype.kind in "SOV":
        return ["B", at, str(a.dtype.kind), list(a.shape), repr(a.tolist())]
    return ["D", at, a.dtype.name, list(a.shape), [num_out(x, a.dtype.kind) for x in a.reshape(-1)]]


def digest(o):
    h = hashlib.sha1(json.dumps(raw_dump(o, True), sort_keys=True, default=str).encode()).hexdigest()
    return int(h[:12], 16)


def tree_out(o):
    at = {k: attr_py(v) for k, v in o.attrs.items()}
    tid = at.get("qp.data.type_id")
    if tid in OPAQUE:
        return {"opaque": digest(o)}
    if tid not in MODELLED:
        return {"bad": "type_id=" + repr(tid)}
    known = {"qp.data.type_id", "qp.data.py_type", "qp.data.array_interface", "qp.data.requires_grad",
             "qp.__data_len__"}
    if tid == "dataset":
        known |= {"qp.data.data_name", "qp.data.identifiers"}
    r = {"tid": tid, "py": at.get("qp.data.py_type"), "if": at.get("qp.data.array_interface"),
         "rg": at.get("qp.data.requires_grad"), "extra": sorted(k for k in at if k not in known),
         "len_attr": at.get("qp.__data_len__"),
         "n_info": sum(1 for k in at if ".data." in k)}
    if isinstance(o, h5py.Group):
        r["ch"] = [[k, tree_out(o[k])] for k in o.keys()]
    else:
        r["payload"] = payload_out(o)
    return r


def store_out(g):
    return [[k, tree_out(g[k])] for k in g.keys()]


# ------------------------------------------------------------------ values in / out
def conv_in(v):
    t = v["t"]
    if t == "none":
        return None
    if t == "bool":
        return bool(v["v"])
    if t == "int":
        return int(v["v"])
    if t == "float":
        return undy(v["v"])
    if t == "complex":
        return complex(undy(v["v"][0]), undy(v["v"][1]))
    if t == "np":
        return np.dtype(v["d"]).type(num_in(v["n"], v["d"]))
    if t == "str":
        return v["v"]
    if t == "array":
        a = np.array([num_in(x, v["d"]) for x in v["data"]], dtype=v["d"]).reshape(v["shape"])
        if v["if"] == "autograd":
            a = pnp.array(a, requires_grad=bool(v["rg"]))
        return a
    if t == "list":
        return [conv_in(x) for x in v["v"]]
    if t == "tuple":
        return tuple(conv_in(x) for x in v["v"])
    if t == "dict":
        return {k: conv_in(x) for k, x in v["v"]}
    if t == "dataset":
        d = Dataset()
        for k, x in v["v"]:
            setattr(d, k, conv_in(x))
        return d
    if t == "opaque":
        key = json.dumps(v, sort_keys=True)
        obj = build_opaque(v)
        if key not in OPQ_IDS:
            tmp = Dataset()
            tmp.x = obj
            i = digest(tmp.bind["x"])
            OPQ_IDS[key] = i
            OPQ[i] = build_opaque(v)
            tmp.close()
        return obj
    raise ValueError(t)


def conv_out(v, h):
    """python value read through the Dataset API (with its HDF5 object h alongside) -> tagged JSON"""
    tid = attr_py(h.attrs.get("qp.data.type_id", None)) if h is not None else None
    if tid in OPAQUE:
        i = digest(h)
        return {"t": "opaque", "id": i, "eq": bool(i in OPQ and opaque_equal(v, OPQ[i]))}
    if v is None:
        return {"t": "none"}
    if isinstance(v, Dataset):
        return {"t": "dataset", "v": [[k, conv_out(getattr(v, k), v.bind[k])] for k in v.list_attributes()]}
    if isinstance(v, (DatasetList, list)):
        lazy = isinstance(v, DatasetList)
        return {"t": "list", "lazy": lazy, "v": [conv_out(x, h[str(i)] if h is not None else None) for i, x in enumerate(v)]}
    if isinstance(v, tuple):
        return {"t": "tuple", "v": [conv_out(x, h[str(i)] if h is not None else None) for i, x in enumerate(v)]}
    if isinstance(v, (DatasetDict, dict)):
        return {"t": "dict", "v": [[k, conv_out(v[k], h[k] if h is not None else None)] for k in v]}
    if isinstance(v, str):
        return {"t": "str", "v": v}
    if isinstance(v, pnp.tensor):
        a = np.asarray(v)
        return {"t": "array", "if": "autograd", "rg": bool(v.requires_grad), "d": a.dtype.name,
                "shape": list(a.shape), "data": [num_out(x, a.dtype.kind) for x in a.reshape(-1)]}
    if isinstance(v, np.ndarray):
        if v.dtype.kind not in "biufc":
            return {"t": "other", "repr": repr(v)[:80]}
        return {"t": "array", "if": "numpy", "rg": None, "d": v.dtype.name, "shape": list(v.shape),
                "data": [num_out(x, v.dtype.kind) for x in v.reshape(-1)]}
    if isinstance(v, np.generic):
        if v.dtype.kind not in "biufc":
            return {"t": "other", "repr": repr(v)[:80]}
        return {"t": "np", "d": v.dtype.name, "n": num_out(v, v.dtype.kind)}
    if isinstance(v, bool):
        return {"t": "bool", "v": v}
    if isinstance(v, int):
        return {"t": "int", "v": v}
    if isinstance(v, float):
        return {"t": "float", "v": dy(v)}
    if isinstance(v, complex):
        return {"t": "complex", "v": [dy(v.real), dy(v.imag)]}
    return {"t": "other", "repr": repr(v)[:80]}


def values_out(ds):
    out = []
    for k in ds.list_attributes():
        try:
            a = conv_out(getattr(ds, k), ds.bind[k])
            # the eager view (copy_value) must agree with the lazy one
            b = conv_out(ds.attrs[k].copy_value(), ds.bind[k])
            if strip_lazy(a) != strip_lazy(b):
                a = {"t": "other", "repr": "lazy view and copy_value() differ"}
        except Exception as e:  # reading failed
            a = {"t": "other", "repr": f"read raised {type(e).__name__}: {e}"[:160]}
        out.append([k, a])
    return out


def strip_lazy(j):
    if isinstance(j, dict):
        return {k: strip_lazy(v) for k, v in j.items() if k != "lazy"}
    if isinstance(j, list):
        return [strip_lazy(x) for x in j]
    return j


# ------------------------------------------------------------------ histories
class World:
    def __init__(self, kinds, tmp):
        self.kinds = kinds
        self.paths = [os.path.join(tmp, f"ds{i}.h5") if k == "file" else None for i, k in enumerate(kinds)]
        self.mem = [None if k == "file" else Dataset() for k in kinds]
        for p in self.paths:
            if p:
                Dataset.open(p, "w").close()

    def opened(self, i, mode):
        if self.kinds[i] == "file":
            return Dataset.open(self.paths[i], mode)
        return self.mem[i]

    def done(self, i, ds):
        if self.kinds[i] == "file":
            ds.close()


def run_op(w, o):
    op = o["op"]
    if op == "init":       # Dataset(**attrs).write(path, mode="w") on a fresh file
        d = Dataset(**{k: conv_in(v) for k, v in o["kv"]})
        if w.kinds[o["i"]] == "file":
            d.write(w.paths[o["i"]], mode="w")
            d.close()
        else:
            w.mem[o["i"]] = d
        return
    if op in ("set", "put", "del"):
        val = conv_in(o["v"]) if op != "del" else None
        ds = w.opened(o["i"], "a")
        try:
            if op == "set":
                setattr(ds, o["k"], val)
            elif op == "put":
                setattr(ds, o["k"], qp.data.attribute(val))
            else:
                delattr(ds, o["k"])
        finally:
            w.done(o["i"], ds)
        return
    if op == "write":
        src_i, dst_i, via = o["src"], o["dst"], o["via"]
        keys = o["keys"] or None
        if via == "read":     # dst.read(<path of src>)
            dst = w.opened(dst_i, "a")
            try:
                dst.read(w.paths[src_i], attributes=keys, overwrite=o["ov"])
            finally:
                w.done(dst_i, dst)
            return
        src = w.opened(src_i, "r")
        try:
            if via == "path":
                src.write(w.paths[dst_i], mode="a", attributes=keys, overwrite=o["ov"])
            else:
                dst = w.opened(dst_i, "a")
                try:
                    src.write(dst, attributes=keys, overwrite=o["ov"])
                finally:
                    w.done(dst_i, dst)
        finally:
            w.done(src_i, src)
        return
    if op == "snap":
        w.mem[o["dst"]] = Dataset.open(w.paths[o["src"]], "copy")
        return
    if op == "reopen":
        ds = w.opened(o["i"], "r")
        try:
            ds.list_attributes()
        finally:
            w.done(o["i"], ds)
        return
    raise ValueError(op)


def run_case(c):
    with tempfile.TemporaryDirectory(prefix="c64_") as tmp:
        w = World(c["kinds"], tmp)
        sts = []
        for o in c["ops"]:
            try:
                run_op(w, o)
                sts.append("ok")
            except Exception as e:  # canonical: Ok / Err only
                sts.append("err")
        trees, vals, roots = [], [], []
        for i in range(len(c["kinds"])):
            ds = w.opened(i, "r")
            try:
                trees.append(store_out(ds.bind))
                vals.append(values_out(ds))
                roots.append({k: attr_py(v) for k, v in ds.bind.attrs.items()})
            finally:
                w.done(i, ds)
        for m in w.mem:
            if m is not None:
                try:
                    m.close()
                except Exception:
                    pass
        return {"sts": sts, "trees": trees, "vals": vals, "roots": roots}


def run_probes():
    """fixed probes of corner cases that are outside the generated grammar"""
    out = {}
    d = Dataset()
    try:
        d.x = {"a/b": 1}
        out["dict_key_slash"] = strip_lazy(conv_out(d.attrs["x"].copy_value(), d.bind["x"]))
    except Exception as e:
        out["dict_key_slash"] = f"raised {type(e).__name__}: {e}"
    return out


def main():
    inp = json.load(sys.stdin)
    # register opaque ids first so that the harness can print the model terms
    obs = [run_case(c) for c in inp["cases"]]
    res = {"obs": obs, "opaque_ids": OPQ_IDS}
    if inp.get("probes"):
        res["probes"] = run_probes()
    print(json.dumps(res))


main()
