"""Runs the real PennyLane optimizers on the JSON cases from stdin; prints one JSON line of observations.

payload = {"cases": [...gradient optimizers...], "roto": [...Rotosolve / Rotoselect cases...]}
Numbers of the gradient-optimizer cases travel as [numerator, denominator] of the exact value of the float.
"""
import json
import math
import sys
from fractions import Fraction

import numpy as onp
import pennylane as qp
from pennylane import numpy as np

KINDS = {"GD": qp.GradientDescentOptimizer, "Momentum": qp.MomentumOptimizer,
         "Nesterov": qp.NesterovMomentumOptimizer, "Adagrad": qp.AdagradOptimizer,
         "RMSProp": qp.RMSPropOptimizer, "Adam": qp.AdamOptimizer}


def fl(p):
    return float(Fraction(p[0], p[1]))


def fr(x):
    n, d = Fraction(float(x)).as_integer_ratio()
    return [n, d]


def make_opt(kind, h):
    e, g, b2, eps = fl(h["eta"]), fl(h["gam"]), fl(h["beta2"]), fl(h["eps"])
    if kind == "GD":
        return qp.GradientDescentOptimizer(e)
    if kind == "Momentum":
        return qp.MomentumOptimizer(e, g)
    if kind == "Nesterov":
        return qp.NesterovMomentumOptimizer(e, g)
    if kind == "Adagrad":
        return qp.AdagradOptimizer(e, eps)
    if kind == "RMSProp":
        return qp.RMSPropOptimizer(e, g, eps)
    return qp.AdamOptimizer(e, g, b2, eps)


def make_obj(o):
    A = onp.array([[fl(x) for x in row] for row in o["A"]], dtype=float).reshape(len(o["b"]), len(o["b"]))
    b = onp.array([fl(x) for x in o["b"]], dtype=float)
    c = fl(o["c"])

    def obj(*args):
        z = np.concatenate([np.reshape(a, (-1,)) for a in args])
        return np.dot(z, np.dot(A, z)) + np.dot(b, z) + c

    def grad_fn(*args):
        z = onp.concatenate([onp.reshape(onp.asarray(a, dtype=float), (-1,)) for a in args])
        g = A @ z + A.T @ z + b
        out, pos = [], 0
        for a in args:
            n = int(onp.size(a))
            if getattr(a, "requires_grad", False):
                out.append(onp.reshape(g[pos:pos + n], onp.shape(a)))
            pos += n
        return out[0] if len(out) == 1 else tuple(out)

    return obj, grad_fn


def enc_vec(e):
    """accumulator entry: the python scalar 0 / 0.0 of a fresh list -> [], arrays -> flat list"""
    if type(e) in (int, float):
        return [] if e == 0 else [fr(e)]
    return [fr(v) for v in onp.reshape(onp.asarray(e, dtype=float), (-1,))]


def enc_state(kind, opt):
    if kind == "GD":
        return None
    acc = opt.accumulation
    if acc is None:
        return None
    if kind == "Adam":
        return {"t": int(acc["t"]), "a1": [enc_vec(e) for e in acc["fm"]], "a2": [enc_vec(e) for e in acc["sm"]]}
    return {"t": 0, "a1": [enc_vec(e) for e in acc], "a2": [[] for _ in acc]}


def run_case(c):
    opt = make_opt(c["kind"], c["hyper"])
    args = [np.array(onp.array([fl(v) for v in a["vals"]], dtype=float).reshape(a["shape"]), requires_grad=bool(a["rg"]))
            for a in c["args"]]
    objs = [make_obj(o) for o in c["objs"]]
    out = []
    for call in c["calls"]:
        cost = None
        if call[0] == "reset":
            opt.reset()
            new = args
        else:
            obj, gfn = objs[call[2]]
            kw = {} if call[1] else {"grad_fn": gfn}
            if call[0] == "step":
                new = opt.step(obj, *args, **kw)
            else:
                new, cost = opt.step_and_cost(obj, *args, **kw)
                cost = fr(cost)
            if len(args) == 1:
                new = [new]
        if len(new) != len(args):
            raise ValueError("number of returned arguments changed")
        out.append({"args": [{"rg": bool(getattr(n, "requires_grad", False)),
                              "vals": [fr(v) for v in onp.reshape(onp.asarray(n, dtype=float), (-1,))],
                              "shape": list(onp.shape(n)), "same": n is a}
                             for n, a in zip(new, args)],
                    "cost": cost, "state": enc_state(c["kind"], opt)})
        args = list(new)
    return out


# ------------------------------------------------------------------ Rotosolve / Rotoselect
def sinusoid_sum(terms, const, z):
    """sum_t amp_t * prod_j sin(z[j] + phi_tj) + const ; terms = [[amp, [[j, phi], ...]], ...]"""
    s = const
    for amp, fac in terms:
        p = amp
        for j, phi in fac:
            p = p * np.sin(z[j] + phi)
        s = s + p
    return s


def run_roto(c):
    if c["type"] == "min_analytic":
        A, phi, C, f = c["A"], c["phi"], c["C"], c["freq"]
        fun = lambda t: A * math.sin(f * t + phi) + C
        f0 = fun(0.0) if c["give_f0"] else None
        x, y = qp.RotosolveOptimizer.min_analytic(fun, f, f0)
        return {"x": float(x), "y": float(y)}
    if c["type"] == "rotosolve":
        nx = c["nx"]

        def f(x, d, y):
            z = [x[i] for i in range(nx)] + [y] + [d[0]]
            return sinusoid_sum(c["terms"], c["const"], z)
        x = np.array(c["x"], requires_grad=True)
        d = np.array(c["d"], requires_grad=False)
        y = np.array(c["y"], requires_grad=True)
        opt = qp.RotosolveOptimizer()
        nf = {"x": {(i,): 1 for i in range(nx)}, "y": {(): 1}}
        if c["sc"]:
            new, cost, ys = opt.step_and_cost(f, x, d, y, nums_frequency=nf, full_output=True)
            cost = float(cost)
        else:
            new, ys = opt.step(f, x, d, y, nums_frequency=nf, full_output=True)
            cost = None
        return {"x": [float(v) for v in new[0]], "d": [float(v) for v in new[1]], "y": float(new[2]),
                "d_same": new[1] is d, "cost": cost, "ys": [float(v) for v in ys]}
    if c["type"] == "rotoselect":
        G = [qp.RX, qp.RY, qp.RZ]
        tab = c["table"]          # tab[d][g] = [A, phi, C]

        def cost_fn(x, generators=None):
            s = 0.0
            for dd, (xi, g) in enumerate(zip(x, generators)):
                A, phi, C = tab[dd][G.index(g)]
                s = s + A * math.sin(float(xi) + phi) + C
            return s
        opt = qp.RotoselectOptimizer()
        gens = [G[i] for i in c["gens"]]
        x = list(c["x"])
        if c["sc"]:
            xn, gn, cost = opt.step_and_cost(cost_fn, x, gens)
            cost = float(cost)
        else:
            xn, gn = opt.step(cost_fn, x, gens)
            cost = None
        return {"x": [float(v) for v in xn], "gens": [G.index(g) for g in gn], "cost": cost}
    raise ValueError(c["type"])


def guarded(fn, c):
    try:
        return fn(c)
    except Exception as e:  # pylint: disable=broad-except
        return "ERR:" + type(e).__name__ + ":" + str(e)[:200]


payload = json.load(sys.stdin)
print(json.dumps({"cases": [guarded(run_case, c) for c in payload.get("cases", [])],
                  "roto": [guarded(run_roto, c) for c in payload.get("roto", [])]}))
