"""Runs the real qp.qaoa builders on the JSON cases from stdin; prints one JSON line of observations.

case = {"fn": ..., "lib": "nx"|"rx", "nodes": [node values], "edges": [[i, j], ...] (positions in `nodes`),
        optional: "constrained", "reward", "b", "wires", "weights", "directed", "diag"}
observation = {"err": "<Type>: <msg>"} (any exception) or
  {"cost": terms, "mixer": terms|None, "diag": [[num, den], ...]|None, "isdiag": bool|None,
   "mapping": [[wire, [u, v]], ...]|None, "logs": [[num, den], ...]|None}
terms = [[num, den, [[wire, letter], ...]], ...] from the operator's pauli_rep (exact: floats are dyadic)."""
import json, sys
from fractions import Fraction

import numpy as np
import networkx as nx
import rustworkx as rx
import pennylane as qp
from pennylane import qaoa

LET = {"X": 1, "Y": 2, "Z": 3}


def frac(c):
    c = complex(c)
    if c.imag != 0:
        raise RuntimeError("complex coefficient")
    f = Fraction(float(c.real))
    return [f.numerator, f.denominator]


def terms(op):
    pr = op.pauli_rep
    if pr is None:
        raise RuntimeError("no pauli_rep")
    out = []
    for pw, c in pr.items():
        n, d = frac(c)
        out.append([n, d, sorted([[int(w), LET[l]] for w, l in pw.items()])])
    return out


def build(c):
    vals, edges, lib = c["nodes"], c["edges"], c["lib"]
    directed = c.get("directed", False)
    ws = c.get("weights")
    if lib == "nx":
        g = nx.DiGraph() if directed else nx.Graph()
        g.add_nodes_from(vals)
        for k, (i, j) in enumerate(edges):
            if ws is None:
                g.add_edge(vals[i], vals[j])
            else:
                g.add_edge(vals[i], vals[j], weight=ws[k])
    else:
        g = rx.PyDiGraph() if directed else rx.PyGraph()
        g.add_nodes_from(vals)
        for k, (i, j) in enumerate(edges):
            g.add_edge(i, j, "" if ws is None else {"weight": ws[k]})
    return g


def diag_of(H, order):
    # qp.matrix cannot evaluate an operator without terms (edge-less graph): no diagonal to look at then
    if len(order) == 0 or len(order) > 6 or len(H.ops) == 0:
        return None, None
    m = np.asarray(qp.matrix(H, wire_order=order))
    d = np.diag(m)
    isdiag = bool(np.allclose(m - np.diag(d), 0, atol=0))
    return [frac(x) for x in d], isdiag


def one(c):
    fn = c["fn"]
    res = {"cost": None, "mixer": None, "diag": None, "isdiag": None, "mapping": None, "logs": None}
    if fn == "bit_driver":
        H = qaoa.bit_driver(c["wires"], c["b"])
        res["cost"] = terms(H)
        if c.get("diag"):
            res["diag"], res["isdiag"] = diag_of(H, c["wires"])
        return res
    if fn == "x_mixer":
        res["cost"] = terms(qaoa.x_mixer(c["wires"]))
        return res
    g = build(c)
    vals = c["nodes"]
    if fn == "edge_driver":
        H = qaoa.edge_driver(g, c["reward"])
    elif fn in ("maxcut",):
        H, M = qaoa.maxcut(g)
        res["mixer"] = terms(M)
    elif fn in ("max_independent_set", "min_vertex_cover", "max_clique"):
        H, M = getattr(qaoa, fn)(g, constrained=c["constrained"])
        res["mixer"] = terms(M)
    elif fn == "xy_mixer":
        res["cost"] = terms(qaoa.xy_mixer(g))
        return res
    elif fn == "bit_flip_mixer":
        res["cost"] = terms(qaoa.bit_flip_mixer(g, c["b"]))
        return res
    elif fn in ("loss_hamiltonian", "net_flow_constraint", "out_flow_constraint", "cycle_mixer", "max_weight_cycle"):
        if c.get("weights") is not None:
            res["logs"] = [frac(np.log(w)) for w in c["weights"]]     # the numpy.log oracle
        m = len(c["edges"])
        if fn == "max_weight_cycle":
            H, M, mp = qaoa.max_weight_cycle(g, constrained=c["constrained"])
            res["mixer"] = terms(M)
            res["mapping"] = [[int(k), [int(v[0]), int(v[1])]] for k, v in mp.items()]
        else:
            H = getattr(qaoa.cycle, fn)(g)
        res["cost"] = terms(H)
        if c.get("diag") and fn != "cycle_mixer":
            res["diag"], res["isdiag"] = diag_of(H, list(range(m)))
        return res
    else:
        raise RuntimeError("unknown fn " + fn)
    res["cost"] = terms(H)
    if c.get("diag"):
        res["diag"], res["isdiag"] = diag_of(H, vals)
    return res


out = []
for c in json.load(sys.stdin)["cases"]:
    try:
        out.append(one(c))
    except Exception as ex:  # pylint: disable=broad-except
        out.append({"err": f"{type(ex).__name__}: {ex}"[:300]})
print(json.dumps(out))
