"""C38 Part B: metric tensors from the real code (unpatched PennyLane) against the certified Fubini-Study polynomials."""
import sys, json, random, math, cmath, warnings
warnings.filterwarnings("ignore")
import numpy as np
import pennylane as qp
sys.path.insert(0, "/verif/harness")
from gradcfg import *

req = json.load(sys.stdin)
rng = random.Random(req["seed"] + 13)


def restrict(G, pat):
    return G * np.array(pat, dtype=float)


def qnode_for(spec, interface, extra_wire=True):
    dev = qp.device("default.qubit", wires=spec["nw"] + (1 if extra_wire else 0))
    if interface == "torch":
        import torch as M
    elif interface == "jax":
        import jax.numpy as M
    else:
        from pennylane import numpy as M

    @qp.qnode(dev, interface=interface)
    def circ(x):
        for s in spec["steps"]:
            ps = [expr_val(p, x, M) for p in s["params"]]
            getattr(qp, s["name"])(*ps, wires=s["wires"])
        return qp.expval(qp.Z(0))
    return circ


def xarg(interface, xval):
    if interface == "autograd":
        from pennylane import numpy as pnp
        return pnp.array(xval, requires_grad=True)
    if interface == "jax":
        import jax
        jax.config.update("jax_enable_x64", True)
        return jax.numpy.array(xval)
    import torch
    return torch.tensor(xval, dtype=torch.float64, requires_grad=True)


def tonp(a):
    if hasattr(a, "detach"):
        a = a.detach().numpy()
    return np.asarray(a, dtype=float)


def main():
    out = {"results": [], "stats": {}}

    def rec(si, key, status, info=None, x=None):
        d = out["stats"].setdefault(key, {})
        d[status] = d.get(status, 0) + 1
        if status == "rejected":
            e = out["stats"].setdefault("_reject_reasons", {})
            e[(info or "")[:80]] = e.get((info or "")[:80], 0) + 1
        elif status != "ok":
            out["results"].append({"si": si, "config": key, "x": x, "result": dict(info, status=status)})

    for item in req["specs"]:
        spec, tp, D, si = item["spec"], [tuple(x) for x in item["tp"]], item["D"], item["si"]
        P = len(tp)
        xval = [rng.uniform(-2.5, 2.5) for _ in range(spec["nx"])]
        theta = [expr_val(spec["steps"][s]["params"][p], xval, math) for (s, p) in tp]
        J = np.array([expr_grad(spec["steps"][s]["params"][p], xval) for (s, p) in tp], dtype=float).reshape(P, len(xval))
        G = np.array([[pnum(item["G"][min(i, j)][max(i, j)] if item["G"][i][j] is None else item["G"][i][j], theta, D).real for j in range(P)] for i in range(P)], dtype=float)
        pats = item.get("blocks", {})
        full = [[1] * P for _ in range(P)]
        diag = [[1 if i == j else 0 for j in range(P)] for i in range(P)]
        # ---- tape level
        tape = numeric_tape(spec, theta, tp)
        tape = qp.tape.QuantumScript(tape.operations, [qp.expval(qp.Z(0))], trainable_params=tape.trainable_params)
        for name, approx, kw, pat in [("full", None, {"aux_wire": spec["nw"]}, full), ("blockdiag", "block-diag", {}, pats.get("blockdiag")), ("diag", "diag", {}, diag)]:
            key = "tape:metric_tensor:" + name
            if pat is None:
                continue
            try:
                gt, fn = qp.metric_tensor(tape, approx=approx, **kw)
                res = qp.execute(gt, qp.device("default.qubit"), diff_method=None)
                M = tonp(fn(res)).reshape(P, P)
            except Exception as e:
                rec(si, key, "rejected", type(e).__name__ + ": " + str(e)[:120].replace("\n", " "))
                continue
            ref = restrict(G, pat)
            if np.max(np.abs(M - ref)) > 1e-8 or not np.all(np.isfinite(M)):
                rec(si, key, "mismatch", {"got": M.tolist(), "ref": ref.tolist(), "theta": theta}, xval)
            else:
                rec(si, key, "ok")
        key = "tape:adjoint_metric_tensor"
        try:
            M = tonp(qp.adjoint_metric_tensor(tape)).reshape(P, P)
            if np.max(np.abs(M - G)) > 1e-8:
                rec(si, key, "mismatch", {"got": M.tolist(), "ref": G.tolist(), "theta": theta}, xval)
            else:
                rec(si, key, "ok")
        except Exception as e:
            rec(si, key, "rejected", type(e).__name__ + ": " + str(e)[:120].replace("\n", " "))
        # ---- QNode level (classical preprocessing: J^T G J)
        for itf in item.get("interfaces", ["autograd", "jax", "torch"]):
            x = xarg(itf, xval)
            for name, fnq, pat, scale in [("metric_tensor:full", lambda q: qp.metric_tensor(q, approx=None, aux_wire=spec["nw"]), full, 1.0),
                                          ("metric_tensor:blockdiag", lambda q: qp.metric_tensor(q, approx="block-diag"), pats.get("blockdiag"), 1.0),
                                          ("metric_tensor:diag", lambda q: qp.metric_tensor(q, approx="diag"), diag, 1.0),
                                          ("adjoint_metric_tensor", lambda q: qp.adjoint_metric_tensor(q), full, 1.0),
                                          ("quantum_fisher", lambda q: qp.gradients.quantum_fisher(q), full, 4.0)]:
                key = f"qnode:{itf}:{name}"
                if pat is None:
                    continue
                try:
                    M = tonp(fnq(qnode_for(spec, itf))(x))
                except Exception as e:
                    rec(si, key, "rejected", type(e).__name__ + ": " + str(e)[:120].replace("\n", " "))
                    continue
                ref = scale * (J.T @ restrict(G, pat) @ J)
                if M.size != ref.size:
                    rec(si, key, "shape", {"got": list(M.shape), "want": list(ref.shape)}, xval)
                    continue
                M = M.reshape(ref.shape)
                if np.max(np.abs(M - ref)) > 1e-7 or not np.all(np.isfinite(M)):
                    rec(si, key, "mismatch", {"got": M.tolist(), "ref": ref.tolist(), "theta": theta}, xval)
                else:
                    rec(si, key, "ok")
    print(json.dumps(out))


main()
