"""C63 implementation driver: runs the real pulse code of /repo.

stdin : {"cases": [case, ...]}      stdout (last line): {"obs": [result, ...]}
Every case is executed inside try/except; a failure is reported as {"err": "..."} (the harness decides what that means).
The coefficient functions are built here with jax.numpy from a small spec; the harness evaluates the same specs
independently with numpy for its reference integrator.
"""
import sys, json, math, warnings
warnings.filterwarnings("ignore")
import numpy as np
import jax
jax.config.update("jax_enable_x64", True)
import jax.numpy as jnp
import pennylane as qp


# --------------------------------------------------------------------------- spec -> objects
def smooth_fn(spec):
    k = spec["k"]
    if k == "const":
        return qp.pulse.constant
    if k == "sin":
        return lambda p, t: p[0] * jnp.sin(p[1] * t)
    if k == "lin":
        return lambda p, t: p * t
    if k == "gauss":
        s = spec["s"]
        return lambda p, t: p[0] * jnp.exp(-((t - p[1]) ** 2) / (2 * s * s))
    if k == "poly":
        return lambda p, t: p[0] + p[1] * t + p[2] * t * t
    if k == "cos1":
        w = spec["w"]
        return lambda p, t: p * jnp.cos(w * t)
    raise ValueError(k)


def coef_fn(spec):
    k = spec["k"]
    if k == "pwc":
        span = spec["span"]
        return qp.pulse.pwc(tuple(span) if isinstance(span, list) else span)
    if k == "pwcf":
        span = spec["span"]
        return qp.pulse.pwc_from_function(tuple(span) if isinstance(span, list) else span, spec["nb"])(smooth_fn(spec["inner"]))
    if k == "rect":
        x = spec["x"]
        w = spec["windows"]
        w = [tuple(a) for a in w] if isinstance(w[0], list) else tuple(w)
        return qp.pulse.rect(smooth_fn(x) if isinstance(x, dict) else x, windows=w)
    return smooth_fn(spec)


def mk_op(o):
    if "word" in o:
        fs = [getattr(qp, c)(w) for c, w in zip(o["word"], o["wires"])]
        return fs[0] if len(fs) == 1 else qp.prod(*fs)
    if "name" in o:
        return getattr(qp, o["name"])(wires=o["wires"])
    if "sum" in o:
        return qp.sum(*[mk_op(x) for x in o["sum"]])
    if "sprod" in o:
        return qp.s_prod(o["sprod"], mk_op(o["op"]))
    raise ValueError(str(o))


def mk_terms(terms):
    cs, ops = [], []
    for tm in terms:
        c = tm["coef"]
        cs.append(c["v"] if c["k"] == "fixed" else coef_fn(c))
        ops.append(mk_op(tm["op"]))
    return cs, ops


def mk_H(case):
    terms = case["terms"]
    b = case.get("build", "dot")
    if b == "dot":
        cs, ops = mk_terms(terms)
        return qp.dot(cs, ops)
    if b == "arith":
        cs, ops = mk_terms(terms)
        H = None
        for c, o in zip(cs, ops):
            tm = c * o
            H = tm if H is None else H + tm
        return H
    if b == "sum2":                       # H1 + H2, both built with dot, split after `split` terms
        k = case["split"]
        c1, o1 = mk_terms(terms[:k])
        c2, o2 = mk_terms(terms[k:])
        return qp.dot(c1, o1) + qp.dot(c2, o2)
    if b == "ctor":
        cs, ops = mk_terms(terms)
        return qp.pulse.ParametrizedHamiltonian(cs, ops)
    if b == "scaled":                     # s * H'  where the spec's fixed values / callables are those of H'
        cs, ops = mk_terms(terms)
        return case["scale"] * qp.pulse.ParametrizedHamiltonian(cs, ops)
    raise ValueError(b)


def jparams(ps):
    return [jnp.array(p, dtype=float) for p in ps]


def cplx(a):
    a = np.asarray(a)
    return [[float(x.real), float(x.imag)] for x in a.reshape(-1)], list(a.shape)


def okw(case):
    tol = case.get("tol")
    return dict(tol) if tol else {}


def tt(case):
    t = case["t"]
    return t


# --------------------------------------------------------------------------- case kinds
def run_evolve(case):
    H = mk_H(case)
    kw = okw(case)
    if case.get("dense") is not None:
        kw["dense"] = case["dense"]
    style = case.get("style", "call")
    if style == "call":
        ev = qp.evolve(H, **kw)
        op = ev(jparams(case["params"]), tt(case), return_intermediate=case.get("ri", False), complementary=case.get("comp", False))
    elif style == "ctor":
        op = qp.pulse.ParametrizedEvolution(H, params=jparams(case["params"]), t=tt(case), return_intermediate=case.get("ri", False),
                                            complementary=case.get("comp", False), **kw)
    else:                                 # keyword arguments given when calling
        ev = qp.evolve(H)
        op = ev(jparams(case["params"]), tt(case), return_intermediate=case.get("ri", False), complementary=case.get("comp", False), **kw)
    wo = case.get("wire_order")
    M = qp.matrix(op, wire_order=wo) if wo is not None else qp.matrix(op)
    flat, shape = cplx(M)
    return {"m": flat, "shape": shape, "wires": [w for w in op.wires], "hwires": [w for w in H.wires]}


def run_hw_evolve(case):
    H = build_hexp(case["e"], [])
    op = qp.evolve(H, **okw(case))(jparams(case["params"]), tt(case))
    M = qp.matrix(op, wire_order=case["wire_order"])
    flat, shape = cplx(M)
    return {"m": flat, "shape": shape, "hw": isinstance(H, qp.pulse.HardwareHamiltonian)}


def run_hcall(case):
    """H(params, t) as an operator: its matrix at one time"""
    H = mk_H(case)
    op = H(jparams(case["params"]), case["time"])
    M = qp.matrix(op, wire_order=case["wire_order"])
    flat, shape = cplx(M)
    return {"m": flat, "shape": shape}


def run_evolution_op(case):
    op = mk_op(case["op"])
    x = case["x"]
    style = case.get("style", "evolve")
    if style == "evolve":
        e = qp.evolve(op, x)
    else:
        e = qp.evolve(op)        # coefficient 1
    M = qp.matrix(e, wire_order=case["wire_order"])
    flat, shape = cplx(M)
    return {"m": flat, "shape": shape}


def prep_ops(prep):
    out = []
    for g in prep:
        out.append(getattr(qp, g["name"])(*g.get("params", []), wires=g["wires"]))
    return out


def run_device(case):
    H = mk_H(case)
    nw = case["nw"]
    dev = qp.device("default.qubit", wires=nw)
    kw = okw(case)
    params = jparams(case["params"])
    ri, comp = case.get("ri", False), case.get("comp", False)

    @qp.qnode(dev, interface="jax")
    def circ(ps):
        prep_ops(case["prep"])          # operators are queued on creation
        qp.evolve(H, **kw)(ps, tt(case), return_intermediate=ri, complementary=comp)
        prep_ops(case.get("post", []))
        return qp.state()
    f = jax.jit(circ) if case.get("jit") else circ
    st = f(params)
    flat, shape = cplx(st)
    return {"m": flat, "shape": shape}


def obs_of(o):
    if "lin" in o:
        return qp.dot(o["lin"], [mk_op(x) for x in o["ops"]])
    return mk_op(o)


def run_grad(case):
    H = mk_H(case)
    nw = case["nw"]
    dev = qp.device("default.qubit", wires=nw)
    kw = okw(case)
    params = jparams(case["params"])
    ob = obs_of(case["obs"])
    res = {}

    def ops_for(ps):
        return prep_ops(case["prep"]) + [qp.evolve(H, **kw)(ps, tt(case))] + prep_ops(case.get("post", []))

    @qp.qnode(dev, interface="jax")
    def circ(ps):
        ops_for(ps)                     # operators are queued on creation
        return qp.expval(ob)
    which = case.get("which", ["backprop", "odegen", "stoch"])
    if "backprop" in which:
        res["value"] = float(circ(params))
        g = jax.jacobian(circ)(params)
        res["backprop"] = [np.asarray(x).reshape(-1).tolist() for x in g]

    def tape_of():
        t = qp.tape.QuantumScript(ops_for(params), [qp.expval(ob)])
        # the trainable parameters are exactly the pulse parameters (prep gates carry python floats)
        idx = [i for i, p in enumerate(t.get_parameters(trainable_only=False)) if isinstance(p, jax.Array)]
        t.trainable_params = idx
        return t

    def flat_grad(g, n):
        if n == 1 and not isinstance(g, (tuple, list)):
            g = (g,)
        return [np.asarray(x).reshape(-1).tolist() for x in g]
    if "odegen" in which:
        tape = tape_of()
        tapes, fn = qp.gradients.pulse_odegen(tape, atol=case.get("odegen_atol", 1e-7))
        r = dev.execute(tapes)
        res["odegen"] = flat_grad(fn(r), len(params))
        res["odegen_tapes"] = len(tapes)
    if "stoch" in which:
        tape = tape_of()
        tapes, fn = qp.gradients.stoch_pulse_grad(tape, num_split_times=case["nsplit"], sampler_seed=case["sseed"],
                                                  use_broadcasting=case.get("bcast", False))
        r = dev.execute(tapes)
        res["stoch"] = flat_grad(fn(r), len(params))
        res["stoch_tapes"] = len(tapes)
    return res


# --------------------------------------------------------------------------- parameter routing (exact, integers)
class Rec:
    """a coefficient-function component (amplitude / phase / frequency / plain) that records what it receives"""
    def __init__(self, fid, log):
        self.fid, self.log = fid, log

    def __call__(self, p, t):
        self.log.append([self.fid, canon(p)])
        return 1.0


def uniq(log):
    """set of recorded calls (a coefficient function may be evaluated more than once)"""
    out = []
    for x in sorted(log, key=json.dumps):
        if not out or out[-1] != x:
            out.append(x)
    return out


def canon(p):
    if isinstance(p, (list, tuple)):
        return [canon(x) for x in p]
    a = np.asarray(p)
    if a.ndim == 0:
        return int(a)
    return [canon(x) for x in a]


def arg(a, log):
    if isinstance(a, dict):
        return Rec(a["f"], log) if "f" in a else coef_fn(a)
    return a


def build_hexp(e, log):
    k = e["k"]
    if k == "fix":
        return qp.pulse.ParametrizedHamiltonian([e["c"]], [qp.Z(e["op"])])
    if k == "fun":
        return qp.pulse.ParametrizedHamiltonian([Rec(e["f"], log)], [qp.Z(e["op"])])
    if k == "terms":         # plain ParametrizedHamiltonian from coefficient / operator specs
        cs, ops = mk_terms(e["terms"])
        return qp.pulse.ParametrizedHamiltonian(cs, ops)
    if k == "add":
        return build_hexp(e["a"], log) + build_hexp(e["b"], log)
    if k == "opadd":         # Operator + H  (goes through __radd__)
        return qp.s_prod(e["c"], qp.Z(e["op"])) + build_hexp(e["b"], log)
    if k == "addop":
        return build_hexp(e["a"], log) + qp.s_prod(e["c"], qp.Z(e["op"]))
    if k == "scale":
        return e["c"] * build_hexp(e["a"], log) if e.get("left", True) else build_hexp(e["a"], log) * e["c"]
    if k == "drive":
        return qp.pulse.drive(arg(e["amp"], log), arg(e["phase"], log), wires=e["wires"])
    if k == "ryd":
        return qp.pulse.rydberg_drive(arg(e["amp"], log), arg(e["phase"], log), arg(e["det"], log), wires=e["wires"])
    if k == "trans":
        return qp.pulse.transmon_drive(arg(e["amp"], log), arg(e["phase"], log), arg(e["freq"], log), wires=e["wires"])
    if k == "rydint":
        return qp.pulse.rydberg_interaction([[0.0, 0.0], [0.0, 4.0]], wires=[0, 1])
    if k == "transint":
        return qp.pulse.transmon_interaction(qubit_freq=[1.0, 2.0], connections=[[0, 1]], coupling=0.5, wires=[0, 1])
    raise ValueError(k)


def coef_desc(c):
    from pennylane.pulse.hardware_hamiltonian import AmplitudeAndPhase
    from pennylane.pulse.transmon import AmplitudeAndPhaseAndFreq
    if isinstance(c, AmplitudeAndPhase):
        return ["AP", bool(c.amp_is_callable), bool(c.phase_is_callable)]
    if isinstance(c, AmplitudeAndPhaseAndFreq):
        return ["APF", bool(c.amp_is_callable), bool(c.phase_is_callable), bool(c.freq_is_callable)]
    return ["F"]


def run_route(case):
    log = []
    H = build_hexp(case["e"], log)
    n = case["n"]
    params = [100 + i for i in range(n)]
    out = {"hw": isinstance(H, qp.pulse.HardwareHamiltonian), "desc": [coef_desc(c) for c in H.coeffs_parametrized],
           "nfixed": len(H.coeffs_fixed)}
    if out["hw"]:
        out["reorder"] = canon(H.reorder_fn(params, H.coeffs_parametrized))
    del log[:]
    try:
        H(params, 0.5)
        out["calls"] = uniq(log)
    except Exception as ex:  # noqa
        out["calls"] = None
        out["call_err"] = type(ex).__name__
    # the path used by the ODE right-hand side
    from pennylane.pulse.parametrized_hamiltonian_pytree import ParametrizedHamiltonianPytree
    del log[:]
    try:
        Hp = ParametrizedHamiltonianPytree.from_hamiltonian(H, dense=True, wire_order=H.wires)
        Hp(params, 0.5)
        out["calls_pytree"] = uniq(log)
    except Exception as ex:  # noqa
        out["calls_pytree"] = None
        out["pytree_err"] = type(ex).__name__
    return out


def run_plain_route(case):
    """ParametrizedHamiltonian arithmetic with coefficient functions that return their (integer) parameter:
    which integer becomes the coefficient of which operator"""
    def build(e):
        k = e["k"]
        if k == "fix":
            return qp.pulse.ParametrizedHamiltonian([e["c"]], [qp.Z(e["op"])])
        if k == "fun":
            return qp.pulse.ParametrizedHamiltonian([lambda p, t: p], [qp.Z(e["op"])])
        if k == "dot":
            return qp.pulse.ParametrizedHamiltonian([(lambda p, t: p) if c is None else c for c in e["cs"]], [qp.Z(o) for o in e["ops"]])
        if k == "add":
            return build(e["a"]) + build(e["b"])
        if k == "opadd":
            return qp.s_prod(e["c"], qp.Z(e["op"])) + build(e["b"])
        if k == "addop":
            return build(e["a"]) + qp.s_prod(e["c"], qp.Z(e["op"]))
        if k == "scale":
            return e["c"] * build(e["a"]) if e.get("left", True) else build(e["a"]) * e["c"]
        raise ValueError(k)
    H = build(case["e"])
    n = len(H.coeffs_parametrized)
    params = [100 + i for i in range(n)]
    fixed = [[int(c), int(o.wires[0])] for c, o in zip(H.coeffs_fixed, H.ops_fixed)]
    par = [[int(f(p, 0.5)), int(o.wires[0])] for f, p, o in zip(H.coeffs_parametrized, params, H.ops_parametrized)]
    # through __call__: coefficients of the returned operator
    op = H(params, 0.5)
    cs, ops = op.terms()
    called = sorted([[int(round(float(c))), int(o.wires[0])] for c, o in zip(cs, ops)])
    return {"n": n, "fixed": fixed, "par": par, "called": called}


KINDS = {"hw_evolve": run_hw_evolve, "evolve": run_evolve, "hcall": run_hcall, "evolution_op": run_evolution_op, "device": run_device, "grad": run_grad,
         "route": run_route, "plain_route": run_plain_route}


def main():
    payload = json.load(sys.stdin)
    out = []
    import time
    for case in payload["cases"]:
        t0 = time.time()
        try:
            out.append(KINDS[case["kind"]](case))
            out[-1]["secs"] = round(time.time() - t0, 2)
        except Exception as ex:  # noqa
            import traceback
            out.append({"err": type(ex).__name__ + ": " + str(ex)[:300], "tb": traceback.format_exc()[-600:]})
    print(json.dumps({"obs": out}))


main()
